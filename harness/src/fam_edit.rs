// Family "edit": local editing calls (C03) and text indexes per encoding (C24).
//
// Programs of editing calls on 1-2 replicas, through manual transactions and through AutoCommit,
// about 20 % of the calls drawn from a labelled invalid stream.  For every call:
//   (a) the ops of the committed change are compared, op for op, with the ops the Coq model
//       (Crdt/Local.v) generates for the same call sequence (chk_edit),
//   (b) the observation inside the open transaction after each call, and after commit, is compared
//       with the model's `observe` of old ops + new ops,
//   (c) failing calls: error class (model) and, directly, observation / base heads / pending op
//       count unchanged,
//   (d) direct frame check: the rendering of every other object is unchanged by a call.
// Calls outside the model (mark / unmark / split_block / join_block, the GraphemeCluster encoding)
// run in direct-only programs.  Text per encoding (C24): length == width of text(), splice_text at
// encoding-indexed positions == string splice at the character boundary, get / marks / cursors in the
// same unit, concat(spans) == text.
use crate::gen;
use crate::model::{coq_actor, coq_objid, coq_objtype, coq_op, coq_scalar, coq_str, object_ids};
use crate::util::*;
use automerge::marks::{ExpandMark, Mark};
use automerge::transaction::Transactable;
use automerge::{
    ActorId, AutoCommit, Automerge, AutomergeError, Change, ObjId, ObjType, ReadDoc, ScalarValue, TextEncoding, Value, ROOT,
};
use serde_json::json;
use unicode_segmentation::UnicodeSegmentation;

const HEADER: &str = "From AM Require Import Base.Prelude Base.Order Crdt.Types Crdt.Interp Crdt.Local Exec.EditExec.\nLocal Open Scope N_scope.\n";

// ------------------------------------------------------------------ commands
#[derive(Clone, Debug)]
pub enum P {
    Map(String),
    Seq(usize),
}

#[derive(Clone, Debug)]
pub enum Cmd {
    Put(ObjId, P, ScalarValue),
    PutObj(ObjId, P, ObjType),
    Insert(ObjId, usize, ScalarValue),
    InsertObj(ObjId, usize, ObjType),
    Delete(ObjId, P),
    Inc(ObjId, P, i64),
    Splice(ObjId, usize, isize, Vec<ScalarValue>),
    SpliceText(ObjId, usize, isize, String),
    // outside the model
    Mark(ObjId, usize, usize, String, ScalarValue, u8),
    Unmark(ObjId, usize, usize, String, u8),
    SplitBlock(ObjId, usize),
    JoinBlock(ObjId, usize),
}

impl Cmd {
    fn kind(&self) -> &'static str {
        match self {
            Cmd::Put(..) => "put",
            Cmd::PutObj(..) => "put_object",
            Cmd::Insert(..) => "insert",
            Cmd::InsertObj(..) => "insert_object",
            Cmd::Delete(..) => "delete",
            Cmd::Inc(..) => "increment",
            Cmd::Splice(..) => "splice",
            Cmd::SpliceText(..) => "splice_text",
            Cmd::Mark(..) => "mark",
            Cmd::Unmark(..) => "unmark",
            Cmd::SplitBlock(..) => "split_block",
            Cmd::JoinBlock(..) => "join_block",
        }
    }
    fn obj(&self) -> &ObjId {
        match self {
            Cmd::Put(o, ..) | Cmd::PutObj(o, ..) | Cmd::Insert(o, ..) | Cmd::InsertObj(o, ..) | Cmd::Delete(o, ..)
            | Cmd::Inc(o, ..) | Cmd::Splice(o, ..) | Cmd::SpliceText(o, ..) | Cmd::Mark(o, ..) | Cmd::Unmark(o, ..)
            | Cmd::SplitBlock(o, ..) | Cmd::JoinBlock(o, ..) => o,
        }
    }
    fn modelled(&self) -> bool {
        !matches!(self, Cmd::Mark(..) | Cmd::Unmark(..) | Cmd::SplitBlock(..) | Cmd::JoinBlock(..))
    }
    fn coq(&self) -> String {
        let p = |p: &P| match p {
            P::Map(k) => format!("(PMap {})", coq_str(k)),
            P::Seq(i) => format!("(PSeq {})", i),
        };
        match self {
            Cmd::Put(o, pr, v) => format!("(CPut {} {} {})", coq_objid(o), p(pr), coq_scalar(v)),
            Cmd::PutObj(o, pr, t) => format!("(CPutObj {} {} {})", coq_objid(o), p(pr), coq_objtype(*t)),
            Cmd::Insert(o, i, v) => format!("(CInsert {} {} {})", coq_objid(o), i, coq_scalar(v)),
            Cmd::InsertObj(o, i, t) => format!("(CInsertObj {} {} {})", coq_objid(o), i, coq_objtype(*t)),
            Cmd::Delete(o, pr) => format!("(CDelete {} {})", coq_objid(o), p(pr)),
            Cmd::Inc(o, pr, z) => format!("(CInc {} {} {})", coq_objid(o), p(pr), coq_z(*z as i128)),
            Cmd::Splice(o, i, d, vs) => format!(
                "(CSplice {} {} {} {})",
                coq_objid(o),
                i,
                coq_z(*d as i128),
                coq_list(&vs.iter().map(coq_scalar).collect::<Vec<_>>())
            ),
            Cmd::SpliceText(o, i, d, s) => format!("(CSpliceText {} {} {} {})", coq_objid(o), i, coq_z(*d as i128), coq_str(s)),
            _ => "(* not modelled *)".to_string(),
        }
    }
}

fn expand_of(e: u8) -> ExpandMark {
    match e % 4 {
        0 => ExpandMark::None,
        1 => ExpandMark::Before,
        2 => ExpandMark::After,
        _ => ExpandMark::Both,
    }
}

fn prop_of(p: &P) -> automerge::Prop {
    match p {
        P::Map(k) => automerge::Prop::Map(k.clone()),
        P::Seq(i) => automerge::Prop::Seq(*i),
    }
}

/// error classes: 0 ok, 1 InvalidObjId / NotAnObject (an id with a known actor that names no object), 2 InvalidOp, 3 InvalidIndex, 4 MissingCounter, 5 InvalidValueType, 9 other
fn err_class(e: &AutomergeError) -> u8 {
    match e {
        AutomergeError::InvalidObjId(_) | AutomergeError::NotAnObject => 1,
        AutomergeError::InvalidOp(_) => 2,
        AutomergeError::InvalidIndex(_) => 3,
        AutomergeError::MissingCounter => 4,
        AutomergeError::InvalidValueType { .. } => 5,
        _ => 9,
    }
}

fn exec<T: Transactable>(t: &mut T, c: &Cmd) -> Result<Option<ObjId>, AutomergeError> {
    match c {
        Cmd::Put(o, p, v) => t.put(o, prop_of(p), v.clone()).map(|_| None),
        Cmd::PutObj(o, p, ty) => t.put_object(o, prop_of(p), *ty).map(Some),
        Cmd::Insert(o, i, v) => t.insert(o, *i, v.clone()).map(|_| None),
        Cmd::InsertObj(o, i, ty) => t.insert_object(o, *i, *ty).map(Some),
        Cmd::Delete(o, p) => t.delete(o, prop_of(p)).map(|_| None),
        Cmd::Inc(o, p, z) => t.increment(o, prop_of(p), *z).map(|_| None),
        Cmd::Splice(o, i, d, vs) => t.splice(o, *i, *d, vs.iter().cloned()).map(|_| None),
        Cmd::SpliceText(o, i, d, s) => t.splice_text(o, *i, *d, s).map(|_| None),
        Cmd::Mark(o, s, e, name, v, ex) => t.mark(o, Mark::new(name.clone(), v.clone(), *s, *e), expand_of(*ex)).map(|_| None),
        Cmd::Unmark(o, s, e, name, ex) => t.unmark(o, name, *s, *e, expand_of(*ex)).map(|_| None),
        Cmd::SplitBlock(o, i) => t.split_block(o, *i).map(Some),
        Cmd::JoinBlock(o, i) => t.join_block(o, *i).map(|_| None),
    }
}

// ------------------------------------------------------------------ observation (own copy: sequences are walked
// element by element — an element of a text spans `width` index units and a zero-width element cannot be addressed)
pub fn enc_width(enc: TextEncoding, s: &str) -> usize {
    match enc {
        TextEncoding::UnicodeCodePoint => s.chars().count(),
        TextEncoding::Utf8CodeUnit => s.len(),
        TextEncoding::Utf16CodeUnit => s.encode_utf16().count(),
        TextEncoding::GraphemeCluster => s.graphemes(true).count(),
    }
}

fn exid_key(id: &ObjId) -> (u64, Vec<u8>) {
    match id {
        ObjId::Root => (0, vec![]),
        ObjId::Id(c, a, _) => (*c, a.to_bytes().to_vec()),
    }
}

fn coq_vobs(v: &Value<'_>) -> String {
    match v {
        Value::Object(t) => format!("(VO {})", coq_objtype(*t)),
        Value::Scalar(s) => match s.as_ref() {
            ScalarValue::Counter(c) => format!("(VC {})", coq_z(i64::from(c) as i128)),
            other => format!("(VS {})", coq_scalar(other)),
        },
    }
}

fn coq_register(mut vals: Vec<(Value<'_>, ObjId)>) -> String {
    vals.sort_by(|a, b| exid_key(&a.1).cmp(&exid_key(&b.1)));
    let items: Vec<String> = vals.iter().map(|(v, id)| format!("({},{})", coq_objid(id), coq_vobs(v))).collect();
    coq_list(&items)
}

/// width of a text element whose register is `vals` (the value with the greatest id wins)
fn reg_width(enc: TextEncoding, vals: &[(Value<'_>, ObjId)]) -> usize {
    let w = vals.iter().max_by_key(|x| exid_key(&x.1));
    match w {
        Some((Value::Scalar(s), _)) => match s.as_ref() {
            ScalarValue::Str(s) => enc_width(enc, s),
            _ => enc_width(enc, "\u{fffc}"),
        },
        Some(_) => enc_width(enc, "\u{fffc}"),
        None => 0,
    }
}

/// one object as a Coq `oobs` literal; Err(text) when a read fails or the index walk is inconsistent
fn observe_obj<D: ReadDoc>(doc: &D, id: &ObjId, enc: TextEncoding) -> Result<Option<String>, String> {
    let ty = match doc.object_type(id) {
        Ok(t) => t,
        Err(_) => return Ok(None),
    };
    let entries = if ty.is_sequence() {
        let len = doc.length(id);
        let mut regs = vec![];
        let mut i = 0usize;
        while i < len {
            let vals = doc.get_all(id, i).map_err(|e| format!("get_all({:?},{}) failed: {}", id, i, e))?;
            if vals.is_empty() {
                return Err(format!("get_all({:?},{}) is empty below length {}", id, i, len));
            }
            let w = if ty == ObjType::Text { reg_width(enc, &vals) } else { 1 };
            if w == 0 {
                return Err(format!("get_all({:?},{}) returned a zero-width element", id, i));
            }
            regs.push(coq_register(vals));
            i += w;
        }
        if i != len {
            return Err(format!("walking {:?} by element widths ends at {} but length is {}", id, i, len));
        }
        format!("(EL {})", coq_list(&regs))
    } else {
        let keys: Vec<String> = doc.keys(id).collect();
        let mut ents = vec![];
        for k in keys {
            let vals = doc.get_all(id, k.as_str()).map_err(|e| format!("get_all({:?},{:?}) failed: {}", id, k, e))?;
            ents.push(format!("({},{})", coq_str(&k), coq_register(vals)));
        }
        format!("(EM {})", coq_list(&ents))
    };
    Ok(Some(format!("(mkO {} {} {})", coq_objid(id), coq_objtype(ty), entries)))
}

fn observe_all<D: ReadDoc>(doc: &D, cands: &[(ObjId, ObjType)], enc: TextEncoding) -> Result<Vec<(ObjId, String)>, String> {
    let mut out = vec![];
    for (id, _) in cands {
        if let Some(s) = observe_obj(doc, id, enc)? {
            out.push((id.clone(), s));
        }
    }
    Ok(out)
}

fn obs_coq(o: &[(ObjId, String)]) -> String {
    coq_list(&o.iter().map(|x| x.1.clone()).collect::<Vec<_>>())
}

fn coq_enc(enc: TextEncoding) -> &'static str {
    match enc {
        TextEncoding::UnicodeCodePoint => "EncCP",
        TextEncoding::Utf8CodeUnit => "EncU8",
        TextEncoding::Utf16CodeUnit => "EncU16",
        TextEncoding::GraphemeCluster => "EncCP",
    }
}

/// a change as a model literal with its hash replaced by a small number: the checker uses the ops, actor and
/// start_op only, and 256-bit literals are slow to parse
fn coq_change_small(c: &Change, idx: usize) -> String {
    let e = c.decode();
    format!("(mkChange {} {} {} {} [] {})", idx + 1, coq_actor(&e.actor_id), e.seq, e.start_op.get(), coq_ops_of(c))
}

fn coq_ops_of(c: &Change) -> String {
    let e = c.decode();
    let start = e.start_op.get();
    let ops: Vec<String> = e.operations.iter().enumerate().map(|(i, op)| coq_op(op, start + i as u64, &e.actor_id)).collect();
    coq_list(&ops)
}

// ------------------------------------------------------------------ generation of one call
fn has_counter<D: ReadDoc>(doc: &D, obj: &ObjId, p: &P) -> bool {
    doc.get_all(obj, prop_of(p))
        .map(|vs| vs.iter().any(|(v, _)| matches!(v, Value::Scalar(s) if matches!(s.as_ref(), ScalarValue::Counter(_)))))
        .unwrap_or(false)
}

fn text_value(rng: &mut Rng) -> ScalarValue {
    // any scalar, counters included (a text element can hold a counter and be incremented)
    if rng.chance(1, 4) {
        ScalarValue::counter(rng.below(9) as i64)
    } else {
        gen::scalar(rng)
    }
}

fn small_str(rng: &mut Rng) -> String {
    rng.pick(&gen::STRS).to_string()
}

#[derive(Clone, Copy)]
struct Cfg {
    marks: bool, // direct-only program: marks and blocks allowed, nothing goes to the model
    focus: bool, // conflict-focused program: every replica works on root key "a" and the first elements of list "l"
    diverge: bool, // conflict-focused program, first round: only puts / increments on the shared registers (no merges yet)
}

fn small_value(rng: &mut Rng) -> ScalarValue {
    match rng.below(6) {
        0 | 1 | 2 => ScalarValue::counter(rng.below(9) as i64),
        3 => ScalarValue::Str(rng.pick(&["x", "text", "\u{e9}"]).to_string().into()),
        4 => ScalarValue::Int(rng.below(5) as i64),
        _ => ScalarValue::Null,
    }
}

/// conflict-focused stream: counters and non-counters put concurrently on the same few registers, then
/// incremented / overwritten / deleted after the merge
fn gen_focus<D: ReadDoc>(doc: &D, rng: &mut Rng, diverge: bool) -> Option<Cmd> {
    let list = match doc.get(ROOT, "l") {
        Ok(Some((Value::Object(ObjType::List), id))) => id,
        _ => return Some(Cmd::PutObj(ROOT, P::Map("l".into()), ObjType::List)),
    };
    let len = doc.length(&list);
    if len == 0 {
        return Some(Cmd::Insert(list, 0, small_value(rng)));
    }
    // the shared registers
    let mut regs: Vec<(ObjId, P)> = vec![(ROOT, P::Map("a".into()))];
    for i in 0..len.min(3) {
        regs.push((list.clone(), P::Seq(i)));
    }
    if diverge {
        let (o, p) = rng.pick(&regs).clone();
        return if has_counter(doc, &o, &p) && rng.chance(1, 3) {
            Some(Cmd::Inc(o, p, rng.below(5) as i64))
        } else {
            Some(Cmd::Put(o, p, small_value(rng)))
        };
    }
    // after a merge: go for a conflicted register first (increment it when it holds a counter)
    let conflicted: Vec<(ObjId, P)> = regs.iter().filter(|(o, p)| doc.get_all(o, prop_of(p)).map(|v| v.len() >= 2).unwrap_or(false)).cloned().collect();
    if !conflicted.is_empty() && rng.chance(3, 4) {
        let (o, p) = rng.pick(&conflicted).clone();
        return match rng.below(8) {
            0 | 1 | 2 | 3 if has_counter(doc, &o, &p) => Some(Cmd::Inc(o, p, rng.below(7) as i64 - 2)),
            4 => Some(Cmd::Delete(o, p)),
            5 => Some(Cmd::PutObj(o, p, ObjType::Map)),
            6 => match current_scalar(doc, &o, &p) {
                Some(v) => Some(Cmd::Put(o, p, v)), // the winner's own value: conflict resolution by delete
                None => Some(Cmd::Put(o, p, small_value(rng))),
            },
            _ => Some(Cmd::Put(o, p, small_value(rng))),
        };
    }
    let i = rng.below(len.min(2) as u64) as usize;
    match rng.below(14) {
        0 | 1 | 2 => Some(Cmd::Put(list, P::Seq(i), small_value(rng))),
        3 | 4 | 5 => {
            if has_counter(doc, &list, &P::Seq(i)) {
                Some(Cmd::Inc(list, P::Seq(i), rng.below(7) as i64 - 2))
            } else {
                Some(Cmd::Put(list, P::Seq(i), ScalarValue::counter(rng.below(4) as i64)))
            }
        }
        6 => Some(Cmd::Put(ROOT, P::Map("a".into()), small_value(rng))),
        7 | 8 => {
            if has_counter(doc, &ROOT, &P::Map("a".into())) {
                Some(Cmd::Inc(ROOT, P::Map("a".into()), 3))
            } else {
                Some(Cmd::Put(ROOT, P::Map("a".into()), ScalarValue::counter(rng.below(4) as i64)))
            }
        }
        9 if len > 1 => Some(Cmd::Delete(list, P::Seq(i))),
        10 => Some(Cmd::Delete(ROOT, P::Map("a".into()))),
        11 => Some(Cmd::PutObj(list, P::Seq(i), ObjType::Map)),
        _ => Some(Cmd::Insert(list, rng.below(len as u64 + 1) as usize, small_value(rng))),
    }
}

/// current winner of a register as a scalar, if it is one
fn current_scalar<D: ReadDoc>(doc: &D, obj: &ObjId, p: &P) -> Option<ScalarValue> {
    match doc.get(obj, prop_of(p)) {
        Ok(Some((Value::Scalar(s), _))) => Some(s.into_owned()),
        _ => None,
    }
}

fn gen_valid<D: ReadDoc>(doc: &D, rng: &mut Rng, objs: &[(ObjId, ObjType)], cfg: Cfg) -> Option<Cmd> {
    if cfg.focus && (cfg.diverge || rng.chance(5, 6)) {
        return gen_focus(doc, rng, cfg.diverge);
    }
    let seqs: Vec<_> = objs.iter().filter(|o| o.1.is_sequence()).cloned().collect();
    let (obj, ty) = if !seqs.is_empty() && rng.chance(1, 2) { rng.pick(&seqs).clone() } else { rng.pick(objs).clone() };
    match ty {
        ObjType::Map | ObjType::Table => {
            let existing: Vec<String> = doc.keys(&obj).collect();
            let key = if !existing.is_empty() && rng.chance(1, 2) { rng.pick(&existing).clone() } else { rng.pick(&gen::KEYS).to_string() };
            let p = P::Map(key.clone());
            match rng.below(12) {
                0 | 1 => Some(Cmd::Delete(obj, p)), // existing or missing key (a missing key is a no-op)
                2 | 3 => {
                    for k in existing {
                        let p = P::Map(k);
                        if has_counter(doc, &obj, &p) {
                            return Some(Cmd::Inc(obj, p, rng.below(9) as i64 - 4));
                        }
                    }
                    Some(Cmd::Put(obj, p, ScalarValue::counter(rng.below(5) as i64)))
                }
                4 | 5 => Some(Cmd::PutObj(obj, p, gen::objtype(rng))),
                6 => {
                    // the value the register already shows (no-op / conflict resolution path)
                    match current_scalar(doc, &obj, &p) {
                        Some(v) => Some(Cmd::Put(obj, p, v)),
                        None => Some(Cmd::Put(obj, p, gen::scalar(rng))),
                    }
                }
                _ => Some(Cmd::Put(obj, p, gen::scalar(rng))),
            }
        }
        ObjType::List => {
            let len = doc.length(&obj);
            match rng.below(14) {
                0 | 1 if len > 0 => Some(Cmd::Delete(obj, P::Seq(rng.below(len as u64) as usize))),
                2 | 3 if len > 0 => {
                    let i = if rng.chance(1, 2) { 0 } else { rng.below(len as u64) as usize };
                    let v = if rng.chance(1, 3) { ScalarValue::counter(rng.below(9) as i64) } else { gen::scalar(rng) };
                    Some(Cmd::Put(obj, P::Seq(i), v))
                }
                4 if len > 0 => {
                    for i in 0..len {
                        if has_counter(doc, &obj, &P::Seq(i)) {
                            return Some(Cmd::Inc(obj, P::Seq(i), rng.below(7) as i64 - 3));
                        }
                    }
                    Some(Cmd::Put(obj, P::Seq(rng.below(len as u64) as usize), ScalarValue::counter(1)))
                }
                5 => Some(Cmd::InsertObj(obj, rng.below(len as u64 + 1) as usize, gen::objtype(rng))),
                6 if len > 0 => Some(Cmd::PutObj(obj, P::Seq(rng.below(len as u64) as usize), gen::objtype(rng))),
                7 | 8 => {
                    let i = rng.below(len as u64 + 1) as usize;
                    let maxdel = (len - i).min(3) as u64;
                    let mut del = rng.below(maxdel + 1) as isize;
                    let n = rng.below(4) as usize;
                    let vals: Vec<ScalarValue> = (0..n).map(|_| gen::scalar(rng)).collect();
                    let mut i = i;
                    if rng.chance(1, 5) && del > 0 {
                        // negative form: delete before the position
                        i += del as usize;
                        del = -del;
                    } else if rng.chance(1, 8) {
                        del += 2; // more than there is: the loop just stops at the end
                    }
                    Some(Cmd::Splice(obj, i, del, vals))
                }
                9 if len > 0 => {
                    let p = P::Seq(rng.below(len as u64) as usize);
                    match current_scalar(doc, &obj, &p) {
                        Some(v) => Some(Cmd::Put(obj, p, v)),
                        None => None,
                    }
                }
                _ => Some(Cmd::Insert(obj, rng.below(len as u64 + 1) as usize, gen::scalar(rng))),
            }
        }
        ObjType::Text => {
            let len = doc.length(&obj);
            let pos = rng.below(len as u64 + 1) as usize;
            match rng.below(16) {
                0 if len > 0 => Some(Cmd::Delete(obj, P::Seq(rng.below(len as u64) as usize))),
                9 | 10 if len > 0 => {
                    // a counter inside the text: increment it, or make one
                    let mut i = 0usize;
                    while i < len {
                        if has_counter(doc, &obj, &P::Seq(i)) {
                            return Some(Cmd::Inc(obj, P::Seq(i), rng.below(7) as i64 - 2));
                        }
                        i += 1;
                    }
                    Some(Cmd::Put(obj, P::Seq(rng.below(len as u64) as usize), ScalarValue::counter(rng.below(5) as i64)))
                }
                1 if len > 0 => {
                    // replaces one element by a value of any width (multi-character string, empty string, non-string)
                    let v = if rng.chance(2, 3) { ScalarValue::Str(small_str(rng).into()) } else { text_value(rng) };
                    Some(Cmd::Put(obj, P::Seq(rng.below(len as u64) as usize), v))
                }
                2 => {
                    let v = if rng.chance(2, 3) { ScalarValue::Str(small_str(rng).into()) } else { text_value(rng) };
                    Some(Cmd::Insert(obj, pos, v))
                }
                3 => {
                    let n = rng.below(3) as usize;
                    let vals: Vec<ScalarValue> = (0..n).map(|_| ScalarValue::Str(small_str(rng).into())).collect();
                    let del = rng.below((len - pos).min(2) as u64 + 1) as isize;
                    Some(Cmd::Splice(obj, pos, del, vals))
                }
                4 if cfg.marks => Some(Cmd::InsertObj(obj, pos, ObjType::Map)),
                5 | 6 if cfg.marks && len > 0 => {
                    let s = rng.below(len as u64) as usize;
                    let e = s + rng.below((len - s) as u64 + 1) as usize;
                    let name = rng.pick(&["bold", "link", "i"]).to_string();
                    if rng.chance(1, 4) {
                        Some(Cmd::Unmark(obj, s, e, name, rng.below(4) as u8))
                    } else {
                        Some(Cmd::Mark(obj, s, e, name, if rng.chance(1, 2) { ScalarValue::Boolean(true) } else { ScalarValue::Str("u".into()) }, rng.below(4) as u8))
                    }
                }
                7 if cfg.marks => Some(Cmd::SplitBlock(obj, pos)),
                8 if cfg.marks && len > 0 => Some(Cmd::JoinBlock(obj, rng.below(len as u64) as usize)),
                _ => {
                    let maxdel = (len - pos).min(3) as u64;
                    let mut del = if rng.chance(1, 3) { rng.below(maxdel + 1) as isize } else { 0 };
                    let mut pos = pos;
                    if del > 0 && rng.chance(1, 5) {
                        pos += del as usize;
                        del = -del;
                    }
                    let s = if rng.chance(1, 6) { String::new() } else { small_str(rng) };
                    Some(Cmd::SpliceText(obj, pos, del, s))
                }
            }
        }
    }
}

/// the labelled invalid stream
fn gen_invalid<D: ReadDoc>(doc: &D, rng: &mut Rng, objs: &[(ObjId, ObjType)], foreign: &ObjId, own_actor: &ActorId) -> Option<(Cmd, &'static str)> {
    let maps: Vec<_> = objs.iter().filter(|o| !o.1.is_sequence()).cloned().collect();
    let lists: Vec<_> = objs.iter().filter(|o| o.1 == ObjType::List).cloned().collect();
    let texts: Vec<_> = objs.iter().filter(|o| o.1 == ObjType::Text).cloned().collect();
    let seqs: Vec<_> = objs.iter().filter(|o| o.1.is_sequence()).cloned().collect();
    let v = ScalarValue::Int(rng.below(5) as i64);
    match rng.below(9) {
        0 => {
            // an id nothing ever created
            let id = ObjId::Id(9_000 + rng.below(100), own_actor.clone(), 0);
            let c = match rng.below(5) {
                0 => Cmd::Put(id, P::Map("a".into()), v),
                1 => Cmd::Insert(id, 0, v),
                2 => Cmd::Delete(id, P::Map("a".into())),
                3 => Cmd::SpliceText(id, 0, 0, "x".into()),
                _ => Cmd::PutObj(id, P::Map("a".into()), ObjType::Map),
            };
            Some((c, "unknown-object"))
        }
        1 => {
            let c = match rng.below(4) {
                0 => Cmd::Put(foreign.clone(), P::Map("a".into()), v),
                1 => Cmd::Inc(foreign.clone(), P::Map("a".into()), 1),
                2 => Cmd::InsertObj(foreign.clone(), 0, ObjType::List),
                _ => Cmd::Splice(foreign.clone(), 0, 0, vec![v]),
            };
            Some((c, "foreign-object"))
        }
        2 | 3 => {
            // wrong key kind
            if !seqs.is_empty() && rng.chance(1, 2) {
                let (o, ty) = rng.pick(&seqs).clone();
                let k = P::Map(rng.pick(&gen::KEYS).to_string());
                let c = match rng.below(5) {
                    0 => Cmd::Put(o, k, v),
                    1 => Cmd::PutObj(o, k, ObjType::Map),
                    2 => Cmd::Delete(o, k),
                    3 => Cmd::Inc(o, k, 2),
                    _ => {
                        if ty == ObjType::Text {
                            Cmd::PutObj(o, P::Seq(0), ObjType::Map) // objects cannot be put into a text
                        } else {
                            Cmd::SpliceText(o, 0, 0, "x".into()) // splice_text on a list
                        }
                    }
                };
                Some((c, "wrong-key-kind"))
            } else if !maps.is_empty() {
                let (o, _) = rng.pick(&maps).clone();
                let c = match rng.below(7) {
                    0 => Cmd::Put(o, P::Seq(0), v),
                    1 => Cmd::PutObj(o, P::Seq(0), ObjType::List),
                    2 => Cmd::Insert(o, 0, v),
                    3 => Cmd::InsertObj(o, 0, ObjType::Text),
                    4 => Cmd::Delete(o, P::Seq(0)),
                    5 => Cmd::Inc(o, P::Seq(0), 1),
                    _ => Cmd::Splice(o, 0, 0, vec![v]),
                };
                Some((c, "wrong-key-kind"))
            } else {
                None
            }
        }
        4 | 5 => {
            // index beyond the end
            if seqs.is_empty() {
                return None;
            }
            let (o, ty) = rng.pick(&seqs).clone();
            let len = doc.length(&o);
            let far = len + 1 + rng.below(3) as usize;
            let c = match rng.below(6) {
                0 => Cmd::Insert(o, far, if ty == ObjType::Text { ScalarValue::Str("x".into()) } else { v }),
                1 => Cmd::Put(o, P::Seq(far - 1), if ty == ObjType::Text { ScalarValue::Str("x".into()) } else { v }),
                2 => Cmd::Delete(o, P::Seq(far - 1)),
                3 => Cmd::InsertObj(o, far, ObjType::Map),
                4 => {
                    if ty == ObjType::Text {
                        Cmd::SpliceText(o, far, 0, "zz".into())
                    } else {
                        Cmd::Splice(o, far, 0, vec![v])
                    }
                }
                _ => {
                    // negative deletion reaching before the start
                    if ty == ObjType::Text {
                        Cmd::SpliceText(o, 0, -1, "q".into())
                    } else {
                        Cmd::Splice(o, 0, -2, vec![v])
                    }
                }
            };
            Some((c, "index-out-of-range"))
        }
        6 | 7 => {
            // increment of something that is not a counter
            if !lists.is_empty() && rng.chance(1, 2) {
                let (o, _) = rng.pick(&lists).clone();
                let len = doc.length(&o);
                for i in 0..len {
                    if !has_counter(doc, &o, &P::Seq(i)) {
                        return Some((Cmd::Inc(o, P::Seq(i), 3), "increment-non-counter"));
                    }
                }
                None
            } else if !texts.is_empty() && rng.chance(1, 3) {
                let (o, _) = rng.pick(&texts).clone();
                let len = doc.length(&o);
                if len == 0 {
                    return None;
                }
                let i = rng.below(len as u64) as usize;
                if has_counter(doc, &o, &P::Seq(i)) {
                    return None;
                }
                Some((Cmd::Inc(o, P::Seq(i), 1), "increment-non-counter"))
            } else if !maps.is_empty() {
                let (o, _) = rng.pick(&maps).clone();
                let k = rng.pick(&gen::KEYS).to_string();
                if has_counter(doc, &o, &P::Map(k.clone())) {
                    return None;
                }
                Some((Cmd::Inc(o, P::Map(k), -2), "increment-non-counter"))
            } else {
                None
            }
        }
        _ => {
            // put on a list index that no longer exists: exactly one past the end
            if lists.is_empty() {
                return None;
            }
            let (o, _) = rng.pick(&lists).clone();
            let len = doc.length(&o);
            Some((Cmd::Put(o, P::Seq(len), v), "put-deleted-index"))
        }
    }
}

// ------------------------------------------------------------------ one transaction
struct CallRec {
    cmd: Cmd,
    label: &'static str,
    status: u8,
    pending: usize,
    obs: Option<String>,
}

struct SegOut {
    calls: Vec<CallRec>,
    aborted: bool,
}

struct Ctx<'a> {
    enc: TextEncoding,
    cfg: Cfg,
    foreign: &'a ObjId,
    actor: ActorId,
    log: &'a mut Vec<String>,
    prog: usize,
}

/// run `n` generated calls on an open transaction, checking (c) and (d) directly
type Reload<'a, T> = &'a dyn Fn(&T, &[(ObjId, ObjType)]) -> Option<Result<Vec<(ObjId, String)>, String>>;

fn run_calls<T: Transactable>(t: &mut T, rng: &mut Rng, rep: &mut Report, ctx: &mut Ctx<'_>, cands: &mut Vec<(ObjId, ObjType)>, n: usize, start_op: u64, reload: Reload<'_, T>) -> SegOut {
    let mut out = SegOut { calls: vec![], aborted: false };
    let mut before = match observe_all(t, cands, ctx.enc) {
        Ok(o) => o,
        Err(e) => {
            rep.fail(&["C03", "C24"], "edit|read-failed", &e, json!({"program": ctx.prog, "log": ctx.log.clone()}));
            out.aborted = true;
            return out;
        }
    };
    for _ in 0..n {
        let reach = gen::reachable(t);
        // now and then an object that exists but is no longer reachable (deleted / overwritten): still editable
        let objs: Vec<(ObjId, ObjType)> = if rng.chance(1, 10) && cands.len() > 1 { cands.clone() } else { reach };
        let (cmd, label) = if rng.chance(1, 5) {
            match gen_invalid(t, rng, &objs, ctx.foreign, &ctx.actor) {
                Some(x) => x,
                None => continue,
            }
        } else {
            match gen_valid(t, rng, &objs, ctx.cfg) {
                Some(c) => (c, "valid"),
                None => continue,
            }
        };
        ctx.log.push(format!("{:?}", cmd));
        // how conflicted is the register this call touches (evidence: the mixed counter / non-counter conflicts)
        {
            let prop = match &cmd {
                Cmd::Put(_, p, _) | Cmd::PutObj(_, p, _) | Cmd::Delete(_, p) | Cmd::Inc(_, p, _) => Some(p.clone()),
                _ => None,
            };
            if let Some(p) = prop {
                if let Ok(vs) = t.get_all(cmd.obj(), prop_of(&p)) {
                    let nc = vs.iter().filter(|(v, _)| matches!(v, Value::Scalar(s) if matches!(s.as_ref(), ScalarValue::Counter(_)))).count();
                    if vs.len() >= 2 {
                        rep.count(&format!("conflicted_register:{}", cmd.kind()));
                    }
                    if vs.len() >= 3 && nc >= 1 && nc < vs.len() {
                        rep.count(&format!("mixed_3way_conflict:{}", cmd.kind()));
                        if nc >= 2 {
                            rep.count(&format!("mixed_3way_conflict_2counters:{}", cmd.kind()));
                        }
                    }
                }
            }
        }
        let heads_before = t.base_heads();
        let pending_before = t.pending_ops();
        let r = guard(|| exec(t, &cmd));
        let r = match r {
            Ok(r) => r,
            Err(p) => {
                rep.count("call_panics");
                rep.fail(&["C03"], &format!("panic|edit|{}|{}", cmd.kind(), p.signature()),
                    &format!("{} panicked: {} at {}", cmd.kind(), p.message, p.location),
                    json!({"program": ctx.prog, "log": ctx.log.clone()}));
                out.aborted = true;
                return out;
            }
        };
        let status = match &r {
            Ok(_) => 0,
            Err(e) => err_class(e),
        };
        rep.count(&format!("call:{}:{}", cmd.kind(), if status == 0 { "ok" } else { "err" }));
        rep.count(&format!("label:{}", label));
        if status == 9 {
            rep.fail(&["C03"], &format!("edit|unexpected-error|{}", cmd.kind()), &format!("unexpected error class: {:?}", r.as_ref().err()),
                json!({"program": ctx.prog, "log": ctx.log.clone()}));
        }
        // a created object: its id is (start_op + pending ops before the call, this actor)
        if let Ok(Some(id)) = &r {
            let ty = match &cmd {
                Cmd::PutObj(_, _, t) | Cmd::InsertObj(_, _, t) => *t,
                _ => ObjType::Map,
            };
            let want = (start_op + pending_before as u64, ctx.actor.to_bytes().to_vec());
            if exid_key(id) != want && !matches!(cmd, Cmd::SplitBlock(..)) {
                rep.fail(&["C03"], &format!("edit|created-id|{}", cmd.kind()), &format!("created object id {:?}, expected counter {}", id, want.0),
                    json!({"program": ctx.prog, "log": ctx.log.clone()}));
            }
            cands.push((id.clone(), ty));
        }
        // C24 / C03: after any successful call the length of every text equals the width of its string
        if status == 0 {
            let mut bad: Option<String> = None;
            for (id, _) in cands.iter() {
                if let Ok(ObjType::Text) = t.object_type(id) {
                    let len = t.length(id);
                    let txt = t.text(id).unwrap_or_default();
                    let w = enc_width(ctx.enc, &txt);
                    if len != w {
                        bad = Some(format!("after {} on {:?}: text {:?} has length {} but text() = {:?} has width {} ({})", cmd.kind(), cmd.obj(), id, len, txt, w, enc_name(ctx.enc)));
                        break;
                    }
                }
            }
            if let Some(what) = bad {
                rep.count("length_vs_text_mismatch");
                if ctx.enc == TextEncoding::GraphemeCluster {
                    rep.fail(&["C24"], "edit|grapheme-length", &what, json!({"program": ctx.prog, "log": ctx.log.clone()}));
                } else {
                    rep.fail(&["C03", "C24"], &format!("edit|length-vs-text|{}", cmd.kind()), &what, json!({"program": ctx.prog, "log": ctx.log.clone()}));
                }
                out.aborted = true;
                return out;
            }
        }
        let after = match observe_all(t, cands, ctx.enc) {
            Ok(o) => o,
            Err(e) => {
                rep.fail(&["C03", "C24"], &format!("edit|read-failed-after|{}", cmd.kind()), &e, json!({"program": ctx.prog, "log": ctx.log.clone()}));
                out.aborted = true;
                return out;
            }
        };
        let pending_after = t.pending_ops();
        if status != 0 {
            // (c) a failed call changes nothing
            if after != before || t.base_heads() != heads_before || pending_after != pending_before {
                rep.fail(&["C03", "C06"], &format!("edit|failed-call-changed-state|{}|{}", cmd.kind(), label),
                    "a call that returned an error changed the observation, the heads or the pending op count",
                    json!({"program": ctx.prog, "log": ctx.log.clone()}));
            }
        } else {
            // an invalid call that is accepted
            if label != "valid" {
                let ty = t.object_type(cmd.obj()).map(|t| format!("{:?}", t)).unwrap_or_else(|_| "none".into());
                rep.count("invalid_accepted");
                rep.fail(&["C03"], &format!("edit|invalid-accepted|{}|{}|{}", cmd.kind(), label, ty),
                    &format!("{} with an argument from the invalid stream ({}) returned Ok on a {} (ops added: {})", cmd.kind(), label, ty, pending_after - pending_before),
                    json!({"program": ctx.prog, "call": format!("{:?}", cmd), "log": ctx.log.clone()}));
            }
            // (d) frame: every other object is unchanged
            for (id, s) in &before {
                if id == cmd.obj() {
                    continue;
                }
                match after.iter().find(|x| &x.0 == id) {
                    Some((_, s2)) if s2 == s => {}
                    _ => {
                        rep.fail(&["C03"], &format!("edit|frame|{}", cmd.kind()), &format!("{} on {:?} changed object {:?}", cmd.kind(), cmd.obj(), id),
                            json!({"program": ctx.prog, "log": ctx.log.clone()}));
                        break;
                    }
                }
            }
            if t.base_heads() != heads_before {
                rep.fail(&["C03"], "edit|heads-moved-in-transaction", "an editing call moved the transaction's base heads", json!({"program": ctx.prog, "log": ctx.log.clone()}));
            }
        }
        // every register of every object, read from a saved and reloaded copy of the document as it is now
        match guard(|| reload(t, cands)) {
            Ok(None) => {}
            Ok(Some(Ok(o))) => {
                rep.count("reload_compared");
                if o != after {
                    rep.fail(&["C03", "C11"], &format!("edit|reload-differs|{}", cmd.kind()),
                        &format!("after {} the document and its saved-and-reloaded copy show different registers", cmd.kind()),
                        json!({"program": ctx.prog, "log": ctx.log.clone()}));
                    out.aborted = true;
                    return out;
                }
            }
            Ok(Some(Err(e))) => {
                rep.fail(&["C03", "C11"], &format!("edit|reload-failed|{}", cmd.kind()), &e, json!({"program": ctx.prog, "log": ctx.log.clone()}));
                out.aborted = true;
                return out;
            }
            Err(p) => {
                rep.fail(&["C03", "C11"], &format!("panic|edit|reload|{}", p.signature()), &format!("save / load of the edited document panicked: {} at {}", p.message, p.location),
                    json!({"program": ctx.prog, "log": ctx.log.clone()}));
                out.aborted = true;
                return out;
            }
        }
        out.calls.push(CallRec { cmd, label, status, pending: pending_after, obs: Some(obs_coq(&after)) });
        before = after;
    }
    out
}

fn enc_name(e: TextEncoding) -> &'static str {
    match e {
        TextEncoding::UnicodeCodePoint => "codepoint",
        TextEncoding::Utf8CodeUnit => "utf8",
        TextEncoding::Utf16CodeUnit => "utf16",
        TextEncoding::GraphemeCluster => "grapheme",
    }
}

enum Rep2 {
    Auto(AutoCommit),
    Manual(Automerge),
}
impl Rep2 {
    fn changes(&mut self) -> Vec<Change> {
        match self {
            Rep2::Auto(d) => d.get_changes(&[]),
            Rep2::Manual(d) => d.get_changes(&[]),
        }
    }
    fn actor(&self) -> ActorId {
        match self {
            Rep2::Auto(d) => d.get_actor().clone(),
            Rep2::Manual(d) => d.get_actor().clone(),
        }
    }
    fn max_op(&mut self) -> u64 {
        self.changes().iter().map(|c| c.max_op()).max().unwrap_or(0)
    }
}

fn merge_into(reps: &mut [Rep2], a: usize, b: usize) -> bool {
    if a == b {
        return false;
    }
    let (x, y) = if a < b {
        let (l, r) = reps.split_at_mut(b);
        (&mut l[a], &mut r[0])
    } else {
        let (l, r) = reps.split_at_mut(a);
        (&mut r[0], &mut l[b])
    };
    match (x, y) {
        (Rep2::Auto(p), Rep2::Auto(q)) => p.merge(q).is_ok(),
        (Rep2::Manual(p), Rep2::Manual(q)) => p.merge(q).is_ok(),
        _ => false,
    }
}

/// one program; returns (shared definitions, cases)
fn reload_obs(bytes: &[u8], enc: TextEncoding, cands: &[(ObjId, ObjType)]) -> Result<Vec<(ObjId, String)>, String> {
    match Automerge::load_with_options(bytes, automerge::LoadOptions::default().text_encoding(enc)) {
        Ok(l) => observe_all(&l, cands, enc),
        Err(e) => Err(format!("load(save(doc)) failed: {}", e)),
    }
}

fn program(rng: &mut Rng, rep: &mut Report, pi: usize, enc: TextEncoding, manual: bool, direct_only: bool, focus: bool, thorough: bool) -> (Vec<String>, Vec<(String, serde_json::Value)>) {
    let nrep = if focus { if rng.chance(2, 3) { 3 } else { 2 } } else { rng.range(1, 3) as usize };
    let mut log: Vec<String> = vec![format!("encoding {} manual {} replicas {} focus {}", enc_name(enc), manual, nrep, focus)];
    let mut reps: Vec<Rep2> = vec![];
    for i in 0..nrep {
        let a = gen::actor(rng, i);
        if i == 0 {
            // what every replica starts from (committed before the forks, so that concurrent edits meet on the same
            // registers): a list, a text, a nested map and a few keys; conflict-focused programs get counters there
            let mut d = AutoCommit::new_with_encoding(enc).with_actor(a);
            let l = d.put_object(ROOT, "l", ObjType::List).unwrap();
            for k in 0..rng.range(2, 3) {
                let v = if focus { small_value(rng) } else { gen::scalar(rng) };
                d.insert(&l, k as usize, v).unwrap();
            }
            d.put(ROOT, "a", if focus { small_value(rng) } else { gen::scalar(rng) }).unwrap();
            if !focus {
                let t = d.put_object(ROOT, "t", ObjType::Text).unwrap();
                let s0: &str = *rng.pick(&gen::STRS);
                d.splice_text(&t, 0, 0, s0).unwrap();
                let m = d.put_object(ROOT, "m", ObjType::Map).unwrap();
                d.put(&m, "k1", ScalarValue::counter(rng.below(5) as i64)).unwrap();
            }
            d.commit();
            log.push("setup: list l, key a (text t, map m)".to_string());
            reps.push(if manual { Rep2::Manual(d.document().clone()) } else { Rep2::Auto(d) });
        } else {
            let f = match &mut reps[0] {
                Rep2::Auto(d) => Rep2::Auto(d.fork().with_actor(a)),
                Rep2::Manual(d) => Rep2::Manual(d.fork().with_actor(a)),
            };
            reps.push(f);
        }
    }
    // an object id from a document this one never saw
    let foreign = {
        let mut o = AutoCommit::new().with_actor(ActorId::from(vec![0xEE, 0xEE, pi as u8]));
        for _ in 0..3 {
            let _ = o.put(ROOT, "x", 1);
        }
        o.put_object(ROOT, "m", ObjType::Map).unwrap()
    };
    // conflict-focused programs run in rounds: every replica writes the shared registers (no merges), then two
    // transactions that merge everybody and work on the conflicted registers
    let period = nrep + 2;
    let nseg: usize = if focus {
        period * (if thorough { rng.range(3, 4) } else { rng.range(2, 3) } as usize)
    } else if thorough {
        rng.range(3, 9) as usize
    } else {
        rng.range(3, 6) as usize
    };
    let mut defs: Vec<String> = vec![];
    let mut def_names: std::collections::HashMap<Vec<u8>, String> = std::collections::HashMap::new();
    let mut cases: Vec<(String, serde_json::Value)> = vec![];
    let mut cfg = Cfg { marks: direct_only, focus, diverge: false };
    let mut total_calls = 0usize;
    let mut conflicts_seen = false;
    for si in 0..nseg {
        // conflict-focused programs: the replicas take turns, so that every one of them writes the shared registers
        // before somebody merges
        let phase = si % period;
        let r = if focus && phase < nrep { phase } else { rng.below(nrep as u64) as usize };
        cfg.diverge = focus && phase < nrep;
        for o in 0..nrep {
            let p = if focus { if phase < nrep { 0 } else { 3 } } else { 1 };
            if o != r && rng.chance(p, 3) && merge_into(&mut reps, r, o) {
                log.push(format!("r{} merge r{}", r, o));
                conflicts_seen = true;
            }
        }
        let base = reps[r].changes();
        let actor = reps[r].actor();
        let start_op = reps[r].max_op() + 1;
        let mut cands = object_ids(&base);
        let ncalls = if focus { rng.range(2, 5) } else if thorough { rng.range(2, 14) } else { rng.range(2, 9) } as usize;
        log.push(format!("r{} transaction {}", r, si));
        let mut ctx = Ctx { enc, cfg, foreign: &foreign, actor: actor.clone(), log: &mut log, prog: pi };
        let (seg, hash) = match &mut reps[r] {
            Rep2::Auto(d) => {
                let reload = |d: &AutoCommit, cands: &[(ObjId, ObjType)]| {
                    let mut c = d.clone();
                    Some(reload_obs(&c.save(), enc, cands))
                };
                let seg = run_calls(d, rng, rep, &mut ctx, &mut cands, ncalls, start_op, &reload);
                if seg.aborted {
                    return (defs, cases);
                }
                (seg, d.commit())
            }
            Rep2::Manual(d) => {
                let mut tx = d.transaction();
                let seg = run_calls(&mut tx, rng, rep, &mut ctx, &mut cands, ncalls, start_op, &|_, _| None);
                if seg.aborted {
                    tx.rollback();
                    return (defs, cases);
                }
                let (h, _) = tx.commit();
                (seg, h)
            }
        };
        total_calls += seg.calls.len();
        rep.add("calls", seg.calls.len() as u64);
        rep.count("transactions");
        // the committed change
        let committed: Option<Change> = match (&mut reps[r], hash) {
            (Rep2::Auto(d), Some(h)) => d.get_change_by_hash(&h),
            (Rep2::Manual(d), Some(h)) => d.get_change_by_hash(&h),
            _ => None,
        };
        let last_pending = seg.calls.last().map(|c| c.pending).unwrap_or(0);
        match &committed {
            Some(c) => {
                let e = c.decode();
                if e.start_op.get() != start_op || e.actor_id != actor || c.len() != last_pending {
                    rep.fail(&["C03", "C04"], "edit|change-meta", &format!("committed change: start_op {} (expected {}), {} ops (pending was {})", e.start_op.get(), start_op, c.len(), last_pending),
                        json!({"program": pi, "log": log.clone()}));
                }
            }
            None => {
                if last_pending != 0 {
                    rep.fail(&["C03"], "edit|commit-lost-ops", "commit returned no change although ops were pending", json!({"program": pi, "log": log.clone()}));
                }
            }
        }
        // after commit: the observation is the one the open transaction showed last
        let after_commit = match &reps[r] {
            Rep2::Auto(d) => observe_all(d, &cands, enc),
            Rep2::Manual(d) => observe_all(d, &cands, enc),
        };
        let after_commit = match after_commit {
            Ok(o) => obs_coq(&o),
            Err(e) => {
                rep.fail(&["C03", "C24"], "edit|read-failed-after-commit", &e, json!({"program": pi, "log": log.clone()}));
                return (defs, cases);
            }
        };
        {
            let bytes = match &mut reps[r] {
                Rep2::Auto(d) => d.save(),
                Rep2::Manual(d) => d.save(),
            };
            match guard(|| reload_obs(&bytes, enc, &cands)) {
                Ok(Ok(o)) => {
                    if obs_coq(&o) != after_commit {
                        rep.fail(&["C03", "C11"], "edit|reload-differs|commit", "after commit the document and its saved-and-reloaded copy show different registers", json!({"program": pi, "log": log.clone()}));
                        return (defs, cases);
                    }
                }
                Ok(Err(e)) => {
                    rep.fail(&["C03", "C11"], "edit|reload-failed|commit", &e, json!({"program": pi, "log": log.clone()}));
                    return (defs, cases);
                }
                Err(p) => {
                    rep.fail(&["C03", "C11"], &format!("panic|edit|reload|{}", p.signature()), &format!("save / load after commit panicked: {}", p.message), json!({"program": pi, "log": log.clone()}));
                    return (defs, cases);
                }
            }
        }
        if let Some(last) = seg.calls.last() {
            if last.obs.as_deref() != Some(after_commit.as_str()) {
                rep.fail(&["C03"], "edit|commit-changed-observation", "the document after commit differs from what the open transaction showed after its last call",
                    json!({"program": pi, "log": log.clone()}));
            }
        }
        if direct_only || seg.calls.iter().any(|c| !c.cmd.modelled()) {
            continue;
        }
        // model case
        let mut ch_names = vec![];
        for c in &base {
            let key = c.hash().0.to_vec();
            let name = match def_names.get(&key) {
                Some(n) => n.clone(),
                None => {
                    let n = format!("ch{}", def_names.len());
                    defs.push(format!("Definition {} : change := {}.", n, coq_change_small(c, def_names.len())));
                    def_names.insert(key, n.clone());
                    n
                }
            };
            ch_names.push(name);
        }
        let calls_coq: Vec<String> = seg
            .calls
            .iter()
            .map(|c| format!("({},{},{},{})", c.cmd.coq(), c.status, c.pending, coq_opt(c.obs.clone())))
            .collect();
        let committed_coq = committed.as_ref().map(coq_ops_of).unwrap_or_else(|| "[]".to_string());
        let term = format!(
            "chk_edit {} {} {} {} {} {}",
            coq_enc(enc),
            coq_list(&ch_names),
            coq_actor(&actor),
            coq_list(&calls_coq),
            committed_coq,
            after_commit
        );
        cases.push((term, json!({"kind": "transaction", "props": ["C03", "C24"], "program": pi, "segment": si, "log": log.clone()})));
    }
    let key = fnv(format!("{:?}", log).as_bytes());
    let nontrivial = total_calls >= 5;
    rep.case(if nontrivial { Some(key) } else { None });
    if conflicts_seen {
        rep.count("programs_with_merge");
    }
    if pi < 2 {
        rep.sample(json!({"program": pi, "log": log.iter().take(30).collect::<Vec<_>>()}));
    }
    (defs, cases)
}

// ------------------------------------------------------------------ C24: text indexes per encoding
fn char_widths(enc: TextEncoding, s: &str) -> Vec<(char, usize)> {
    s.chars().map(|c| (c, enc_width(enc, &c.to_string()))).collect()
}

/// reference splice on a string whose elements are single characters: the insert position rounds up to the
/// end of the character containing unit index-1; the deletion starts at index + inserted width, skips to the next
/// character when it starts inside one, and removes whole characters until `del` units are gone or the text ends
fn ref_splice(enc: TextEncoding, s: &str, index: usize, del: isize, ins: &str) -> Option<String> {
    let (mut index, del) = if del < 0 {
        let d = (-del) as usize;
        if d > index {
            return None;
        }
        (index - d, d)
    } else {
        (index, del as usize)
    };
    let mut chars: Vec<(char, usize)> = char_widths(enc, s);
    let total: usize = chars.iter().map(|c| c.1).sum();
    let mut inserted = 0usize;
    if !ins.is_empty() {
        if index > total {
            return None;
        }
        // position in chars after which to insert
        let mut acc = 0usize;
        let mut k = 0usize;
        if index > 0 {
            for (i, c) in chars.iter().enumerate() {
                if index - 1 < acc + c.1 {
                    k = i + 1;
                    acc += c.1;
                    break;
                }
                acc += c.1;
            }
            index = acc;
        }
        let new: Vec<(char, usize)> = char_widths(enc, ins);
        inserted = new.iter().map(|c| c.1).sum();
        let tail = chars.split_off(k);
        chars.extend(new);
        chars.extend(tail);
    }
    let mut di = index + inserted;
    let mut deleted = 0usize;
    while deleted < del {
        // element containing unit di
        let mut acc = 0usize;
        let mut found = None;
        for (i, c) in chars.iter().enumerate() {
            if c.1 > 0 && di < acc + c.1 {
                found = Some((i, acc, c.1));
                break;
            }
            acc += c.1;
        }
        match found {
            None => break,
            Some((i, start, w)) => {
                if start < di {
                    di = start + w;
                    continue;
                }
                chars.remove(i);
                deleted += w;
            }
        }
    }
    Some(chars.iter().map(|c| c.0).collect())
}

fn text_program(rng: &mut Rng, rep: &mut Report, enc: TextEncoding, steps: usize, ti: usize) {
    let mut doc = AutoCommit::new_with_encoding(enc);
    let t = doc.put_object(ROOT, "t", ObjType::Text).unwrap();
    let mut reference = String::new();
    let mut log: Vec<String> = vec![format!("encoding {}", enc_name(enc))];
    let grapheme = enc == TextEncoding::GraphemeCluster;
    let mut mark_no = 0usize;
    for _ in 0..steps {
        let len = doc.length(&t);
        let text = doc.text(&t).unwrap_or_default();
        // ---- invariants of the current state
        let w = enc_width(enc, &text);
        if len != w {
            let sig = if grapheme { "edit|grapheme-length" } else { "edit|text-length" };
            rep.fail(&["C24"], sig, &format!("length {} but text {:?} has width {} in {}", len, text, w, enc_name(enc)), json!({"text_program": ti, "log": log.clone()}));
            rep.count("c24_length_mismatch");
            return;
        }
        if !grapheme && text != reference {
            rep.fail(&["C24", "C03"], &format!("edit|text-splice|{}", enc_name(enc)), &format!("text {:?}, string splice at the character boundary gives {:?}", text, reference),
                json!({"text_program": ti, "log": log.clone()}));
            return;
        }
        // spans concatenate to the text
        match doc.spans(&t) {
            Ok(spans) => {
                let mut cat = String::new();
                for s in spans {
                    if let automerge::iter::Span::Text { text, .. } = s {
                        cat.push_str(&text);
                    }
                }
                if cat != text {
                    rep.fail(&["C24"], &format!("edit|spans-concat|{}", enc_name(enc)), &format!("concat(spans) = {:?}, text = {:?}", cat, text), json!({"text_program": ti, "log": log.clone()}));
                    return;
                }
            }
            Err(e) => rep.fail(&["C24"], "edit|spans-failed", &format!("{}", e), json!({"text_program": ti, "log": log.clone()})),
        }
        if !grapheme {
            // get(i) and cursors are in the same unit: unit i belongs to the character covering it
            let cw = char_widths(enc, &text);
            let mut start = 0usize;
            for (c, wd) in cw.iter() {
                for u in start..start + wd {
                    let got = doc.get(&t, u).ok().flatten().map(|(v, _)| v.into_owned());
                    let want = Value::Scalar(std::borrow::Cow::Owned(ScalarValue::Str(c.to_string().into())));
                    if got.as_ref() != Some(&want) {
                        rep.fail(&["C24"], &format!("edit|get-index|{}", enc_name(enc)), &format!("get(text,{}) = {:?}, the character there is {:?}", u, got, c), json!({"text_program": ti, "log": log.clone()}));
                        return;
                    }
                    match doc.get_cursor(&t, u, None).and_then(|cur| doc.get_cursor_position(&t, &cur, None)) {
                        Ok(p) if p == start => {}
                        other => {
                            rep.fail(&["C24", "C26"], &format!("edit|cursor-index|{}", enc_name(enc)), &format!("cursor taken at {} resolves to {:?}, the character starts at {}", u, other, start), json!({"text_program": ti, "log": log.clone()}));
                            return;
                        }
                    }
                }
                start += wd;
            }
            rep.add("c24_index_reads", start as u64);
        }
        rep.count("c24_states");
        // ---- next edit
        let pos = rng.below(len as u64 + 1) as usize;
        if !grapheme && len > 1 && rng.chance(1, 6) {
            // a mark on character boundaries comes back with the same indexes
            let cw = char_widths(enc, &text);
            let mut bounds = vec![0usize];
            for c in &cw {
                bounds.push(bounds.last().unwrap() + c.1);
            }
            let a = rng.below(bounds.len() as u64 - 1) as usize;
            let b = a + 1 + rng.below((bounds.len() - 1 - a) as u64) as usize;
            let name = format!("m{}", mark_no);
            mark_no += 1;
            log.push(format!("mark {} {}..{}", name, bounds[a], bounds[b]));
            if doc.mark(&t, Mark::new(name.clone(), true, bounds[a], bounds[b]), ExpandMark::None).is_ok() {
                let ms = doc.marks(&t).unwrap_or_default();
                match ms.iter().find(|m| m.name() == name) {
                    Some(m) if m.start == bounds[a] && m.end == bounds[b] => rep.count("c24_marks"),
                    other => {
                        rep.fail(&["C24", "C25"], &format!("edit|mark-index|{}", enc_name(enc)), &format!("mark {}..{} reads back as {:?}", bounds[a], bounds[b], other.map(|m| (m.start, m.end))), json!({"text_program": ti, "log": log.clone()}));
                        return;
                    }
                }
            }
            continue;
        }
        let maxdel = (len - pos).min(4) as u64;
        let mut del = if rng.chance(1, 2) { rng.below(maxdel + 1) as isize } else { 0 };
        let mut pos = pos;
        if del > 0 && rng.chance(1, 5) {
            pos = (pos + del as usize).min(len);
            del = -del;
        }
        let ins = if rng.chance(1, 6) { String::new() } else { rng.pick(&gen::STRS).to_string() };
        log.push(format!("splice_text {} {} {:?}", pos, del, ins));
        let r = guard(|| doc.splice_text(&t, pos, del, &ins));
        let want = if grapheme { None } else { ref_splice(enc, &reference, pos, del, &ins) };
        match r {
            Err(p) => {
                rep.fail(&["C03", "C24"], &format!("panic|edit|splice_text|{}", p.signature()), &format!("splice_text panicked: {}", p.message), json!({"text_program": ti, "log": log.clone()}));
                return;
            }
            Ok(Ok(())) => {
                if !grapheme {
                    match want {
                        Some(s) => reference = s,
                        None => {
                            rep.fail(&["C24", "C03"], &format!("edit|text-splice-accepted|{}", enc_name(enc)), "splice_text outside the text was accepted", json!({"text_program": ti, "log": log.clone()}));
                            return;
                        }
                    }
                }
            }
            Ok(Err(_)) => {
                if !grapheme && want.is_some() {
                    rep.fail(&["C24", "C03"], &format!("edit|text-splice-rejected|{}", enc_name(enc)), "splice_text inside the text was rejected", json!({"text_program": ti, "log": log.clone()}));
                    return;
                }
            }
        }
    }
    rep.case(Some(fnv(format!("{:?}", log).as_bytes())));
}

// ------------------------------------------------------------------ fixed probes (known defects)
fn probes(rep: &mut Report) {
    // D8: grapheme clusters — "e" then a combining accent appended
    let r = guard(|| {
        let mut d = AutoCommit::new_with_encoding(TextEncoding::GraphemeCluster);
        let t = d.put_object(ROOT, "t", ObjType::Text).unwrap();
        d.splice_text(&t, 0, 0, "e").unwrap();
        d.splice_text(&t, 1, 0, "\u{301}").unwrap();
        (d.length(&t), d.text(&t).unwrap())
    });
    if let Ok((len, text)) = r {
        let w = enc_width(TextEncoding::GraphemeCluster, &text);
        if len != w {
            rep.fail(&["C24"], "edit|grapheme-length", &format!("GraphemeCluster: splice_text(0,0,\"e\"); splice_text(1,0,\"\\u{{301}}\") gives length {} while text {:?} has width {}", len, text, w),
                json!({"probe": "grapheme e + U+0301"}));
        }
    }
    rep.count("probe:grapheme");
    // a counter inside a text element, incremented
    let r = guard(|| {
        let mut d = AutoCommit::new();
        let t = d.put_object(ROOT, "t", ObjType::Text).unwrap();
        d.splice_text(&t, 0, 0, "abc").unwrap();
        d.put(&t, 1, ScalarValue::counter(1)).unwrap();
        d.increment(&t, 1, 2).unwrap();
        let second = d.increment(&t, 1, 2).is_ok();
        let v = d.get(&t, 1).map(|x| x.map(|(v, _)| format!("{:?}", v)));
        (second, format!("{:?}", v))
    });
    match r {
        Ok((true, v)) if v.contains("7") || v.contains("5") => {}
        Ok((second, v)) => rep.fail(&["C03"], "edit|text-counter-increment", &format!("counter put into a text element and incremented: second increment ok = {}, get = {}", second, v), json!({"probe": "text counter"})),
        Err(p) => rep.fail(&["C03"], "edit|text-counter-increment", &format!("text \"abc\"; put(t,1,counter(1)); increment(t,1,2); increment(t,1,2); get(t,1) panics: {} at {}", p.message, p.location), json!({"probe": "text counter"})),
    }
    rep.count("probe:text-counter");
    // a text element holding [counter (lower id), string (higher id)] from two replicas, incremented
    let r = guard(|| {
        let mut base = AutoCommit::new().with_actor(ActorId::from(vec![5u8]));
        let t = base.put_object(ROOT, "t", ObjType::Text).unwrap();
        base.splice_text(&t, 0, 0, "xz").unwrap();
        base.commit();
        let mut r0 = base.fork().with_actor(ActorId::from(vec![9u8]));
        let mut r1 = base.fork().with_actor(ActorId::from(vec![1u8]));
        r0.put(&t, 0, "y").unwrap();
        r0.commit();
        r1.put(&t, 0, ScalarValue::counter(1)).unwrap();
        r1.commit();
        r0.merge(&mut r1).unwrap();
        r0.increment(&t, 0, 2).unwrap();
        (r0.length(&t), r0.text(&t).unwrap())
    });
    match r {
        Ok((len, text)) => {
            if len != text.chars().count() {
                rep.fail(&["C03", "C24"], "edit|length-vs-text|increment",
                    &format!("text \"xz\"; replica 09: put(t,0,\"y\"); replica 01: put(t,0,counter(1)); merge; increment(t,0,2): length {} but text() = {:?} (the incremented counter is not indexed until the document is reloaded)", len, text),
                    json!({"probe": "text conflict increment"}));
            }
        }
        Err(p) => rep.fail(&["C03"], &format!("panic|edit|increment|{}", p.signature()), &p.message, json!({"probe": "text conflict increment"})),
    }
    rep.count("probe:text-conflict-increment");
}

pub fn run(rng: &mut Rng, tier: &str, out: &str) -> Report {
    let mut rep = Report::new("edit");
    let mut cw = CaseWriter::new(out, "edit", HEADER, 1);
    let thorough = tier == "thorough";
    probes(&mut rep);
    let n_prog = if thorough { 300 } else { 48 };
    let encs = [TextEncoding::UnicodeCodePoint, TextEncoding::Utf8CodeUnit, TextEncoding::Utf16CodeUnit];
    for pi in 0..n_prog {
        // every sixth program is direct-only: marks, blocks, and (half of them) grapheme clusters
        let direct_only = pi % 6 == 5;
        let enc = if direct_only && pi % 12 == 11 { TextEncoding::GraphemeCluster } else { encs[pi % 3] };
        let manual = (pi / 3) % 2 == 1;
        // every third program is conflict-focused
        let focus = !direct_only && pi % 3 == 1;
        if focus {
            rep.count("programs:conflict-focused");
        }
        rep.count(&format!("programs:{}:{}", enc_name(enc), if manual { "manual" } else { "autocommit" }));
        if direct_only {
            rep.count("programs:direct-only");
        }
        let mut prng = rng.fork();
        let r = guard(|| program(&mut prng, &mut rep, pi, enc, manual, direct_only, focus, thorough));
        match r {
            Ok((defs, cases)) => {
                // one shard per 8 transactions of a program (shards are evaluated in parallel)
                let mut cases = cases;
                while !cases.is_empty() {
                    let rest = if cases.len() > 8 { cases.split_off(8) } else { vec![] };
                    cw.push_group(&defs, cases);
                    cases = rest;
                }
            }
            Err(p) => {
                rep.fail(&["C03"], &format!("panic|edit|program|{}", p.signature()), &format!("the implementation panicked outside an editing call (read / commit / merge): {} at {}", p.message, p.location), json!({"program": pi}));
            }
        }
    }
    // C24: text programs in all four encodings
    let n_text = if thorough { 120 } else { 24 };
    let all = [TextEncoding::UnicodeCodePoint, TextEncoding::Utf8CodeUnit, TextEncoding::Utf16CodeUnit, TextEncoding::GraphemeCluster];
    for ti in 0..n_text {
        let enc = all[ti % 4];
        let steps = if thorough { 40 } else { 25 };
        let mut prng = rng.fork();
        text_program(&mut prng, &mut rep, enc, steps, ti);
        rep.count(&format!("text_programs:{}", enc_name(enc)));
    }
    rep.model_cases = cw.total as u64;
    cw.finish();
    rep
}
