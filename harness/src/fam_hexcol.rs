// Family "hexcol": C34 — hexane columns behave like vectors under any edits.
//
// Edit programs (splice / insert / remove / remove_n / push / truncate / clear / extend / splice_runs /
// pop / edit-cursor sessions) are run on every column type of /repo/rust/hexane — Column<T> for
// T in u64, u32, i64, String, Vec<u8> and their Option<_>, Column<bool>; PrefixColumn<T> for u64, u32,
// i64, bool, Option<u64>; DeltaColumn<T> for u64, i64, u32, Option<u64>, Option<i64>, Option<i32>; RawColumn —
// with small slab budgets (with_max_segments), values chosen to build long runs, run merges and
// splits, nulls and extremes.  After EVERY edit the column is compared with a Rust Vec mirror
// (len, to_vec, and a sample of every query the type offers); for a subset of (small) programs the
// same program and the IMPLEMENTATION's answers are written as Coq cases `chk_col_prog`, so that the
// Coq specification Hexane/ColSpec.v is run on the same program.  Out-of-range arguments run on a
// separate labelled stream: the Rust must panic exactly where the specification says Panic.
use crate::util::*;
use hexane::{Column, DeltaColumn, PrefixColumn, RawColumn, Run};
use serde_json::json;

const HEADER: &str = "From AM Require Import Base.Prelude Hexane.ColSpec Exec.HexcolExec.\nLocal Open Scope N_scope.\n";

// ------------------------------------------------------------------------------------------ values
#[derive(Clone, Debug, PartialEq, Eq, PartialOrd, Ord, Hash)]
pub enum Val {
    Null,
    Int(i128),
    Bytes(Vec<u8>),
    Bool(bool),
}
use Val::*;

fn coq_val(v: &Val) -> String {
    match v {
        Null => "VNull".into(),
        Int(n) if *n >= 0 => format!("I {}", n),
        Int(n) => format!("J {}", -n),
        Bytes(b) => format!("VBytes {}", coq_bytes(b)),
        Bool(b) => format!("VBool {}", coq_bool(*b)),
    }
}
fn coq_vals(vs: &[Val]) -> String {
    coq_list(&vs.iter().map(coq_val).collect::<Vec<_>>())
}
fn vn(n: usize) -> Val {
    Int(n as i128)
}
fn wt(v: &Val) -> i128 {
    match v {
        Int(n) => *n,
        Bool(true) => 1,
        _ => 0,
    }
}

// conversions between the harness value and the column's value / Get types
trait FromVal: Sized {
    fn fv(v: &Val) -> Self;
}
trait ToVal {
    fn tv(self) -> Val;
}
macro_rules! int_conv {
    ($($t:ty),*) => {$(
        impl FromVal for $t { fn fv(v: &Val) -> Self { match v { Int(n) => *n as $t, _ => panic!("harness: bad value for int column") } } }
        impl ToVal for $t { fn tv(self) -> Val { Int(self as i128) } }
    )*};
}
int_conv!(u64, u32, i64, i32, usize, u128, i128);
impl FromVal for bool {
    fn fv(v: &Val) -> Self {
        match v {
            Bool(b) => *b,
            _ => panic!("harness: bad value for bool column"),
        }
    }
}
impl ToVal for bool {
    fn tv(self) -> Val {
        Bool(self)
    }
}
impl FromVal for String {
    fn fv(v: &Val) -> Self {
        match v {
            Bytes(b) => String::from_utf8(b.clone()).expect("harness: utf8"),
            _ => panic!("harness: bad value for string column"),
        }
    }
}
impl ToVal for &str {
    fn tv(self) -> Val {
        Bytes(self.as_bytes().to_vec())
    }
}
impl FromVal for Vec<u8> {
    fn fv(v: &Val) -> Self {
        match v {
            Bytes(b) => b.clone(),
            _ => panic!("harness: bad value for bytes column"),
        }
    }
}
impl ToVal for &[u8] {
    fn tv(self) -> Val {
        Bytes(self.to_vec())
    }
}
impl<T: FromVal> FromVal for Option<T> {
    fn fv(v: &Val) -> Self {
        match v {
            Null => None,
            x => Some(T::fv(x)),
        }
    }
}
impl<T: ToVal> ToVal for Option<T> {
    fn tv(self) -> Val {
        match self {
            None => Null,
            Some(x) => x.tv(),
        }
    }
}

// ------------------------------------------------------------------------------------------ edits / queries
#[derive(Clone, Debug)]
pub enum Cop {
    Seek(usize),
    Advance(usize),
    Delete(usize),
    InsertRun(Val, usize),
    Replace(Val),
}
#[derive(Clone, Debug)]
pub enum Edit {
    Splice(usize, usize, Vec<Val>),
    Insert(usize, Val),
    Remove(usize),
    RemoveN(usize, usize),
    Push(Val),
    Truncate(usize),
    Clear,
    Extend(Vec<Val>),
    SpliceRuns(usize, usize, Vec<(usize, Val)>),
    Pop,
    Cursor(usize, Vec<Cop>),
}
impl Edit {
    fn kind(&self) -> &'static str {
        match self {
            Edit::Splice(..) => "splice",
            Edit::Insert(..) => "insert",
            Edit::Remove(..) => "remove",
            Edit::RemoveN(..) => "remove_n",
            Edit::Push(..) => "push",
            Edit::Truncate(..) => "truncate",
            Edit::Clear => "clear",
            Edit::Extend(..) => "extend",
            Edit::SpliceRuns(..) => "splice_runs",
            Edit::Pop => "pop",
            Edit::Cursor(..) => "cursor",
        }
    }
    fn max_index(&self) -> usize {
        match self {
            Edit::Splice(i, d, _) | Edit::SpliceRuns(i, d, _) | Edit::RemoveN(i, d) => (*i).max(*d),
            Edit::Insert(i, _) | Edit::Remove(i) | Edit::Truncate(i) => *i,
            Edit::Cursor(a, ops) => ops
                .iter()
                .map(|o| match o {
                    Cop::Seek(n) | Cop::Advance(n) | Cop::Delete(n) | Cop::InsertRun(_, n) => *n,
                    Cop::Replace(_) => 0,
                })
                .max()
                .unwrap_or(0)
                .max(*a),
            _ => 0,
        }
    }
    fn coq(&self, delta: bool) -> String {
        match self {
            Edit::Splice(i, d, vs) => format!("ESplice {} {} {}", i, d, coq_vals(vs)),
            Edit::Insert(i, v) => format!("EInsert {} ({})", i, coq_val(v)),
            Edit::Remove(i) => format!("ERemove {}", i),
            Edit::RemoveN(i, n) => format!("ERemoveN {} {}", i, n),
            Edit::Push(v) => format!("EPush ({})", coq_val(v)),
            Edit::Truncate(n) => format!("ETruncate {}", n),
            Edit::Clear => "EClear".into(),
            Edit::Extend(vs) => format!("EExtend {}", coq_vals(vs)),
            Edit::SpliceRuns(i, d, rs) => format!(
                "ESpliceRuns {} {} {}",
                i,
                d,
                coq_list(&rs.iter().map(|(c, v)| format!("({},{})", c, coq_val(v))).collect::<Vec<_>>())
            ),
            Edit::Pop => "EPop".into(),
            Edit::Cursor(a, ops) => format!(
                "ECursor {} {}",
                a,
                coq_list(
                    &ops.iter()
                        .map(|o| match o {
                            Cop::Seek(n) => format!("{} {}", if delta { "KSeekSat" } else { "KSeek" }, n),
                            Cop::Advance(n) => format!("KAdvance {}", n),
                            Cop::Delete(n) => format!("KDelete {}", n),
                            Cop::InsertRun(v, n) => format!("KInsertRun ({}) {}", coq_val(v), n),
                            Cop::Replace(v) => format!("KReplace ({})", coq_val(v)),
                        })
                        .collect::<Vec<_>>()
                )
            ),
        }
    }
}

#[derive(Clone, Debug)]
pub enum Query {
    Vec_,
    Len,
    Get(usize),
    Range(usize, usize),
    Nth(usize, usize, usize),
    Runs(usize, usize),
    FindAll(Val, usize, usize),
    Scope(Val, usize, usize),
    IsOnly(Val),
    Prefix(usize),
    Total(usize),
    SumRange(usize, usize),
    IdxPrefix(i128),
    IdxTotal(i128),
    AccGet(usize),
    AccRange(usize, usize),
    AccRuns(usize, usize),
    AdvPrefix(usize, usize, i128),
    DeltaRuns(usize, usize),
    FindRange(i128, i128),
    FindValue(i128),
    FindFirst(i128),
    ScanRange(usize, usize, i128, i128),
}
impl Query {
    fn kind(&self) -> &'static str {
        match self {
            Query::Vec_ => "to_vec",
            Query::Len => "len",
            Query::Get(..) => "get",
            Query::Range(..) => "iter_range",
            Query::Nth(..) => "nth",
            Query::Runs(..) => "runs",
            Query::FindAll(..) => "scan_to_value",
            Query::Scope(..) => "scope_to_value",
            Query::IsOnly(..) => "is_only",
            Query::Prefix(..) => "get_prefix",
            Query::Total(..) => "get_total",
            Query::SumRange(..) => "sum_range",
            Query::IdxPrefix(..) => "get_index_for_prefix",
            Query::IdxTotal(..) => "get_index_for_total",
            Query::AccGet(..) => "prefix_get",
            Query::AccRange(..) => "prefix_iter_range",
            Query::AccRuns(..) => "prefix_runs",
            Query::AdvPrefix(..) => "advance_prefix",
            Query::DeltaRuns(..) => "delta_runs",
            Query::FindRange(..) => "find_by_range",
            Query::FindValue(..) => "find_by_value",
            Query::FindFirst(..) => "find_first",
            Query::ScanRange(..) => "scan_to_range",
        }
    }
    fn coq(&self) -> String {
        match self {
            Query::Vec_ => "QVec".into(),
            Query::Len => "QLen".into(),
            Query::Get(i) => format!("QGet {}", i),
            Query::Range(a, b) => format!("QRange {} {}", a, b),
            Query::Nth(a, b, k) => format!("QNth {} {} {}", a, b, k),
            Query::Runs(a, b) => format!("QRuns {} {}", a, b),
            Query::FindAll(v, a, b) => format!("QFindAll ({}) {} {}", coq_val(v), a, b),
            Query::Scope(v, a, b) => format!("QScope ({}) {} {}", coq_val(v), a, b),
            Query::IsOnly(v) => format!("QIsOnly ({})", coq_val(v)),
            Query::Prefix(i) => format!("QPrefix {}", i),
            Query::Total(i) => format!("QTotal {}", i),
            Query::SumRange(a, b) => format!("QSumRange {} {}", a, b),
            Query::IdxPrefix(t) => format!("QIdxPrefix {}", coq_z(*t)),
            Query::IdxTotal(t) => format!("QIdxTotal {}", coq_z(*t)),
            Query::AccGet(i) => format!("QAccGet {}", i),
            Query::AccRange(a, b) => format!("QAccRange {} {}", a, b),
            Query::AccRuns(a, b) => format!("QAccRuns {} {}", a, b),
            Query::AdvPrefix(a, b, n) => format!("QAdvPrefix {} {} {}", a, b, coq_z(*n)),
            Query::DeltaRuns(a, b) => format!("QDeltaRuns {} {}", a, b),
            Query::FindRange(lo, hi) => format!("QFindRange {} {}", coq_z(*lo), coq_z(*hi)),
            Query::FindValue(v) => format!("QFindValue {}", coq_z(*v)),
            Query::FindFirst(v) => format!("QFindFirst {}", coq_z(*v)),
            Query::ScanRange(a, b, lo, hi) => format!("QScanRange {} {} {} {}", a, b, coq_z(*lo), coq_z(*hi)),
        }
    }
}

// ------------------------------------------------------------------------------------------ the Vec mirror (same text as Hexane/ColSpec.v)
/// returns true when the specification says Panic (the mirror is then unchanged)
fn spec_splice(l: &mut Vec<Val>, i: usize, del: usize, vals: Vec<Val>) -> bool {
    match i.checked_add(del) {
        Some(e) if e <= l.len() => {
            l.splice(i..e, vals);
            false
        }
        _ => true,
    }
}
/// `delta`: DeltaEdit::seek is `to.saturating_sub(pos)` (a backwards seek is a no-op), Edit::seek asserts
fn spec_apply(l: &mut Vec<Val>, e: &Edit, delta: bool) -> bool {
    match e {
        Edit::Splice(i, d, vs) => spec_splice(l, *i, *d, vs.clone()),
        Edit::Insert(i, v) => spec_splice(l, *i, 0, vec![v.clone()]),
        Edit::Remove(i) => {
            if *i < l.len() {
                spec_splice(l, *i, 1, vec![])
            } else {
                false
            }
        }
        Edit::RemoveN(i, n) => {
            if *n > 0 {
                spec_splice(l, *i, *n, vec![])
            } else {
                false
            }
        }
        Edit::Push(v) => {
            l.push(v.clone());
            false
        }
        Edit::Truncate(n) => {
            if *n < l.len() {
                l.truncate(*n);
            }
            false
        }
        Edit::Clear => {
            l.clear();
            false
        }
        Edit::Extend(vs) => {
            l.extend(vs.iter().cloned());
            false
        }
        Edit::SpliceRuns(i, d, rs) => {
            let mut vs = vec![];
            for (c, v) in rs {
                for _ in 0..*c {
                    vs.push(v.clone());
                }
            }
            spec_splice(l, *i, *d, vs)
        }
        Edit::Pop => {
            l.pop();
            false
        }
        Edit::Cursor(at, ops) => {
            if *at > l.len() {
                return true;
            }
            let mut done: Vec<Val> = l[..*at].to_vec();
            let mut rest: std::collections::VecDeque<Val> = l[*at..].iter().cloned().collect();
            let mut orig = *at;
            for op in ops {
                match op {
                    Cop::Seek(to) => {
                        if *to < orig && !delta {
                            return true;
                        }
                        let k = to.saturating_sub(orig).min(rest.len());
                        for _ in 0..k {
                            done.push(rest.pop_front().unwrap());
                        }
                        orig += k;
                    }
                    Cop::Advance(n) => {
                        let k = (*n).min(rest.len());
                        for _ in 0..k {
                            done.push(rest.pop_front().unwrap());
                        }
                        orig += k;
                    }
                    Cop::Delete(n) => {
                        let k = (*n).min(rest.len());
                        for _ in 0..k {
                            rest.pop_front();
                        }
                        orig += k;
                    }
                    Cop::InsertRun(v, n) => {
                        for _ in 0..*n {
                            done.push(v.clone());
                        }
                    }
                    Cop::Replace(v) => {
                        if let Some(x) = rest.pop_front() {
                            if x == *v {
                                done.push(x);
                            } else {
                                done.push(v.clone());
                            }
                            orig += 1;
                        }
                    }
                }
            }
            done.extend(rest);
            *l = done;
            false
        }
    }
}

fn win(a: usize, b: usize, len: usize) -> (usize, usize) {
    let s = a.min(len);
    let e = b.min(len).max(s);
    (s, e)
}
fn spec_runs(w: &[Val]) -> Vec<(usize, Val)> {
    let mut out: Vec<(usize, Val)> = vec![];
    for v in w {
        match out.last_mut() {
            Some((c, x)) if x == v => *c += 1,
            _ => out.push((1, v.clone())),
        }
    }
    out
}
fn psum(l: &[Val], i: usize) -> i128 {
    l[..i.min(l.len())].iter().map(wt).sum()
}
fn idx_prefix(l: &[Val], t: i128) -> usize {
    if t <= 0 {
        return 0;
    }
    let mut acc = 0i128;
    for (i, v) in l.iter().enumerate() {
        acc += wt(v);
        if t <= acc {
            return i + 1;
        }
    }
    l.len() + 1
}
fn deltas(l: &[Val]) -> Vec<Val> {
    let mut prev = 0i128;
    l.iter()
        .map(|v| match v {
            Int(n) => {
                let d = *n - prev;
                prev = *n;
                Int(d)
            }
            _ => Null,
        })
        .collect()
}
fn running_after(l: &[Val]) -> i128 {
    l.iter().rev().find_map(|v| if let Int(n) = v { Some(*n) } else { None }).unwrap_or(0)
}
fn spec_answer(q: &Query, l: &[Val]) -> Vec<Val> {
    let len = l.len();
    match q {
        Query::Vec_ => l.to_vec(),
        Query::Len => vec![vn(len)],
        Query::Get(i) => l.get(*i).cloned().into_iter().collect(),
        Query::Range(a, b) => {
            let (s, e) = win(*a, *b, len);
            l[s..e].to_vec()
        }
        Query::Nth(a, b, k) => {
            let (s, e) = win(*a, *b, len);
            l[s..e].get(*k).cloned().into_iter().collect()
        }
        Query::Runs(a, b) => {
            let (s, e) = win(*a, *b, len);
            spec_runs(&l[s..e]).into_iter().flat_map(|(c, v)| [vn(c), v]).collect()
        }
        Query::FindAll(v, a, b) => {
            let (s, e) = win(*a, *b, len);
            (s..e).filter(|i| l[*i] == *v).map(vn).collect()
        }
        Query::Scope(v, a, b) => {
            let (s, e) = win(*a, *b, len);
            let lt = l[s..e].iter().filter(|x| *x < v).count();
            let eq = l[s..e].iter().filter(|x| *x == v).count();
            vec![vn(s + lt), vn(s + lt + eq)]
        }
        Query::IsOnly(v) => vec![Bool(l.iter().all(|x| x == v))],
        Query::Prefix(i) => vec![Int(psum(l, *i))],
        Query::Total(i) => vec![Int(psum(l, *i + 1))],
        Query::SumRange(a, b) => {
            if b <= a || len == 0 {
                vec![Int(0)]
            } else {
                vec![Int(psum(l, *b) - psum(l, *a))]
            }
        }
        Query::IdxPrefix(t) => vec![vn(idx_prefix(l, *t))],
        Query::IdxTotal(t) => vec![vn(idx_prefix(l, *t).saturating_sub(1))],
        Query::AccGet(i) => match l.get(*i) {
            Some(v) => vec![v.clone(), Int(psum(l, *i)), Int(psum(l, *i + 1))],
            None => vec![],
        },
        Query::AccRange(a, b) => {
            let (s, e) = win(*a, *b, len);
            let mut acc = psum(l, s);
            let mut out = vec![];
            for v in &l[s..e] {
                acc += wt(v);
                out.push(v.clone());
                out.push(Int(acc));
            }
            out
        }
        Query::AccRuns(a, b) => {
            let (s, e) = win(*a, *b, len);
            let mut acc = psum(l, s);
            let mut out = vec![];
            for (c, v) in spec_runs(&l[s..e]) {
                acc += c as i128 * wt(&v);
                out.push(vn(c));
                out.push(v);
                out.push(Int(acc));
            }
            out
        }
        Query::AdvPrefix(a, b, n) => {
            let (s, e) = win(*a, *b, len);
            let here = psum(l, s);
            let tp = idx_prefix(l, here + n + 1).saturating_sub(1);
            if tp < s || tp >= e {
                vec![]
            } else {
                vec![vn(tp), Int(psum(l, tp) - here), l[tp].clone(), Int(psum(l, tp + 1))]
            }
        }
        Query::DeltaRuns(a, b) => {
            let (s, e) = win(*a, *b, len);
            let d = deltas(l);
            let mut running = running_after(&l[..s]);
            let mut out = vec![];
            for (c, v) in spec_runs(&d[s..e]) {
                out.push(Int(running));
                out.push(v.clone());
                out.push(vn(c));
                if let Int(x) = v {
                    running += c as i128 * x;
                }
            }
            out
        }
        Query::FindRange(lo, hi) => (0..len).filter(|i| matches!(&l[*i], Int(v) if lo <= v && v < hi)).map(vn).collect(),
        Query::FindValue(v) => (0..len).filter(|i| l[*i] == Int(*v)).map(vn).collect(),
        Query::FindFirst(v) => (0..len).find(|i| l[*i] == Int(*v)).map(vn).into_iter().collect(),
        Query::ScanRange(a, b, lo, hi) => {
            let (s, e) = win(*a, *b, len);
            (s..e).find(|i| matches!(&l[*i], Int(v) if lo <= v && v <= hi)).map(vn).into_iter().collect()
        }
    }
}

// ------------------------------------------------------------------------------------------ drivers
trait Driver {
    fn rebuild(&mut self, vals: &[Val]);
    fn len(&self) -> usize;
    fn to_vec(&self) -> Vec<Val>;
    /// false = this column type has no such edit
    fn apply(&mut self, e: &Edit) -> bool;
    /// None = this column type has no such query
    fn query(&self, q: &Query) -> Option<Vec<Val>>;
    fn invariants(&self);
    fn slabs(&self) -> usize;
}

// queries every Column<T, _, WF> answers (also reached through PrefixColumn::values())
macro_rules! plain_query {
    ($col:expr, $t:ty, $q:expr) => {{
        let col = $col;
        match $q {
            Query::Vec_ => Some(col.to_vec().into_iter().map(|g| g.tv()).collect()),
            Query::Len => Some(vec![vn(col.len())]),
            Query::Get(i) => Some(col.get(*i).map(|g| g.tv()).into_iter().collect()),
            Query::Range(a, b) => Some(col.iter_range(*a..*b).map(|g| g.tv()).collect()),
            Query::Nth(a, b, k) => Some(col.iter_range(*a..*b).nth(*k).map(|g| g.tv()).into_iter().collect()),
            Query::Runs(a, b) => {
                let mut out = vec![];
                let mut it = col.iter_range(*a..*b);
                while let Some(r) = it.next_run() {
                    out.push(vn(r.count));
                    out.push(r.value.tv());
                }
                Some(out)
            }
            Query::FindAll(v, a, b) => {
                let tv = <$t as FromVal>::fv(v);
                let mut it = col.iter_range(*a..*b);
                let mut out = vec![];
                while let Some(p) = it.scan_to_value(hexane::AsColumnRef::<$t>::as_column_ref(&tv)) {
                    out.push(vn(p));
                    if out.len() > 100_000 {
                        break;
                    }
                }
                Some(out)
            }
            Query::Scope(v, a, b) => {
                let tv = <$t as FromVal>::fv(v);
                let r = col.scope_to_value(tv, *a..*b);
                Some(vec![vn(r.start), vn(r.end)])
            }
            Query::IsOnly(v) => {
                let tv = <$t as FromVal>::fv(v);
                Some(vec![Bool(col.is_only(hexane::AsColumnRef::<$t>::as_column_ref(&tv)))])
            }
            _ => None,
        }
    }};
}

// A cursor session.  The cursor (Edit / DeltaEdit) writes back in its Drop; if an operation panics,
// dropping the cursor during unwinding would run that write-back on a half-edited slab and a second
// panic there aborts the process.  So the cursor is never dropped after a panic (it is leaked; the
// harness rebuilds the column anyway).
macro_rules! cursor_ops {
    ($e:expr, $t:ty, $ops:expr) => {{
        let mut e = std::mem::ManuallyDrop::new($e);
        let r = std::panic::catch_unwind(std::panic::AssertUnwindSafe(|| {
            for op in $ops {
                match op {
                    Cop::Seek(n) => {
                        e.seek(*n);
                    }
                    Cop::Advance(n) => {
                        e.advance(*n);
                    }
                    Cop::Delete(n) => {
                        e.delete(*n);
                    }
                    Cop::InsertRun(v, n) => {
                        e.insert_run(<$t as FromVal>::fv(v), *n);
                    }
                    Cop::Replace(v) => {
                        let nv = <$t as FromVal>::fv(v);
                        e.replace(|_| nv.clone());
                    }
                }
            }
            e.finish();
        }));
        match r {
            Ok(()) => unsafe { std::mem::ManuallyDrop::drop(&mut e) },
            Err(p) => std::panic::resume_unwind(p),
        }
    }};
}

// edits shared by Column<T> and PrefixColumn<T>
macro_rules! plain_apply {
    ($col:expr, $t:ty, $e:expr) => {{
        match $e {
            Edit::Splice(i, d, vs) => $col.splice(*i, *d, vs.iter().map(<$t as FromVal>::fv).collect::<Vec<$t>>()),
            Edit::Insert(i, v) => $col.insert(*i, <$t as FromVal>::fv(v)),
            Edit::Remove(i) => $col.remove(*i),
            Edit::RemoveN(i, n) => $col.remove_n(*i, *n),
            Edit::Push(v) => $col.push(<$t as FromVal>::fv(v)),
            Edit::Truncate(n) => $col.truncate(*n),
            Edit::Clear => $col.clear(),
            Edit::Extend(vs) => $col.extend(vs.iter().map(<$t as FromVal>::fv).collect::<Vec<$t>>()),
            Edit::SpliceRuns(i, d, rs) => $col.splice_runs(
                *i,
                *d,
                rs.iter().map(|(c, v)| Run { count: *c, value: <$t as FromVal>::fv(v) }).collect::<Vec<Run<$t>>>(),
            ),
            Edit::Cursor(at, ops) => {
                cursor_ops!($col.edit_at(*at), $t, ops);
            }
            Edit::Pop => return false,
        }
        true
    }};
}

macro_rules! plain_driver {
    ($name:ident, $t:ty) => {
        struct $name {
            col: Column<$t>,
            ms: usize,
        }
        impl $name {
            fn new(ms: usize) -> Self {
                $name { col: Column::<$t>::with_max_segments(ms), ms }
            }
        }
        impl Driver for $name {
            fn rebuild(&mut self, vals: &[Val]) {
                self.col = Column::<$t>::from_values_with_max_segments(vals.iter().map(<$t as FromVal>::fv).collect(), self.ms);
            }
            fn len(&self) -> usize {
                self.col.len()
            }
            fn to_vec(&self) -> Vec<Val> {
                self.col.to_vec().into_iter().map(|g| g.tv()).collect()
            }
            fn apply(&mut self, e: &Edit) -> bool {
                plain_apply!(self.col, $t, e)
            }
            fn query(&self, q: &Query) -> Option<Vec<Val>> {
                plain_query!(&self.col, $t, q)
            }
            fn invariants(&self) {
                self.col.check_invariants()
            }
            fn slabs(&self) -> usize {
                self.col.slab_count()
            }
        }
    };
}
plain_driver!(PU64, u64);
plain_driver!(POU64, Option<u64>);
plain_driver!(PI64, i64);
plain_driver!(POI64, Option<i64>);
plain_driver!(PU32, u32);
plain_driver!(PStr, String);
plain_driver!(POStr, Option<String>);
plain_driver!(PBytes, Vec<u8>);
plain_driver!(POBytes, Option<Vec<u8>>);
plain_driver!(PBool, bool);

macro_rules! prefix_unsigned {
    (true, $b:block) => {
        $b
    };
    (false, $b:block) => {
        None
    };
}

macro_rules! prefix_driver {
    ($name:ident, $t:ty, $p:ty, $unsigned:tt) => {
        struct $name {
            col: PrefixColumn<$t>,
            ms: usize,
        }
        impl $name {
            fn new(ms: usize) -> Self {
                $name { col: PrefixColumn::<$t>::with_max_segments(ms), ms }
            }
        }
        impl Driver for $name {
            fn rebuild(&mut self, vals: &[Val]) {
                let mut c = PrefixColumn::<$t>::with_max_segments(self.ms);
                c.splice(0, 0, vals.iter().map(<$t as FromVal>::fv).collect::<Vec<$t>>());
                self.col = c;
            }
            fn len(&self) -> usize {
                self.col.len()
            }
            fn to_vec(&self) -> Vec<Val> {
                self.col.to_vec().into_iter().map(|g| g.tv()).collect()
            }
            fn apply(&mut self, e: &Edit) -> bool {
                plain_apply!(self.col, $t, e)
            }
            fn query(&self, q: &Query) -> Option<Vec<Val>> {
                let col = &self.col;
                match q {
                    Query::Prefix(i) => Some(vec![Int(col.get_prefix(*i) as i128)]),
                    Query::Total(i) => Some(vec![Int(col.get_total(*i) as i128)]),
                    Query::SumRange(a, b) => Some(vec![Int(col.sum_range(*a..*b) as i128)]),
                    Query::AccGet(i) => Some(match col.get(*i) {
                        Some(pv) => vec![pv.value.tv(), Int(pv.prefix() as i128), Int(pv.total() as i128)],
                        None => vec![],
                    }),
                    Query::AccRange(a, b) => {
                        let mut out = vec![];
                        for pv in col.iter_range(*a..*b) {
                            out.push(pv.value.tv());
                            out.push(Int(pv.total() as i128));
                        }
                        Some(out)
                    }
                    Query::AccRuns(a, b) => {
                        let mut out = vec![];
                        let mut it = col.iter_range(*a..*b);
                        while let Some(r) = it.next_run() {
                            out.push(vn(r.count));
                            out.push(r.value.value.tv());
                            out.push(Int(r.value.total() as i128));
                        }
                        Some(out)
                    }
                    Query::IdxPrefix(_t) => prefix_unsigned!($unsigned, { Some(vec![vn(col.get_index_for_prefix(*_t as $p))]) }),
                    Query::IdxTotal(_t) => prefix_unsigned!($unsigned, { Some(vec![vn(col.get_index_for_total(*_t as $p))]) }),
                    Query::AdvPrefix(_a, _b, _n) => prefix_unsigned!($unsigned, {
                        let mut it = col.iter_range(*_a..*_b);
                        Some(match it.advance_prefix(*_n as $p) {
                            Some(s) => vec![vn(s.pos), Int(s.delta as i128), s.pv.value.tv(), Int(s.pv.total() as i128)],
                            None => vec![],
                        })
                    }),
                    other => plain_query!(col.values(), $t, other),
                }
            }
            fn invariants(&self) {
                // PrefixSlabWeight has no PartialEq: check_invariants is not callable here
            }
            fn slabs(&self) -> usize {
                self.col.slab_count()
            }
        }
    };
}
prefix_driver!(XU64, u64, u128, true);
prefix_driver!(XOU64, Option<u64>, u128, true);
prefix_driver!(XU32, u32, u64, true);
prefix_driver!(XBool, bool, usize, true);
prefix_driver!(XI64, i64, i128, false);

macro_rules! delta_driver {
    ($name:ident, $t:ty) => {
        struct $name {
            col: DeltaColumn<$t>,
            ms: usize,
        }
        impl $name {
            fn new(ms: usize) -> Self {
                $name { col: DeltaColumn::<$t>::with_max_segments(ms), ms }
            }
        }
        impl Driver for $name {
            fn rebuild(&mut self, vals: &[Val]) {
                let mut c = DeltaColumn::<$t>::with_max_segments(self.ms);
                c.splice(0, 0, vals.iter().map(<$t as FromVal>::fv).collect::<Vec<$t>>());
                self.col = c;
            }
            fn len(&self) -> usize {
                self.col.len()
            }
            fn to_vec(&self) -> Vec<Val> {
                self.col.to_vec().into_iter().map(|g| g.tv()).collect()
            }
            fn apply(&mut self, e: &Edit) -> bool {
                match e {
                    Edit::Splice(i, d, vs) => self.col.splice(*i, *d, vs.iter().map(<$t as FromVal>::fv).collect::<Vec<$t>>()),
                    Edit::Insert(i, v) => self.col.insert(*i, <$t as FromVal>::fv(v)),
                    Edit::Remove(i) => self.col.remove(*i),
                    Edit::RemoveN(i, n) => self.col.remove_n(*i, *n),
                    Edit::Push(v) => self.col.push(<$t as FromVal>::fv(v)),
                    Edit::Truncate(n) => self.col.truncate(*n),
                    Edit::Clear => self.col.clear(),
                    Edit::Extend(vs) => self.col.extend(vs.iter().map(<$t as FromVal>::fv).collect::<Vec<$t>>()),
                    Edit::Pop => {
                        self.col.pop();
                    }
                    Edit::Cursor(at, ops) => {
                        cursor_ops!(self.col.edit_at(*at), $t, ops);
                    }
                    Edit::SpliceRuns(..) => return false,
                }
                true
            }
            fn query(&self, q: &Query) -> Option<Vec<Val>> {
                let col = &self.col;
                match q {
                    Query::Vec_ => Some(col.to_vec().into_iter().map(|g| g.tv()).collect()),
                    Query::Len => Some(vec![vn(col.len())]),
                    Query::Get(i) => Some(col.get(*i).map(|g| g.tv()).into_iter().collect()),
                    Query::Range(a, b) => Some(col.iter_range(*a..*b).map(|g| g.tv()).collect()),
                    Query::Nth(a, b, k) => Some(col.iter_range(*a..*b).nth(*k).map(|g| g.tv()).into_iter().collect()),
                    Query::DeltaRuns(a, b) => {
                        let mut out = vec![];
                        let mut it = col.iter_range(*a..*b);
                        while let Some(r) = it.next_run() {
                            out.push(Int(r.prefix as i128));
                            out.push(r.delta.map(|d| Int(d as i128)).unwrap_or(Null));
                            out.push(vn(r.count));
                        }
                        Some(out)
                    }
                    Query::FindAll(v, a, b) => {
                        let tv = <$t as FromVal>::fv(v);
                        let mut it = col.iter_range(*a..*b);
                        let mut out = vec![];
                        while let Some(p) = it.scan_to_value(tv) {
                            out.push(vn(p));
                            if out.len() > 100_000 {
                                break;
                            }
                        }
                        Some(out)
                    }
                    Query::Scope(v, a, b) => {
                        let r = col.scope_to_value(<$t as FromVal>::fv(v), *a..*b);
                        Some(vec![vn(r.start), vn(r.end)])
                    }
                    Query::FindRange(lo, hi) => Some(col.find_by_range(*lo as i64..*hi as i64).map(vn).collect()),
                    Query::FindValue(v) => Some(col.find_by_value(<$t as FromVal>::fv(&Int(*v))).map(vn).collect()),
                    Query::FindFirst(v) => Some(col.find_first(<$t as FromVal>::fv(&Int(*v))).map(vn).into_iter().collect()),
                    Query::ScanRange(a, b, lo, hi) => {
                        let mut it = col.iter_range(*a..*b);
                        let lo_t = <$t as FromVal>::fv(&Int(*lo));
                        let hi_t = <$t as FromVal>::fv(&Int(*hi));
                        Some(match it.scan_to_range(lo_t..=hi_t) {
                            Some((p, v)) => vec![vn(p), v.tv()],
                            None => vec![],
                        })
                    }
                    _ => None,
                }
            }
            fn invariants(&self) {
                self.col.check_invariants()
            }
            fn slabs(&self) -> usize {
                self.col.slab_count()
            }
        }
    };
}
delta_driver!(DU64, u64);
delta_driver!(DOU64, Option<u64>);
delta_driver!(DI64, i64);
delta_driver!(DOI64, Option<i64>);
delta_driver!(DU32, u32);
delta_driver!(DOI32, Option<i32>);

// ------------------------------------------------------------------------------------------ column types
#[derive(Clone, Copy, Debug, PartialEq, Eq)]
enum Fam {
    Plain,
    Prefix,
    Delta,
}
#[derive(Clone, Copy, Debug)]
struct CT {
    name: &'static str,
    fam: Fam,
    kind: u32,     // Coq value-domain kind (HexcolExec.val_ok)
    lo: i128,      // integer domain
    hi: i128,
    unsigned_prefix: bool,
}
const I63: i128 = i64::MAX as i128;
const TYPES: &[CT] = &[
    CT { name: "Column<u64>", fam: Fam::Plain, kind: 0, lo: 0, hi: u64::MAX as i128, unsigned_prefix: false },
    CT { name: "Column<Option<u64>>", fam: Fam::Plain, kind: 1, lo: 0, hi: u64::MAX as i128, unsigned_prefix: false },
    CT { name: "Column<i64>", fam: Fam::Plain, kind: 2, lo: i64::MIN as i128, hi: I63, unsigned_prefix: false },
    CT { name: "Column<Option<i64>>", fam: Fam::Plain, kind: 3, lo: i64::MIN as i128, hi: I63, unsigned_prefix: false },
    CT { name: "Column<u32>", fam: Fam::Plain, kind: 0, lo: 0, hi: u32::MAX as i128, unsigned_prefix: false },
    CT { name: "Column<String>", fam: Fam::Plain, kind: 4, lo: 0, hi: 0, unsigned_prefix: false },
    CT { name: "Column<Option<String>>", fam: Fam::Plain, kind: 5, lo: 0, hi: 0, unsigned_prefix: false },
    CT { name: "Column<Vec<u8>>", fam: Fam::Plain, kind: 4, lo: 0, hi: 0, unsigned_prefix: false },
    CT { name: "Column<Option<Vec<u8>>>", fam: Fam::Plain, kind: 5, lo: 0, hi: 0, unsigned_prefix: false },
    CT { name: "Column<bool>", fam: Fam::Plain, kind: 6, lo: 0, hi: 0, unsigned_prefix: false },
    CT { name: "PrefixColumn<u64>", fam: Fam::Prefix, kind: 0, lo: 0, hi: u64::MAX as i128, unsigned_prefix: true },
    CT { name: "PrefixColumn<Option<u64>>", fam: Fam::Prefix, kind: 1, lo: 0, hi: u64::MAX as i128, unsigned_prefix: true },
    CT { name: "PrefixColumn<u32>", fam: Fam::Prefix, kind: 0, lo: 0, hi: u32::MAX as i128, unsigned_prefix: true },
    CT { name: "PrefixColumn<bool>", fam: Fam::Prefix, kind: 6, lo: 0, hi: 0, unsigned_prefix: true },
    CT { name: "PrefixColumn<i64>", fam: Fam::Prefix, kind: 2, lo: i64::MIN as i128, hi: I63, unsigned_prefix: false },
    // delta domains: all realized values inside one 2^63-wide range (DeltaValue contract)
    CT { name: "DeltaColumn<u64>", fam: Fam::Delta, kind: 0, lo: 0, hi: I63, unsigned_prefix: false },
    CT { name: "DeltaColumn<Option<u64>>", fam: Fam::Delta, kind: 1, lo: 0, hi: I63, unsigned_prefix: false },
    CT { name: "DeltaColumn<i64>", fam: Fam::Delta, kind: 2, lo: -(1i128 << 62), hi: (1i128 << 62) - 1, unsigned_prefix: false },
    CT { name: "DeltaColumn<Option<i64>>", fam: Fam::Delta, kind: 3, lo: -(1i128 << 62), hi: (1i128 << 62) - 1, unsigned_prefix: false },
    CT { name: "DeltaColumn<u32>", fam: Fam::Delta, kind: 0, lo: 0, hi: u32::MAX as i128, unsigned_prefix: false },
    CT { name: "DeltaColumn<Option<i32>>", fam: Fam::Delta, kind: 3, lo: i32::MIN as i128, hi: i32::MAX as i128, unsigned_prefix: false },
];

fn make(ct: &CT, ms: usize) -> Box<dyn Driver> {
    match ct.name {
        "Column<u64>" => Box::new(PU64::new(ms)),
        "Column<Option<u64>>" => Box::new(POU64::new(ms)),
        "Column<i64>" => Box::new(PI64::new(ms)),
        "Column<Option<i64>>" => Box::new(POI64::new(ms)),
        "Column<u32>" => Box::new(PU32::new(ms)),
        "Column<String>" => Box::new(PStr::new(ms)),
        "Column<Option<String>>" => Box::new(POStr::new(ms)),
        "Column<Vec<u8>>" => Box::new(PBytes::new(ms)),
        "Column<Option<Vec<u8>>>" => Box::new(POBytes::new(ms)),
        "Column<bool>" => Box::new(PBool::new(ms)),
        "PrefixColumn<u64>" => Box::new(XU64::new(ms)),
        "PrefixColumn<Option<u64>>" => Box::new(XOU64::new(ms)),
        "PrefixColumn<u32>" => Box::new(XU32::new(ms)),
        "PrefixColumn<bool>" => Box::new(XBool::new(ms)),
        "PrefixColumn<i64>" => Box::new(XI64::new(ms)),
        "DeltaColumn<u64>" => Box::new(DU64::new(ms)),
        "DeltaColumn<Option<u64>>" => Box::new(DOU64::new(ms)),
        "DeltaColumn<i64>" => Box::new(DI64::new(ms)),
        "DeltaColumn<Option<i64>>" => Box::new(DOI64::new(ms)),
        "DeltaColumn<u32>" => Box::new(DU32::new(ms)),
        "DeltaColumn<Option<i32>>" => Box::new(DOI32::new(ms)),
        _ => unreachable!(),
    }
}

// ------------------------------------------------------------------------------------------ generators
struct Gen<'a> {
    ct: &'a CT,
    pool: Vec<Val>,
    last: Val,
    sorted: bool,
    small_sums: bool,
    lo: i128,
    hi: i128,
    wide: bool,
}
impl<'a> Gen<'a> {
    fn nullable(&self) -> bool {
        matches!(self.ct.kind, 1 | 3 | 5)
    }
    /// `small`: a program that is also evaluated in Coq (no long strings: every byte is a list element there)
    fn new(ct: &'a CT, rng: &mut Rng, sorted: bool, small: bool) -> Self {
        let mut pool = vec![];
        let n = rng.range(2, 5) as usize;
        let small_sums = rng.chance(2, 3);
        // delta columns: 1 program in 4 uses values spread over the whole 2^63-wide domain, the others stay
        // within 2^40 of zero (so that a defect of the extremes cannot hide the rest)
        let wide = ct.fam != Fam::Delta || rng.chance(1, 4);
        let (glo, ghi) = if wide { (ct.lo, ct.hi) } else { (ct.lo.max(-(1i128 << 40)), ct.hi.min(1i128 << 40)) };
        match ct.kind {
            0..=3 => {
                let (lo, hi) = (glo, ghi);
                let base = match rng.below(4) {
                    0 => lo,
                    1 => hi - 40,
                    2 => (lo + hi) / 2,
                    _ => 0i128.max(lo),
                };
                for _ in 0..n {
                    let v = match rng.below(8) {
                        0 => lo,
                        1 => hi,
                        2 => 0i128.clamp(lo, hi),
                        3 => 1i128.clamp(lo, hi),
                        4 => (-1i128).clamp(lo, hi),
                        5 => (rng.next() as i128 % (hi - lo + 1).max(1) + lo).clamp(lo, hi),
                        _ => (base + rng.below(40) as i128).clamp(lo, hi),
                    };
                    pool.push(Int(v));
                }
                if small_sums || ct.fam == Fam::Delta && rng.chance(1, 2) {
                    // small consecutive values: arithmetic progressions for delta runs, small sums for prefix lookups
                    pool = (0..n).map(|i| Int((base + i as i128).clamp(lo, hi))).collect();
                    if rng.chance(1, 2) {
                        pool.push(Int(0i128.clamp(lo, hi)));
                    }
                }
            }
            4 | 5 => {
                let strs: [&[u8]; 8] = [b"", b"a", b"ab", b"b", "\u{e9}".as_bytes(), "\u{6f22}\u{1F600}".as_bytes(), b"a\0", b"zz"];
                for _ in 0..n {
                    pool.push(Bytes(rng.pick(&strs).to_vec()));
                }
                if !small && rng.chance(1, 3) {
                    // a value whose length needs a 2-byte LEB128 header
                    pool.push(Bytes(vec![b'x'; 130 + rng.below(70) as usize]));
                }
                if ct.name.contains("Vec<u8>") && rng.chance(1, 2) {
                    pool.push(Bytes(vec![0xff, 0x00, 0x80]));
                }
            }
            6 => {
                pool = vec![Bool(false), Bool(true)];
            }
            _ => unreachable!(),
        }
        let last = pool[0].clone();
        Gen { ct, pool, last, sorted, small_sums, lo: glo, hi: ghi, wide }
    }
    fn val(&mut self, rng: &mut Rng) -> Val {
        let v = if self.nullable() && rng.chance(1, 4) {
            Null
        } else if rng.chance(1, 2) {
            self.last.clone()
        } else {
            rng.pick(&self.pool).clone()
        };
        self.last = v.clone();
        v
    }
    fn vals(&mut self, rng: &mut Rng, max: usize) -> Vec<Val> {
        let n = match rng.below(10) {
            0 => 0,
            1..=4 => rng.range(1, 3) as usize,
            5..=7 => rng.range(1, 8.min(max as u64).max(1)) as usize,
            _ => rng.range(1, max.max(1) as u64) as usize,
        };
        match rng.below(6) {
            // one long run
            0 => {
                let v = self.val(rng);
                vec![v; n]
            }
            // an arithmetic progression (delta runs)
            1 if self.ct.kind <= 3 => {
                let start = match self.val(rng) {
                    Int(x) => x,
                    _ => 0i128.clamp(self.lo, self.hi),
                };
                let step = rng.below(4) as i128 - 1;
                (0..n).map(|i| Int((start + step * i as i128).clamp(self.lo, self.hi))).collect()
            }
            _ => (0..n).map(|_| self.val(rng)).collect(),
        }
    }
    fn index(&self, rng: &mut Rng, len: usize, mirror: &[Val]) -> usize {
        match rng.below(10) {
            0 => 0,
            1 | 2 => len,
            3 => len.saturating_sub(1),
            4 | 5 if len > 1 => {
                // a run boundary
                let i = rng.below(len as u64) as usize;
                let mut j = i;
                while j + 1 < len && mirror[j + 1] == mirror[i] {
                    j += 1;
                }
                j + 1
            }
            _ => rng.below(len as u64 + 1) as usize,
        }
    }
    fn edit(&mut self, rng: &mut Rng, mirror: &[Val], max_len: usize) -> Edit {
        let len = mirror.len();
        if self.sorted {
            return self.sorted_edit(rng, mirror, max_len);
        }
        let grow = len < max_len;
        let i = self.index(rng, len, mirror);
        let room = len - i;
        let del = match rng.below(8) {
            0..=2 => 0,
            3 | 4 => rng.below(3).min(room as u64) as usize,
            5 => room,
            _ => rng.below(room as u64 + 1) as usize,
        };
        let ins_max = if grow { (max_len / 2).clamp(2, 24) } else { 2 };
        match rng.below(100) {
            0..=29 => Edit::Splice(i, del, self.vals(rng, ins_max)),
            30..=44 => Edit::Insert(i, self.val(rng)),
            45..=52 => Edit::Remove(if len > 0 { i.min(len - 1) } else { 0 }),
            53..=58 => Edit::RemoveN(i, del.min(8)),
            59..=68 => Edit::Push(self.val(rng)),
            69..=71 => Edit::Truncate(if rng.chance(1, 2) { i } else { len - len.min(rng.below(4) as usize) }),
            72 => Edit::Clear,
            73..=78 => Edit::Extend(self.vals(rng, ins_max)),
            79..=86 => {
                if self.ct.fam == Fam::Delta {
                    if rng.chance(1, 3) {
                        Edit::Pop
                    } else {
                        Edit::Splice(i, del, self.vals(rng, ins_max))
                    }
                } else {
                    let k = rng.below(4) as usize;
                    let rs = (0..k)
                        .map(|_| {
                            let c = match rng.below(6) {
                                0 => 0,
                                1 | 2 => 1,
                                3 => rng.range(2, 6) as usize,
                                _ => rng.range(2, if grow { 40 } else { 3 }) as usize,
                            };
                            (c, self.val(rng))
                        })
                        .collect();
                    Edit::SpliceRuns(i, del, rs)
                }
            }
            _ => {
                // a cursor session: ascending seeks, deletes, inserts, replaces (all in range)
                let at = rng.below(len as u64 + 1) as usize;
                let mut ops = vec![];
                let mut orig = at;
                for _ in 0..rng.range(1, 6) {
                    match rng.below(6) {
                        0 | 1 => {
                            let to = orig + rng.below((len - orig) as u64 + 1) as usize;
                            ops.push(Cop::Seek(to));
                            orig = to;
                        }
                        2 => {
                            let n = rng.below((len - orig).min(6) as u64 + 1) as usize;
                            ops.push(Cop::Delete(n));
                            orig += n;
                        }
                        3 => ops.push(Cop::InsertRun(self.val(rng), if grow { rng.below(10) as usize } else { 1 })),
                        4 => {
                            let n = rng.below((len - orig).min(20) as u64 + 1) as usize;
                            ops.push(Cop::Advance(n));
                            orig += n;
                        }
                        _ => {
                            let v = if orig < len && rng.chance(1, 3) { mirror[orig].clone() } else { self.val(rng) };
                            ops.push(Cop::Replace(v));
                            if orig < len {
                                orig += 1;
                            }
                        }
                    }
                }
                Edit::Cursor(at, ops)
            }
        }
    }
    /// edits that keep the whole column sorted (None first), for scope_to_value
    fn sorted_edit(&mut self, rng: &mut Rng, mirror: &[Val], max_len: usize) -> Edit {
        let len = mirror.len();
        if len > 0 && (len >= max_len || rng.chance(1, 4)) {
            let i = rng.below(len as u64) as usize;
            let d = rng.below((len - i).min(5) as u64 + 1) as usize;
            return Edit::RemoveN(i, d);
        }
        let v = self.val(rng);
        let lo = mirror.partition_point(|x| x < &v);
        let hi = mirror.partition_point(|x| x <= &v);
        let i = lo + rng.below((hi - lo) as u64 + 1) as usize;
        let c = match rng.below(4) {
            0 => 1,
            1 => rng.range(1, 4) as usize,
            _ => rng.range(1, 12) as usize,
        };
        if rng.chance(1, 2) {
            Edit::Splice(i, 0, vec![v; c])
        } else {
            Edit::Insert(i, v)
        }
    }
    /// an edit with (probably) out-of-range arguments
    fn oor_edit(&mut self, rng: &mut Rng, mirror: &[Val], huge: bool) -> Edit {
        let len = mirror.len();
        let far = |rng: &mut Rng| -> usize {
            if huge && rng.chance(1, 4) {
                *rng.pick(&[usize::MAX, usize::MAX - 1, usize::MAX / 2, 1 << 40])
            } else {
                len + 1 + rng.below(5) as usize
            }
        };
        let inside = rng.below(len as u64 + 1) as usize;
        match rng.below(12) {
            0 => Edit::Splice(far(rng), 0, self.vals(rng, 3)),
            1 => Edit::Splice(inside, len - inside + 1 + rng.below(3) as usize, self.vals(rng, 3)),
            2 => Edit::Insert(far(rng), self.val(rng)),
            3 => Edit::Remove(if rng.chance(1, 2) { len } else { far(rng) }),
            4 => Edit::RemoveN(far(rng), 0),
            5 => Edit::RemoveN(inside, len - inside + 1 + rng.below(3) as usize),
            6 => Edit::Truncate(if rng.chance(1, 2) { len } else { far(rng) }),
            7 => Edit::Cursor(far(rng), vec![Cop::Delete(1)]),
            8 => {
                // seek backwards
                let at = inside;
                let a = rng.below((len - at) as u64 + 1) as usize;
                Edit::Cursor(at, vec![Cop::Advance(a), Cop::InsertRun(self.val(rng), 1), Cop::Seek((at + a).saturating_sub(1 + rng.below(2) as usize))])
            }
            9 => Edit::Cursor(inside, vec![Cop::Delete(len - inside + rng.below(4) as usize), Cop::InsertRun(self.val(rng), 2), Cop::Delete(3), Cop::Seek(len)]),
            10 => Edit::Cursor(inside, vec![Cop::Seek(far(rng).min(len + 7)), Cop::InsertRun(self.val(rng), 1), Cop::Replace(self.val(rng))]),
            _ => {
                if self.ct.fam == Fam::Delta {
                    Edit::Pop
                } else {
                    Edit::SpliceRuns(inside, len - inside + 1, vec![(2, self.val(rng))])
                }
            }
        }
    }

    fn queries(&mut self, rng: &mut Rng, l: &[Val], n: usize, oor: bool) -> Vec<Query> {
        let len = l.len();
        let mut out = vec![];
        let is_sorted = |w: &[Val]| w.windows(2).all(|p| p[0] <= p[1]);
        for _ in 0..n {
            // windows: in range (a <= b <= len) unless this is the out-of-range stream
            let (a, b) = {
                let a = rng.below(len as u64 + 1) as usize;
                let b = a + rng.below((len - a) as u64 + 1) as usize;
                if rng.chance(1, 3) {
                    (0, len)
                } else {
                    (a, b)
                }
            };
            let (ca, cb) = if oor || rng.chance(1, 6) {
                // iter_range documents clamping: any pair
                (rng.below(len as u64 + 4) as usize, rng.below(len as u64 + 4) as usize)
            } else {
                (a, b)
            };
            let probe = if len > 0 && rng.chance(2, 3) { l[rng.below(len as u64) as usize].clone() } else { self.val(rng) };
            let idx = if oor || rng.chance(1, 5) { rng.below(len as u64 + 3) as usize } else { rng.below(len.max(1) as u64) as usize };
            let total = psum(l, len);
            let q = match self.ct.fam {
                Fam::Plain => match rng.below(9) {
                    0 => Query::Get(idx),
                    1 => Query::Range(ca, cb),
                    2 => Query::Nth(ca, cb, rng.below((cb.saturating_sub(ca)) as u64 + 2) as usize),
                    3 | 4 => Query::Runs(ca, cb),
                    5 | 6 => Query::FindAll(probe, ca, cb),
                    7 => {
                        let (s, e) = win(a, b, len);
                        if is_sorted(&l[s..e]) {
                            Query::Scope(probe, a, b)
                        } else {
                            Query::IsOnly(probe)
                        }
                    }
                    _ => Query::IsOnly(probe),
                },
                Fam::Prefix => {
                    let t = if total > 0 && rng.chance(3, 4) {
                        if self.small_sums || total < (1 << 62) {
                            match rng.below(4) {
                                0 => psum(l, idx),
                                1 => psum(l, idx) + 1,
                                2 => (rng.next() as i128).rem_euclid(total + 2),
                                _ => psum(l, idx).saturating_sub(1).max(0),
                            }
                        } else {
                            psum(l, idx)
                        }
                    } else {
                        *rng.pick(&[0, 1, 2, total, total + 1])
                    };
                    match rng.below(14) {
                        0 => Query::Prefix(idx),
                        1 => Query::Total(idx),
                        2 => Query::SumRange(ca, cb),
                        3 | 4 if self.ct.unsigned_prefix => Query::IdxPrefix(t),
                        5 | 6 if self.ct.unsigned_prefix => Query::IdxTotal(t),
                        7 | 8 if self.ct.unsigned_prefix => Query::AdvPrefix(a, b, (t - psum(l, a)).max(0)),
                        9 => Query::AccGet(idx),
                        10 => Query::AccRange(a, b),
                        11 => Query::AccRuns(a, b),
                        12 => Query::Runs(ca, cb),
                        _ => Query::FindAll(probe, ca, cb),
                    }
                }
                Fam::Delta => {
                    let pv = match &probe {
                        Int(x) => *x,
                        _ => 0i128.clamp(self.lo, self.hi),
                    };
                    // query bounds stay inside the storable domain (README: out-of-domain queries are empty)
                    let lo = (pv - rng.below(3) as i128).clamp(self.lo, self.hi);
                    let hi = (pv + rng.below(4) as i128).clamp(self.lo, self.hi);
                    match rng.below(12) {
                        0 => Query::Get(idx),
                        1 => Query::Range(ca, cb),
                        2 => Query::Nth(a, b, rng.below((b - a) as u64 + 2) as usize),
                        3 | 4 => Query::DeltaRuns(a, b),
                        5 => Query::FindAll(probe, a, b),
                        6 => Query::FindValue(pv),
                        7 => Query::FindFirst(pv),
                        8 => Query::FindRange(lo, hi.min(I63 - 1) + 1),
                        9 => Query::ScanRange(a, b, lo, hi),
                        _ => {
                            let (s, e) = win(a, b, len);
                            if is_sorted(&l[s..e]) {
                                Query::Scope(probe, a, b)
                            } else {
                                Query::FindValue(pv)
                            }
                        }
                    }
                }
            };
            out.push(q);
        }
        out
    }
}

// ------------------------------------------------------------------------------------------ running one program
static SEEN: std::sync::Mutex<Option<std::collections::HashMap<String, u32>>> = std::sync::Mutex::new(None);
/// report a failure, at most 3 times per signature (one defect must not crowd out the others)
fn fail(rep: &mut Report, sig: String, what: &str, replay: serde_json::Value) {
    let mut g = SEEN.lock().unwrap();
    let m = g.get_or_insert_with(Default::default);
    let c = m.entry(sig.clone()).or_insert(0);
    *c += 1;
    rep.count("failures_all");
    if *c <= 3 {
        rep.fail(&["C34"], &sig, what, replay);
    }
}

struct ProgCfg {
    steps: usize,
    max_len: usize,
    sorted: bool,
    oor: bool,
    huge: bool,
    model: bool,
    nq: usize,
}

fn short(vs: &[Val]) -> serde_json::Value {
    json!(vs.iter().take(60).map(|v| format!("{:?}", v)).collect::<Vec<_>>())
}

// build a column from values under the panic guard: a panic while building is a finding (a Vec accepts any values of
// the documented domain), not a crash of the family.  On a panic the column is replaced by an empty one and false returned.
fn rebuild_guarded(rep: &mut Report, col: &mut Box<dyn Driver>, ct: &CT, ms: usize, vals: &[Val]) -> bool {
    let r = guard(|| col.rebuild(vals));
    match r {
        Ok(()) => true,
        Err(p) => {
            fail(rep, format!("hexcol|panic|{}|rebuild|{}", p.signature(), ct.name),
                &format!("{}: building a column from {} values panicked: {} at {}", ct.name, vals.len(), p.message, p.location),
                json!({"type": ct.name, "max_segments": ms, "values": short(vals), "len": vals.len()}));
            *col = make(ct, ms);
            false
        }
    }
}

fn run_program(rng: &mut Rng, ct: &CT, ms: usize, cfg: &ProgCfg, rep: &mut Report, cw: &mut CaseWriter) {
    let mut g = Gen::new(ct, rng, cfg.sorted, cfg.model);
    let mut col = make(ct, ms);
    let mut mirror: Vec<Val> = vec![];
    // class of the input for finding signatures: delta programs whose values spread over the whole 2^63-wide domain
    let label = match ct.fam { Fam::Plain => "Plain", Fam::Prefix => "Prefix", Fam::Delta => if g.wide { "Delta-wide" } else { "Delta" } };
    let stream = if cfg.oor { "oor" } else if cfg.sorted { "sorted" } else { "main" };
    // initial contents (through rebuild = from_values / one splice)
    if rng.chance(1, 2) {
        let mut init = g.vals(rng, cfg.max_len / 2);
        if cfg.sorted {
            init.sort();
        }
        mirror = init;
        if !rebuild_guarded(rep, &mut col, ct, ms, &mirror) {
            return;
        }
    }
    let init = mirror.clone();
    let mut log: Vec<String> = vec![];
    let mut coq_steps: Vec<String> = vec![];
    let mut model_ok = cfg.model;
    let mut failed = false;
    let mut max_slabs = 0usize;
    let mut panics_expected = 0u64;
    for step_no in 0..cfg.steps {
        let e = if cfg.oor && rng.chance(1, 3) { g.oor_edit(rng, &mirror, cfg.huge) } else { g.edit(rng, &mirror, cfg.max_len) };
        if e.max_index() > 100_000 {
            model_ok = false;
        }
        log.push(format!("{:?}", e));
        if std::env::var("HEXCOL_DEBUG").is_ok() {
            eprintln!("{} ms={} len={} {:?}", ct.name, ms, mirror.len(), e);
        }
        let replay = |log: &Vec<String>, extra: serde_json::Value| {
            let from = log.len().saturating_sub(40);
            json!({"type": ct.name, "max_segments": ms, "stream": stream, "init": short(&init), "init_len": init.len(),
                   "edits_total": log.len(), "last_edits": log[from..].to_vec(), "detail": extra})
        };
        let mut supported = true;
        let r = guard(|| {
            supported = col.apply(&e);
        });
        if !supported {
            log.pop();
            continue;
        }
        rep.count(&format!("edit_{}", e.kind()));
        let before = mirror.clone();
        let spec_panic = spec_apply(&mut mirror, &e, ct.fam == Fam::Delta);
        let mut rebuilt = false;
        match (&r, spec_panic) {
            (Ok(()), false) => {}
            (Err(_), true) => {
                panics_expected += 1;
                rep.count("expected_panic");
                rebuilt = true;
            }
            (Err(p), false) => {
                fail(rep, format!("hexcol|panic|{}|{}|{}|{}", p.signature(), label, e.kind(), ct.name),
                    &format!("{}: {} panicked where a Vec does not: {} at {}", ct.name, e.kind(), p.message, p.location),
                    replay(&log, json!({"before": short(&before), "before_len": before.len()})));
                failed = true;
                rebuilt = true;
            }
            (Ok(()), true) => {
                fail(rep, format!("hexcol|no-panic|{}|{}", ct.name, e.kind()),
                    &format!("{}: {} with out-of-range arguments returned instead of panicking (len {})", ct.name, e.kind(), before.len()),
                    replay(&log, json!({"before_len": before.len()})));
                failed = true;
                rebuilt = true;
            }
        }
        let st = if r.is_ok() { 0 } else { 3 };
        if rebuilt {
            col = make(ct, ms);
            if !rebuild_guarded(rep, &mut col, ct, ms, &mirror) {
                return;
            }
        }
        // contents after EVERY edit
        let got = guard(|| (col.len(), col.to_vec()));
        let mut impl_vec: Option<Vec<Val>> = None;
        match got {
            Ok((n, v)) => {
                if n != mirror.len() || v != mirror {
                    if !rebuilt {
                        fail(rep, format!("hexcol|contents|{}|{}", ct.name, e.kind()),
                            &format!("{}: after {} the column (len {}) differs from the Vec (len {})", ct.name, e.kind(), n, mirror.len()),
                            replay(&log, json!({"before": short(&before), "got": short(&v), "want": short(&mirror)})));
                        failed = true;
                    } else {
                        fail(rep, format!("hexcol|rebuild|{}", ct.name),
                            &format!("{}: a column built from values differs from them", ct.name),
                            replay(&log, json!({"got": short(&v), "want": short(&mirror)})));
                        failed = true;
                    }
                    col = make(ct, ms);
                    if !rebuild_guarded(rep, &mut col, ct, ms, &mirror) {
                return;
            }
                    model_ok = false;
                } else {
                    impl_vec = Some(v);
                }
            }
            Err(p) => {
                fail(rep, format!("hexcol|panic|{}|{}|to_vec|{}", p.signature(), label, ct.name),
                    &format!("{}: to_vec panicked after {}: {} at {}", ct.name, e.kind(), p.message, p.location),
                    replay(&log, json!({"before": short(&before)})));
                failed = true;
                col = make(ct, ms);
                if !rebuild_guarded(rep, &mut col, ct, ms, &mirror) {
                return;
            }
                model_ok = false;
            }
        }
        if guard(|| col.invariants()).is_err() {
            rep.count("check_invariants_failed");
        }
        max_slabs = max_slabs.max(col.slabs());
        // queries
        let qs = g.queries(rng, &mirror, cfg.nq, cfg.oor);
        let mut coq_q: Vec<String> = vec![];
        if let Some(v) = &impl_vec {
            if model_ok && (step_no % 3 == 2 || step_no + 1 == cfg.steps || (mirror.len() <= 8 && cfg.model)) {
                coq_q.push(format!("(QVec,{})", coq_vals(v)));
            } else {
                coq_q.push(format!("(QLen,[I {}])", v.len()));
            }
        }
        for q in &qs {
            let ans = guard(|| col.query(q));
            match ans {
                Ok(None) => {}
                Ok(Some(a)) => {
                    rep.count(&format!("query_{}", q.kind()));
                    let mut a_cmp = a.clone();
                    // scan_to_range also returns the value: checked directly, the Coq query carries the position
                    if let Query::ScanRange(..) = q {
                        if a.len() == 2 {
                            let pos = if let Int(p) = a[0] { p as usize } else { usize::MAX };
                            if mirror.get(pos) != Some(&a[1]) {
                                a_cmp = vec![Null];
                            } else {
                                a_cmp = vec![a[0].clone()];
                            }
                        }
                    }
                    let want = spec_answer(q, &mirror);
                    if a_cmp != want {
                        fail(rep, format!("hexcol|query|{}|{}", ct.name, q.kind()),
                            &format!("{}: {:?} disagrees with the Vec", ct.name, q),
                            replay(&log, json!({"contents": short(&mirror), "len": mirror.len(), "query": format!("{:?}", q),
                                                "got": short(&a), "want": short(&want)})));
                        failed = true;
                    }
                    if coq_q.len() < 3 && a_cmp.len() <= 30 {
                        coq_q.push(format!("({},{})", q.coq(), coq_vals(&a_cmp)));
                    }
                }
                Err(p) => {
                    fail(rep, format!("hexcol|panic|{}|{}|{}|{}", p.signature(), label, q.kind(), ct.name),
                        &format!("{}: query {:?} panicked: {} at {}", ct.name, q, p.message, p.location),
                        replay(&log, json!({"contents": short(&mirror), "len": mirror.len(), "query": format!("{:?}", q)})));
                    failed = true;
                }
            }
        }
        coq_steps.push(format!("({},{},{})", e.coq(ct.fam == Fam::Delta), st, coq_list(&coq_q)));
    }
    let nontrivial = log.len() >= 5 && (max_slabs >= 2 || cfg.oor && panics_expected > 0);
    let key = fnv(format!("{}|{}|{:?}|{:?}", ct.name, ms, init, log).as_bytes());
    rep.case(if nontrivial { Some(key) } else { None });
    rep.count(&format!("programs_{}", stream));
    rep.add("edits", log.len() as u64);
    rep.add("max_slabs_sum", max_slabs as u64);
    if max_slabs >= 2 {
        rep.count("programs_multi_slab");
    }
    rep.sample(json!({"type": ct.name, "max_segments": ms, "stream": stream, "edits": log.len(), "final_len": mirror.len(), "max_slabs": max_slabs}));
    if cfg.model && model_ok && !failed {
        let term = format!("chk_col_prog {} {} {}", ct.kind, coq_vals(&init), coq_list(&coq_steps));
        cw.push(term, json!({"kind": format!("{}|{}", ct.name, stream), "type": ct.name, "max_segments": ms,
                             "init": short(&init), "edits": log}));
    }
}

// ------------------------------------------------------------------------------------------ RawColumn
// The mirror is a list of VALUES (byte strings); every splice happens at value boundaries, which is
// the contract under which RawColumn::get may be used for a value's byte range.
fn run_raw(rng: &mut Rng, ms: usize, steps: usize, oor: bool, model: bool, rep: &mut Report, cw: &mut CaseWriter) {
    let mut col = RawColumn::with_max_segments(ms);
    let mut vals: Vec<Vec<u8>> = vec![];
    let mut log: Vec<String> = vec![];
    let mut coq_steps: Vec<String> = vec![];
    let mut failed = false;
    let bytes_of = |vals: &Vec<Vec<u8>>| -> Vec<u8> { vals.iter().flatten().copied().collect() };
    let coq_b = |b: &[u8]| coq_list(&b.iter().map(|x| format!("I {}", x)).collect::<Vec<_>>());
    for _ in 0..steps {
        let n = vals.len();
        let flat_len: usize = vals.iter().map(|v| v.len()).sum();
        let vi = rng.below(n as u64 + 1) as usize;
        let dk = match rng.below(4) {
            0 | 1 => 0,
            2 => rng.below((n - vi).min(3) as u64 + 1) as usize,
            _ => rng.below((n - vi) as u64 + 1) as usize,
        };
        let k = rng.below(4) as usize;
        let newv: Vec<Vec<u8>> = (0..k)
            .map(|_| {
                let l = match rng.below(5) {
                    0 => 0,
                    1 | 2 => rng.range(1, 4) as usize,
                    3 => rng.range(1, 12) as usize,
                    _ => rng.range(1, if model { 6 } else { 3 * ms.min(40) as u64 }) as usize,
                };
                rng.bytes(l)
            })
            .collect();
        let mut off: usize = vals[..vi].iter().map(|v| v.len()).sum();
        let mut del: usize = vals[vi..vi + dk].iter().map(|v| v.len()).sum();
        let mut spec_panic = false;
        if oor && rng.chance(1, 4) {
            if rng.chance(1, 2) {
                off = flat_len + 1 + rng.below(3) as usize;
            } else {
                del = flat_len - off + 1 + rng.below(3) as usize;
            }
            spec_panic = true;
        }
        let use_try = rng.chance(1, 3);
        let chunks = rng.chance(1, 2);
        log.push(format!("splice off={} del={} new={:?} try={} chunks={}", off, del, newv, use_try, chunks));
        let flat_new: Vec<u8> = newv.iter().flatten().copied().collect();
        let r = guard(|| {
            if use_try {
                if chunks {
                    col.try_splice(off, del, newv.iter()).is_ok()
                } else {
                    col.try_splice_slice(off, del, &flat_new).is_ok()
                }
            } else {
                if chunks {
                    col.splice(off, del, newv.iter());
                } else {
                    col.splice_slice(off, del, &flat_new);
                }
                true
            }
        });
        rep.count("edit_raw_splice");
        let replay = |log: &Vec<String>| json!({"type": "RawColumn", "max_segments": ms, "edits": log[log.len().saturating_sub(40)..].to_vec()});
        let refused = match &r {
            Ok(true) => false,
            Ok(false) => true,
            Err(p) => {
                if use_try || !spec_panic {
                    fail(rep, format!("hexcol|panic|{}|Raw|splice", p.signature()),
                        &format!("RawColumn splice panicked: {} at {}", p.message, p.location), replay(&log));
                    failed = true;
                }
                true
            }
        };
        if refused != spec_panic && r.is_ok() {
            rep.fail(&["C34"], "hexcol|no-panic|RawColumn|splice", "RawColumn: out-of-range splice accepted, or in-range splice refused", replay(&log));
            failed = true;
        }
        if spec_panic {
            rep.count("expected_panic");
        } else {
            vals.splice(vi..vi + dk, newv.clone());
        }
        if refused != spec_panic || r.is_err() {
            // continue from a fresh column holding the mirror
            col = RawColumn::with_max_segments(ms);
            let mut at = 0;
            for v in &vals {
                col.splice_slice(at, 0, v);
                at += v.len();
            }
        }
        let flat = bytes_of(&vals);
        let got = guard(|| (col.len(), col.save()));
        match got {
            Ok((n, b)) => {
                if n != flat.len() || b != flat {
                    rep.fail(&["C34"], "hexcol|contents|RawColumn|splice", "RawColumn: bytes differ from the Vec<u8> after a splice", replay(&log));
                    failed = true;
                    col = RawColumn::load(&flat).unwrap();
                }
            }
            Err(p) => {
                fail(rep, format!("hexcol|panic|{}|Raw|save", p.signature()), "RawColumn::save panicked", replay(&log));
                failed = true;
            }
        }
        // every value is readable at its byte range (get + sequential take), plus out-of-range gets
        let mut coq_q = vec![format!("(QVec,{})", coq_b(&flat))];
        let r = guard(|| {
            let mut at = 0;
            let mut it = col.iter();
            let mut bad = None;
            for (i, v) in vals.iter().enumerate() {
                if col.get(at..at + v.len()) != &v[..] || it.take(v.len()) != &v[..] {
                    bad = Some(i);
                }
                at += v.len();
            }
            bad
        });
        rep.count("query_raw_get");
        match r {
            Ok(None) => {}
            Ok(Some(i)) => {
                rep.fail(&["C34"], "hexcol|query|RawColumn|get", &format!("RawColumn: value {} read back differently", i), replay(&log));
                failed = true;
            }
            Err(p) => {
                fail(rep, format!("hexcol|panic|{}|Raw|get", p.signature()),
                    &format!("RawColumn::get / take of a value spliced at value boundaries panicked: {}", p.message), replay(&log));
                failed = true;
            }
        }
        if !vals.is_empty() {
            let i = rng.below(vals.len() as u64) as usize;
            let at: usize = vals[..i].iter().map(|v| v.len()).sum();
            coq_q.push(format!("(QRange {} {},{})", at, at + vals[i].len(), coq_b(&vals[i])));
        }
        let bad_get = guard(|| col.try_get(flat.len()..flat.len() + 1).is_err() && col.try_get(1..0).is_err());
        if !matches!(bad_get, Ok(true)) {
            rep.fail(&["C34"], "hexcol|query|RawColumn|try_get-oor", "RawColumn::try_get accepted an out-of-range / inverted range", replay(&log));
            failed = true;
        }
        let st = if spec_panic { 3 } else { 0 };
        coq_steps.push(format!("(ESplice {} {} {},{},{})", off, del, coq_b(&flat_new), st, coq_list(&coq_q)));
    }
    rep.case(if log.len() >= 5 { Some(fnv(format!("raw|{}|{:?}", ms, log).as_bytes())) } else { None });
    rep.count(if oor { "programs_raw_oor" } else { "programs_raw" });
    rep.add("edits", log.len() as u64);
    if model && !failed {
        cw.push(format!("chk_col_prog 7 [] {}", coq_list(&coq_steps)),
            json!({"kind": format!("RawColumn|{}", if oor { "oor" } else { "main" }), "type": "RawColumn", "max_segments": ms, "edits": log}));
    }
}

// ------------------------------------------------------------------------------------------ entry
pub fn run(rng: &mut Rng, tier: &str, out: &str) -> Report {
    let mut rep = Report::new("hexcol");
    let mut cw = CaseWriter::new(out, "hexcol", HEADER, 8);
    let thorough = tier == "thorough";
    if std::env::var("HEXCOL_PROBE").is_ok() {
        probe();
        std::process::exit(0);
    }
    if std::env::var("HEXCOL_DEBUG").is_ok() {
        std::panic::set_hook(Box::new(|info| eprintln!("PANIC {}", info)));
    }
    let seg_choices: [usize; 8] = [2, 3, 4, 5, 8, 16, 64, 4];
    // per type: big direct programs, small model programs, sorted programs, out-of-range programs
    let (n_big, n_model, n_sorted, n_oor) = if thorough { (600, 24, 24, 40) } else { (60, 4, 4, 6) };
    for ct in TYPES {
        for i in 0..n_big {
            let ms = *rng.pick(&seg_choices);
            let steps = if thorough && i % 10 == 0 { 600 } else { rng.range(60, 200) as usize };
            let cfg = ProgCfg { steps, max_len: if i % 3 == 0 { 1500 } else { 300 }, sorted: false, oor: false, huge: false, model: false, nq: 4 };
            run_program(rng, ct, ms, &cfg, &mut rep, &mut cw);
        }
        for _ in 0..n_model {
            let ms = *rng.pick(&seg_choices[..5]);
            let cfg = ProgCfg { steps: rng.range(6, 15) as usize, max_len: 20, sorted: false, oor: false, huge: false, model: true, nq: 4 };
            run_program(rng, ct, ms, &cfg, &mut rep, &mut cw);
        }
        for i in 0..n_sorted {
            let ms = *rng.pick(&seg_choices[..6]);
            let model = i % 2 == 0;
            let cfg = ProgCfg { steps: if model { 12 } else { 150 }, max_len: if model { 20 } else { 400 }, sorted: true, oor: false, huge: false, model, nq: 4 };
            run_program(rng, ct, ms, &cfg, &mut rep, &mut cw);
        }
        for i in 0..n_oor {
            let ms = *rng.pick(&seg_choices[..6]);
            let model = i % 2 == 0;
            let cfg = ProgCfg { steps: if model { rng.range(6, 14) } else { rng.range(10, 60) } as usize, max_len: if model { 16 } else { 120 }, sorted: false, oor: true, huge: !model, model, nq: 3 };
            run_program(rng, ct, ms, &cfg, &mut rep, &mut cw);
        }
    }
    let n_raw = if thorough { 400 } else { 40 };
    for i in 0..n_raw {
        let ms = *rng.pick(&[1usize, 2, 3, 8, 16, 64, 4096]);
        let model = i % 3 == 0;
        run_raw(rng, ms, if model { 10 } else { 120 }, i % 4 == 1, model, &mut rep, &mut cw);
    }
    rep.model_cases = cw.total as u64;
    cw.finish();
    rep
}

// ------------------------------------------------------------------------------------------ probes (HEXCOL_PROBE=1): minimal triggers of the reported defects
pub fn probe() {
    let a: u64 = 1 << 62;
    // A: scope_to_value on a single in-domain value above 2^62
    let r = guard(|| {
        let c = DeltaColumn::<u64>::from_values(vec![a + 1]);
        c.scope_to_value(a + 1, 0..1)
    });
    println!("A scope_to_value([2^62+1], 2^62+1) -> {:?}", r.map_err(|p| format!("{} at {}", p.message, p.location)));
    // C: find_by_value(i64::MAX)
    let r = guard(|| {
        let c = DeltaColumn::<u64>::from_values(vec![i64::MAX as u64]);
        c.find_by_value(i64::MAX as u64).collect::<Vec<_>>()
    });
    println!("C find_by_value([2^63-1], 2^63-1) -> {:?}", r.map_err(|p| format!("{} at {}", p.message, p.location)));
    // D: find_by_value of the largest value of a column spanning the whole 2^63-wide domain
    let r = guard(|| {
        let c = DeltaColumn::<i64>::from_values(vec![-(1i64 << 62), (1i64 << 62) - 1]);
        c.find_by_value((1i64 << 62) - 1).collect::<Vec<_>>()
    });
    println!("D find_by_value([-2^62, 2^62-1], 2^62-1) -> {:?}", r.map_err(|p| format!("{} at {}", p.message, p.location)));
    // B': the all-builds panic
    let r = guard(|| {
        let pat = [1u64, 0, 0, 1, 0, 0, 1, 1, 0, 0, 1, 0, 1, 1, 0, 0, 1];
        let mut c = DeltaColumn::<u64>::with_max_segments(16);
        c.splice(0, 0, pat.iter().map(|b| b * a).collect::<Vec<u64>>());
        c.remove_n(13, 2);
        c.to_vec().len()
    });
    println!("B' ms=16 remove_n(13,2) -> {:?}", r.map_err(|p| format!("{} at {}", p.message, p.location)));
    if std::env::var("HEXCOL_PROBE").map(|v| v == "short").unwrap_or(false) {
        return;
    }
    // B: random search + shrink: values in {0, A}, one remove_n
    let mut rng = Rng::new(7);
    let try_case = |ms: usize, vals: &Vec<u64>, i: usize, k: usize| -> Option<String> {
        guard(|| {
            let mut c = DeltaColumn::<u64>::with_max_segments(ms);
            c.splice(0, 0, vals.clone());
            c.remove_n(i, k);
            c.to_vec()
        })
        .err()
        .map(|p| format!("{} at {}", p.message, p.location))
    };
    for ms in [2usize, 4, 16, 64] {
        let mut best: Option<(Vec<u64>, usize, usize, String)> = None;
        for _ in 0..20000 {
            let n = rng.range(2, 400) as usize;
            let vals: Vec<u64> = (0..n).map(|_| if rng.chance(1, 2) { a } else { 0 }).collect();
            let i = rng.below(n as u64) as usize;
            let k = rng.range(1, (n - i) as u64) as usize;
            if let Some(m) = try_case(ms, &vals, i, k) {
                if best.as_ref().map(|b| b.0.len() > n).unwrap_or(true) {
                    best = Some((vals, i, k, m));
                }
            }
        }
        if let Some((mut vals, mut i, mut k, m)) = best {
            // shrink: drop single elements while it still fails
            let mut changed = true;
            while changed {
                changed = false;
                let mut j = 0;
                while j < vals.len() {
                    let mut v2 = vals.clone();
                    v2.remove(j);
                    let (i2, k2) = if j < i { (i - 1, k) } else if j < i + k { (i, k - 1) } else { (i, k) };
                    if k2 >= 1 && i2 + k2 <= v2.len() && try_case(ms, &v2, i2, k2).is_some() {
                        vals = v2;
                        i = i2;
                        k = k2;
                        changed = true;
                    } else {
                        j += 1;
                    }
                }
            }
            println!("B ms={} n={} vals={:?} remove_n({}, {}) -> {}", ms, vals.len(), vals.iter().map(|v| if *v == 0 { 0 } else { 1 }).collect::<Vec<_>>(), i, k, m);
        } else {
            println!("B ms={}: no failing case found", ms);
        }
    }
}
