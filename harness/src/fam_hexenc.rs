// Family "hexenc": C35 — hexane column encodings (RLE over u64 / i64 / String / Vec<u8>, nullable
// variants, delta, bool): save is byte-equal to the model's canonical encoding, load accepts /
// rejects / decodes exactly as the model loader, and load(save(load b)) == load b.
use crate::util::*;
use hexane::{Codec, Column, ColumnValueRef, DeltaColumn, Leb128};
use serde_json::{json, Value};

const HEADER: &str = "From AM Require Import Base.Prelude Exec.HexencExec.\nLocal Open Scope N_scope.\n";
const RUN_CAP: usize = 6000;

/// what a successful load looks like from outside
pub struct Loaded<X> {
    pub len: u128,
    pub runs: Vec<(u128, Option<X>)>, // adjacent equal runs merged; truncated at RUN_CAP
    pub resaved: Vec<u8>,
}

type Edit<X> = (usize, usize, Vec<Option<X>>);

pub struct Ops<X: 'static> {
    pub name: &'static str, // checker suffix: u64 / i64 / str / blob
    pub nullable: bool,
    pub build: fn(&[Option<X>], &[Edit<X>]) -> Vec<u8>,
    pub load: fn(&[u8]) -> Result<Loaded<X>, ()>,
    pub gen: fn(&mut Rng) -> X,
    pub coq: fn(&X) -> String,
    pub js: fn(&X) -> Value,
}

/// panic signature with the toolchain hash of /rustc/<hash>/library/... paths erased
fn stable_sig(p: &PanicInfo) -> String {
    let s = p.signature();
    if let Some(i) = s.find("/rustc/") {
        if let Some(j) = s[i..].find("/library/") {
            return format!("{}rustc{}", &s[..i], &s[i + j..]);
        }
    }
    s
}

fn merge_push<X: PartialEq>(out: &mut Vec<(u128, Option<X>)>, count: u128, v: Option<X>) {
    if count == 0 {
        return;
    }
    if let Some(last) = out.last_mut() {
        if last.1 == v {
            last.0 += count;
            return;
        }
    }
    out.push((count, v));
}

macro_rules! rle_ops {
    ($build:ident, $load:ident, $elem:ty, $x:ty, $to_elem:expr, $from_elem:expr) => {
        fn $build(vals: &[Option<$x>], edits: &[Edit<$x>]) -> Vec<u8> {
            let to_elem = $to_elem;
            let mut col = Column::<$elem>::from_values(vals.iter().map(|v| to_elem(v)).collect());
            for (idx, del, ins) in edits {
                let ins: Vec<$elem> = ins.iter().map(|v| to_elem(v)).collect();
                col.splice(*idx, *del, ins);
            }
            col.save()
        }
        fn $load(b: &[u8]) -> Result<Loaded<$x>, ()> {
            let from_elem = $from_elem;
            let col = Column::<$elem>::load(b).map_err(|_| ())?;
            let mut runs: Vec<(u128, Option<$x>)> = vec![];
            for r in col.iter().runs().take(RUN_CAP) {
                let e: $elem = <$elem as ColumnValueRef>::to_owned(r.value);
                merge_push(&mut runs, r.count as u128, from_elem(e));
            }
            Ok(Loaded { len: col.len() as u128, runs, resaved: col.save() })
        }
    };
}

rle_ops!(build_u64, load_u64, u64, u64, |v: &Option<u64>| v.unwrap(), |e: u64| Some(e));
rle_ops!(build_ou64, load_ou64, Option<u64>, u64, |v: &Option<u64>| *v, |e: Option<u64>| e);
rle_ops!(build_i64, load_i64, i64, i64, |v: &Option<i64>| v.unwrap(), |e: i64| Some(e));
rle_ops!(build_oi64, load_oi64, Option<i64>, i64, |v: &Option<i64>| *v, |e: Option<i64>| e);
rle_ops!(build_str, load_str, String, Vec<u8>,
    |v: &Option<Vec<u8>>| String::from_utf8(v.clone().unwrap()).unwrap(), |e: String| Some(e.into_bytes()));
rle_ops!(build_ostr, load_ostr, Option<String>, Vec<u8>,
    |v: &Option<Vec<u8>>| v.clone().map(|b| String::from_utf8(b).unwrap()), |e: Option<String>| e.map(String::into_bytes));
rle_ops!(build_blob, load_blob, Vec<u8>, Vec<u8>, |v: &Option<Vec<u8>>| v.clone().unwrap(), |e: Vec<u8>| Some(e));
rle_ops!(build_oblob, load_oblob, Option<Vec<u8>>, Vec<u8>, |v: &Option<Vec<u8>>| v.clone(), |e: Option<Vec<u8>>| e);

fn gen_u64(rng: &mut Rng) -> u64 {
    const POOL: [u64; 14] = [0, 1, 2, 63, 64, 127, 128, 255, 16383, 16384, u32::MAX as u64, i64::MAX as u64, 1 << 63, u64::MAX];
    match rng.below(4) {
        0 => *rng.pick(&POOL),
        1 => rng.next(),
        _ => rng.below(4),
    }
}
fn gen_i64(rng: &mut Rng) -> i64 {
    const POOL: [i64; 14] = [0, 1, -1, 63, 64, -64, -65, 8191, 8192, -8192, -8193, i64::MAX, i64::MIN, i64::MIN + 1];
    match rng.below(4) {
        0 => *rng.pick(&POOL),
        1 => rng.next() as i64,
        _ => rng.below(5) as i64 - 2,
    }
}
fn gen_str(rng: &mut Rng) -> Vec<u8> {
    const POOL: [&str; 9] = ["", "a", "b", "abc", "\u{e9}", "\u{6f22}", "\u{1f600}", "e\u{301}", "\u{7ff}\u{800}\u{ffff}\u{10000}\u{10ffff}"];
    match rng.below(8) {
        0 => {
            let n = 120 + rng.below(20) as usize; // two-byte length prefix
            (0..n).map(|i| b'a' + ((i as u8) % 3)).collect()
        }
        1 => {
            let n = rng.below(6) as usize;
            (0..n).map(|_| *rng.pick(&POOL)).collect::<String>().into_bytes()
        }
        _ => rng.pick(&POOL).as_bytes().to_vec(),
    }
}
fn gen_blob(rng: &mut Rng) -> Vec<u8> {
    match rng.below(8) {
        0 => vec![0xff],
        1 => vec![0xc0, 0x80],
        2 => vec![0u8; 128 + rng.below(10) as usize],
        3 => {
            let n = rng.below(6) as usize;
            rng.bytes(n)
        }
        _ => vec![rng.below(3) as u8; rng.below(3) as usize],
    }
}
fn coq_u64(x: &u64) -> String { format!("{}", x) }
fn coq_i64(x: &i64) -> String { coq_z(*x as i128) }
fn coq_vec(x: &Vec<u8>) -> String { coq_bytes(x) }
fn js_u64(x: &u64) -> Value { json!(x.to_string()) }
fn js_i64(x: &i64) -> Value { json!(x.to_string()) }
fn js_vec(x: &Vec<u8>) -> Value { json!(hex(x)) }

fn coq_ovals<X>(vals: &[Option<X>], coq: fn(&X) -> String) -> String {
    coq_list(&vals.iter().map(|v| coq_opt(v.as_ref().map(coq))).collect::<Vec<_>>())
}
fn coq_runs<X>(runs: &[(u128, Option<X>)], coq: fn(&X) -> String) -> String {
    coq_list(&runs.iter().map(|(c, v)| format!("({},{})", c, coq_opt(v.as_ref().map(coq)))).collect::<Vec<_>>())
}
fn js_ovals<X>(vals: &[Option<X>], js: fn(&X) -> Value) -> Value {
    Value::Array(vals.iter().map(|v| v.as_ref().map(js).unwrap_or(Value::Null)).collect())
}

/// value lists: runs, alternation, nulls, extremes
fn gen_vals<X: Clone>(rng: &mut Rng, n: usize, nullable: bool, gen: fn(&mut Rng) -> X) -> Vec<Option<X>> {
    let mut out: Vec<Option<X>> = Vec::with_capacity(n);
    let mode = rng.below(6);
    let a = gen(rng);
    let b = gen(rng);
    let alphabet: Vec<X> = (0..1 + rng.below(4)).map(|_| gen(rng)).collect();
    while out.len() < n {
        let null = nullable && rng.chance(1, 5);
        match mode {
            0 => {
                // runs of random length
                let m = if rng.chance(1, 6) { 70 } else { 6 };
                let k = 1 + rng.below(m) as usize;
                let v = if null { None } else { Some(rng.pick(&alphabet).clone()) };
                for _ in 0..k {
                    out.push(v.clone());
                }
            }
            1 => {
                out.push(Some(a.clone()));
                out.push(if null { None } else { Some(b.clone()) });
            }
            2 => out.push(if null { None } else { Some(gen(rng)) }),
            3 => out.push(if null { None } else { Some(rng.pick(&alphabet).clone()) }),
            4 => {
                // literal stretch then a run
                for _ in 0..rng.below(5) {
                    out.push(Some(gen(rng)));
                }
                let k = 2 + rng.below(4) as usize;
                let v = if null { None } else { Some(a.clone()) };
                for _ in 0..k {
                    out.push(v.clone());
                }
            }
            _ => {
                let v = if null { None } else { Some(a.clone()) };
                let k = n - out.len();
                for _ in 0..k {
                    out.push(v.clone());
                }
            }
        }
    }
    out.truncate(n);
    out
}

fn gen_edits<X: Clone>(rng: &mut Rng, len0: usize, nullable: bool, gen: fn(&mut Rng) -> X) -> Vec<Edit<X>> {
    let mut len = len0;
    let mut out = vec![];
    for _ in 0..rng.below(8) {
        let idx = rng.below(len as u64 + 1) as usize;
        let del = (rng.below(6) as usize).min(len - idx);
        let k = rng.below(7) as usize;
        let ins = gen_vals(rng, k, nullable, gen);
        len = len - del + ins.len();
        out.push((idx, del, ins));
    }
    out
}

fn apply_edits<X: Clone>(vals: &[Option<X>], edits: &[Edit<X>]) -> Vec<Option<X>> {
    let mut v = vals.to_vec();
    for (idx, del, ins) in edits {
        v.splice(*idx..*idx + *del, ins.iter().cloned());
    }
    v
}

fn expand_runs<X: Clone>(runs: &[(u128, Option<X>)], cap: usize) -> Option<Vec<Option<X>>> {
    let total: u128 = runs.iter().map(|r| r.0).sum();
    if total > cap as u128 {
        return None;
    }
    let mut out = vec![];
    for (c, v) in runs {
        for _ in 0..*c {
            out.push(v.clone());
        }
    }
    Some(out)
}

pub fn uleb(out: &mut Vec<u8>, mut v: u64) {
    loop {
        let b = (v & 0x7f) as u8;
        v >>= 7;
        if v == 0 {
            out.push(b);
            break;
        }
        out.push(b | 0x80);
    }
}
pub fn sleb(out: &mut Vec<u8>, mut v: i64) {
    loop {
        let b = (v & 0x7f) as u8;
        v >>= 7;
        let done = (v == 0 && b & 0x40 == 0) || (v == -1 && b & 0x40 != 0);
        if done {
            out.push(b);
            break;
        }
        out.push(b | 0x80);
    }
}
/// an over-long (padded) variant of a LEB: continuation bits on, then sign-preserving filler
fn pad_leb(enc: &mut Vec<u8>, negative: bool, extra: usize) {
    let n = enc.len();
    if n == 0 || n + extra > 10 {
        return;
    }
    enc[n - 1] |= 0x80;
    for i in 0..extra {
        let last = i + 1 == extra;
        let fill = if negative { 0x7f } else { 0x00 };
        enc.push(if last { fill } else { fill | 0x80 });
    }
}

/// hand-built segment streams with the features the loader validates
fn gen_structured<X: Clone>(rng: &mut Rng, ops: &Ops<X>, pack: fn(&X, &mut Vec<u8>)) -> Vec<u8> {
    let mut out = vec![];
    let m = if rng.chance(1, 8) { 45 } else { 5 };
    let nseg = 1 + rng.below(m);
    let alphabet: Vec<X> = (0..3).map(|_| (ops.gen)(rng)).collect();
    for _ in 0..nseg {
        let mut hdr = vec![];
        match rng.below(12) {
            0..=3 => {
                // repeat run
                let c: i64 = match rng.below(10) {
                    0 => 1,
                    1 => i64::MAX,
                    2 => (1 << 62) + rng.below(3) as i64,
                    _ => 2 + rng.below(5) as i64,
                };
                sleb(&mut hdr, c);
                if rng.chance(1, 6) {
                    pad_leb(&mut hdr, false, 1 + rng.below(3) as usize);
                }
                out.extend(hdr);
                pack(rng.pick(&alphabet), &mut out);
            }
            4..=7 => {
                // literal run; sometimes a wrong count
                let k = 1 + rng.below(4) as i64;
                let declared = match rng.below(12) {
                    0 => k + 1,
                    1 => (k - 1).max(1),
                    _ => k,
                };
                sleb(&mut hdr, -declared);
                if rng.chance(1, 6) {
                    pad_leb(&mut hdr, true, 1 + rng.below(3) as usize);
                }
                out.extend(hdr);
                for _ in 0..k {
                    if rng.chance(1, 2) {
                        pack(rng.pick(&alphabet), &mut out);
                    } else {
                        pack(&(ops.gen)(rng), &mut out);
                    }
                }
            }
            8..=9 => {
                // null run
                out.push(0);
                let c: u64 = match rng.below(8) {
                    0 => 0,
                    1 => u64::MAX,
                    2 => 1 << 63,
                    _ => 1 + rng.below(4),
                };
                uleb(&mut hdr, c);
                if rng.chance(1, 6) {
                    pad_leb(&mut hdr, false, 1 + rng.below(3) as usize);
                }
                out.extend(hdr);
            }
            10 => {
                // header extremes: i64::MIN, eleven bytes, bad tenth byte
                match rng.below(4) {
                    0 => sleb(&mut out, i64::MIN),
                    1 => out.extend([0x80u8; 10].iter().chain([0x00u8].iter())),
                    2 => out.extend([0xffu8; 9].iter().chain([0x02u8].iter())),
                    _ => sleb(&mut out, i64::MIN + 1),
                }
                if rng.chance(1, 2) {
                    pack(rng.pick(&alphabet), &mut out);
                }
            }
            _ => {
                let n = rng.below(4) as usize;
                out.extend(rng.bytes(n));
            }
        }
    }
    if rng.chance(1, 6) && !out.is_empty() {
        let k = rng.below(out.len() as u64) as usize;
        out.truncate(k);
    }
    out
}

fn mutate(rng: &mut Rng, b: &mut Vec<u8>) {
    for _ in 0..1 + rng.below(2) {
        match rng.below(5) {
            0 if !b.is_empty() => {
                let k = rng.below(b.len() as u64) as usize;
                b[k] ^= 1 << rng.below(8);
            }
            1 if !b.is_empty() => {
                let k = rng.below(b.len() as u64) as usize;
                b[k] = rng.next() as u8;
            }
            2 => {
                let k = rng.below(b.len() as u64 + 1) as usize;
                b.insert(k, rng.next() as u8);
            }
            3 if !b.is_empty() => {
                let k = rng.below(b.len() as u64) as usize;
                b.remove(k);
            }
            _ => {
                let k = rng.below(b.len() as u64 + 1) as usize;
                b.truncate(k);
            }
        }
    }
}

fn pack_u64(x: &u64, out: &mut Vec<u8>) { uleb(out, *x) }
fn pack_i64(x: &i64, out: &mut Vec<u8>) { sleb(out, *x) }
fn pack_vec(x: &Vec<u8>, out: &mut Vec<u8>) {
    uleb(out, x.len() as u64);
    out.extend_from_slice(x);
}

struct Ctx<'a> {
    rep: &'a mut Report,
    cw: &'a mut CaseWriter,
}

/// save side of one RLE column type
fn save_cases<X: Clone + PartialEq + std::fmt::Debug + 'static>(cx: &mut Ctx, rng: &mut Rng, ops: &Ops<X>, n_model: usize, n_direct: usize) {
    let tag = format!("{}{}", if ops.nullable { "opt-" } else { "" }, ops.name);
    for i in 0..n_model + n_direct {
        let model_case = i < n_model;
        let n = if !model_case {
            300 + rng.below(1701) as usize
        } else {
            match rng.below(8) {
                0 => 0,
                1 => 1,
                2 => 2 + rng.below(3) as usize,
                3 => 150 + rng.below(150) as usize,
                _ => 3 + rng.below(60) as usize,
            }
        };
        let vals = gen_vals(rng, n, ops.nullable, ops.gen);
        let edits = if rng.chance(1, 2) { gen_edits(rng, vals.len(), ops.nullable, ops.gen) } else { vec![] };
        let fin = apply_edits(&vals, &edits);
        let replay = json!({"kind": format!("save-{}", tag), "values": js_ovals(&vals, ops.js),
            "edits": edits.iter().map(|(i, d, v)| json!([i, d, js_ovals(v, ops.js)])).collect::<Vec<_>>()});
        let wire = match guard(|| (ops.build)(&vals, &edits)) {
            Ok(w) => w,
            Err(p) => {
                cx.rep.fail(&["C35", "C34"], &format!("hexenc|panic|build-{}|{}", tag, p.signature()),
                    &format!("building / saving a {} column panicked: {} at {}", tag, p.message, p.location), replay.clone());
                continue;
            }
        };
        // direct: the saved bytes load back to the same values
        match guard(|| (ops.load)(&wire)) {
            Err(p) => cx.rep.fail(&["C35", "C15"], &format!("hexenc|panic|load-own-{}|{}", tag, p.signature()),
                &format!("loading a saved {} column panicked: {} at {}", tag, p.message, p.location), replay.clone()),
            Ok(Err(())) => cx.rep.fail(&["C35"], &format!("hexenc|roundtrip-rejected|{}", tag),
                &format!("{} column: load rejects the bytes save produced", tag), replay.clone()),
            Ok(Ok(l)) => {
                if expand_runs(&l.runs, 5000).as_deref() != Some(&fin[..]) || l.len != fin.len() as u128 {
                    cx.rep.fail(&["C35"], &format!("hexenc|roundtrip-differs|{}", tag),
                        &format!("{} column: load(save(col)) holds different values", tag), replay.clone());
                }
                if l.resaved != wire {
                    cx.rep.fail(&["C35"], &format!("hexenc|resave-differs|{}", tag),
                        &format!("{} column: save(load(save(col))) differs from save(col)", tag), replay.clone());
                }
            }
        }
        cx.rep.case(if fin.len() >= 2 { Some(fnv(&wire) ^ fnv(tag.as_bytes())) } else { None });
        cx.rep.count(&format!("save_{}", tag));
        cx.rep.add("save_values", fin.len() as u64);
        if !edits.is_empty() {
            cx.rep.count("save_with_splices");
        }
        if model_case {
            let term = format!("chk_save_{} {} {} {}", ops.name, coq_bool(ops.nullable), coq_ovals(&fin, ops.coq), coq_bytes(&wire));
            cx.cw.push(term, replay);
        }
    }
}

/// load side: arbitrary / mutated / structured bytes
fn load_case<X: Clone + PartialEq + std::fmt::Debug + 'static>(cx: &mut Ctx, ops: &Ops<X>, bytes: &[u8], src: &str) {
    let tag = format!("{}{}", if ops.nullable { "opt-" } else { "" }, ops.name);
    let replay = json!({"kind": format!("load-{}", tag), "source": src, "bytes": hex(bytes)});
    let (st, runs, resaved): (u128, Vec<(u128, Option<X>)>, Option<Vec<u8>>) = match guard(|| (ops.load)(bytes)) {
        Err(p) => {
            cx.rep.fail(&["C35", "C15"], &format!("hexenc|panic|load|{}", stable_sig(&p)),
                &format!("Column::<{}>::load panicked: {} at {}", tag, p.message, p.location), replay.clone());
            (3, vec![], None)
        }
        Ok(Err(())) => (2, vec![], None),
        Ok(Ok(l)) => (0, l.runs, Some(l.resaved)),
    };
    cx.rep.count(&format!("load_{}_{}", src, match st { 0 => "ok", 2 => "err", _ => "panic" }));
    cx.rep.case(if st == 0 && !runs.is_empty() { Some(fnv(bytes) ^ fnv(tag.as_bytes())) } else { None });
    if runs.len() >= RUN_CAP {
        return;
    }
    let term = format!("chk_load_{} {} {} {} {}", ops.name, coq_bool(ops.nullable), coq_bytes(bytes), st, coq_runs(&runs, ops.coq));
    cx.cw.push(term, replay.clone());
    if let Some(w2) = resaved {
        // direct: a column that loads saves back to bytes that load to the same values
        match guard(|| (ops.load)(&w2)) {
            Err(p) => cx.rep.fail(&["C35", "C15"], &format!("hexenc|panic|reload-{}|{}", ops.name, p.signature()),
                &format!("reloading save(load(b)) panicked: {}", p.message), replay.clone()),
            Ok(Err(())) => cx.rep.fail(&["C35"], &format!("hexenc|resave-rejected|{}", tag),
                "save(load(b)) is rejected by load", replay.clone()),
            Ok(Ok(l2)) => {
                if l2.runs != runs {
                    cx.rep.fail(&["C35"], &format!("hexenc|resave-changes-values|{}", tag),
                        "load(save(load(b))) differs from load(b)", replay.clone());
                }
            }
        }
        let term = format!("chk_resave_{} {} {} {}", ops.name, coq_bool(ops.nullable), coq_bytes(bytes), coq_bytes(&w2));
        cx.cw.push(term, json!({"kind": format!("resave-{}", tag), "bytes": hex(bytes), "resaved": hex(&w2)}));
    }
}

fn load_cases<X: Clone + PartialEq + std::fmt::Debug + 'static>(cx: &mut Ctx, rng: &mut Rng, ops: &Ops<X>, pack: fn(&X, &mut Vec<u8>), n: usize) {
    // fixed probes first
    let mut probes: Vec<Vec<u8>> = vec![
        vec![],
        vec![0x00],
        vec![0x00, 0x00],
        vec![0x00, 0x01],
        vec![0x00, 0x01, 0x00, 0x01],
        vec![0x01, 0x05],
        vec![0x02],
        vec![0x7f],
        vec![0x80],
        vec![0x80, 0x80, 0x80, 0x80, 0x80, 0x80, 0x80, 0x80, 0x80, 0x7f],
        vec![0x80, 0x80, 0x80, 0x80, 0x80, 0x80, 0x80, 0x80, 0x80, 0x7f, 0x00],
        vec![0x82, 0x00, 0x85, 0x00],
        vec![0xfe, 0x7f, 0x01, 0x02],
    ];
    // an untrusted value LENGTH prefix at the top of the u64 range (string / byte columns read it as a length;
    // for numeric columns the same bytes are an ordinary huge value or an error): literal and repeat position
    for k in [0u64, 1, 2, 5, 9, 10, 11, 100] {
        for big in [u64::MAX - k, (1u64 << 63) + k, (1u64 << 63) - 1 - k, (1u64 << 32) + k] {
            let mut p = vec![0x7f];
            uleb(&mut p, big);
            probes.push(p.clone());
            p.extend([0x61, 0x62, 0x63]);
            probes.push(p);
            let mut p = vec![0x02];
            uleb(&mut p, big);
            p.extend([0x61; 12]);
            probes.push(p);
        }
    }
    // item-count overflow: two maximal runs and one more; null run of u64::MAX and a run
    let a = (ops.gen)(rng);
    let mut b = (ops.gen)(rng);
    for _ in 0..20 {
        if b != a {
            break;
        }
        b = (ops.gen)(rng);
    }
    let mut p = vec![];
    for (i, v) in [&a, &b, &a].iter().enumerate() {
        sleb(&mut p, if i < 2 { i64::MAX } else { 2 });
        pack(v, &mut p);
    }
    probes.push(p.clone());
    p.extend([0xff, 0xff]);
    probes.push(p);
    let mut p = vec![0x00];
    uleb(&mut p, u64::MAX);
    probes.push(p.clone());
    sleb(&mut p, 2);
    pack(&a, &mut p);
    probes.push(p);
    // every slab below 2^64 items, the column not: the overflow is in the sum of the slab lengths
    let mut p = vec![];
    sleb(&mut p, i64::MAX);
    pack(&a, &mut p);
    for i in 0..31 {
        sleb(&mut p, 2);
        pack(if i % 2 == 0 { &b } else { &a }, &mut p);
    }
    sleb(&mut p, i64::MAX);
    pack(&a, &mut p);
    probes.push(p.clone());
    p.push(0x80);
    probes.push(p);
    for p in probes {
        load_case(cx, ops, &p, "probe");
    }
    for _ in 0..n {
        match rng.below(10) {
            0..=1 => {
                let k = rng.below(14) as usize;
                let b = rng.bytes(k);
                load_case(cx, ops, &b, "random");
            }
            2..=5 => {
                let k = rng.below(40) as usize;
                let vals = gen_vals(rng, k, ops.nullable, ops.gen);
                if let Ok(mut w) = guard(|| (ops.build)(&vals, &[])) {
                    mutate(rng, &mut w);
                    load_case(cx, ops, &w, "mutated");
                }
            }
            _ => {
                let b = gen_structured(rng, ops, pack);
                load_case(cx, ops, &b, "structured");
            }
        }
    }
}

// ---------------------------------------------------------------- bool
fn bool_load(b: &[u8]) -> Result<(u128, Vec<(u128, bool)>, Vec<u8>), ()> {
    let col = Column::<bool>::load(b).map_err(|_| ())?;
    let mut runs: Vec<(u128, bool)> = vec![];
    for r in col.iter().runs().take(RUN_CAP) {
        if r.count == 0 {
            continue;
        }
        if let Some(last) = runs.last_mut() {
            if last.1 == r.value {
                last.0 += r.count as u128;
                continue;
            }
        }
        runs.push((r.count as u128, r.value));
    }
    Ok((col.len() as u128, runs, col.save()))
}
fn coq_bruns(runs: &[(u128, bool)]) -> String {
    coq_list(&runs.iter().map(|(c, v)| format!("({},{})", c, coq_bool(*v))).collect::<Vec<_>>())
}

fn bool_load_case(cx: &mut Ctx, bytes: &[u8], src: &str) {
    let replay = json!({"kind": "load-bool", "source": src, "bytes": hex(bytes)});
    let (st, runs, resaved) = match guard(|| bool_load(bytes)) {
        Err(p) => {
            cx.rep.fail(&["C35", "C15"], &format!("hexenc|panic|load|{}", stable_sig(&p)),
                &format!("Column::<bool>::load panicked: {} at {}", p.message, p.location), replay.clone());
            (3u128, vec![], None)
        }
        Ok(Err(())) => (2, vec![], None),
        Ok(Ok((_, runs, w2))) => (0, runs, Some(w2)),
    };
    cx.rep.count(&format!("load_{}_{}", src, match st { 0 => "ok", 2 => "err", _ => "panic" }));
    cx.rep.case(if st == 0 && !runs.is_empty() { Some(fnv(bytes) ^ 0xb001) } else { None });
    if runs.len() >= RUN_CAP {
        return;
    }
    cx.cw.push(format!("chk_load_bool {} {} {}", coq_bytes(bytes), st, coq_bruns(&runs)), replay.clone());
    if let Some(w2) = resaved {
        match guard(|| bool_load(&w2)) {
            Err(p) => cx.rep.fail(&["C35", "C15"], &format!("hexenc|panic|reload-bool|{}", p.signature()),
                &format!("reloading save(load(b)) panicked: {}", p.message), replay.clone()),
            Ok(Err(())) => cx.rep.fail(&["C35"], "hexenc|resave-rejected|bool", "save(load(b)) is rejected by load", replay.clone()),
            Ok(Ok((_, r2, _))) => {
                if r2 != runs {
                    cx.rep.fail(&["C35"], "hexenc|resave-changes-values|bool", "load(save(load(b))) differs from load(b)", replay.clone());
                }
            }
        }
        cx.cw.push(format!("chk_resave_bool {} {}", coq_bytes(bytes), coq_bytes(&w2)),
            json!({"kind": "resave-bool", "bytes": hex(bytes), "resaved": hex(&w2)}));
    }
}

fn bool_cases(cx: &mut Ctx, rng: &mut Rng, n_save: usize, n_direct: usize, n_load: usize) {
    for i in 0..n_save + n_direct {
        let model_case = i < n_save;
        let n = if !model_case { 300 + rng.below(1701) as usize } else if rng.chance(1, 6) { rng.below(3) as usize } else { rng.below(300) as usize };
        let mut vals: Vec<bool> = vec![];
        let mode = rng.below(3);
        let mut cur = rng.chance(1, 2);
        while vals.len() < n {
            match mode {
                0 => {
                    let m = if rng.chance(1, 5) { 200 } else { 5 };
                    let k = 1 + rng.below(m) as usize;
                    for _ in 0..k {
                        vals.push(cur);
                    }
                    cur = !cur;
                }
                1 => {
                    vals.push(cur);
                    cur = !cur;
                }
                _ => vals.push(rng.chance(1, 2)),
            }
        }
        vals.truncate(n);
        let mut edits: Vec<(usize, usize, Vec<bool>)> = vec![];
        let mut fin = vals.clone();
        if rng.chance(1, 2) {
            for _ in 0..rng.below(8) {
                let idx = rng.below(fin.len() as u64 + 1) as usize;
                let del = (rng.below(6) as usize).min(fin.len() - idx);
                let b = rng.chance(1, 2);
                let ins: Vec<bool> = (0..rng.below(7)).map(|j| if rng.chance(1, 3) { j % 2 == 0 } else { b }).collect();
                fin.splice(idx..idx + del, ins.iter().cloned());
                edits.push((idx, del, ins));
            }
        }
        let replay = json!({"kind": "save-bool", "values": vals, "edits": edits});
        let wire = match guard(|| {
            let mut col = Column::<bool>::from_values(vals.clone());
            for (idx, del, ins) in &edits {
                col.splice(*idx, *del, ins.clone());
            }
            col.save()
        }) {
            Ok(w) => w,
            Err(p) => {
                cx.rep.fail(&["C35", "C34"], &format!("hexenc|panic|build-bool|{}", p.signature()),
                    &format!("building / saving a bool column panicked: {} at {}", p.message, p.location), replay.clone());
                continue;
            }
        };
        match guard(|| bool_load(&wire)) {
            Err(p) => cx.rep.fail(&["C35", "C15"], &format!("hexenc|panic|load-own-bool|{}", p.signature()),
                &format!("loading a saved bool column panicked: {}", p.message), replay.clone()),
            Ok(Err(())) => cx.rep.fail(&["C35"], "hexenc|roundtrip-rejected|bool", "bool column: load rejects the bytes save produced", replay.clone()),
            Ok(Ok((len, runs, w2))) => {
                let mut ex = vec![];
                for (c, v) in &runs {
                    for _ in 0..*c {
                        ex.push(*v);
                    }
                }
                if ex != fin || len != fin.len() as u128 {
                    cx.rep.fail(&["C35"], "hexenc|roundtrip-differs|bool", "bool column: load(save(col)) holds different values", replay.clone());
                }
                if w2 != wire {
                    cx.rep.fail(&["C35"], "hexenc|resave-differs|bool", "bool column: save(load(save(col))) differs from save(col)", replay.clone());
                }
            }
        }
        cx.rep.case(if fin.len() >= 2 { Some(fnv(&wire) ^ 0xb001) } else { None });
        cx.rep.count("save_bool");
        cx.rep.add("save_values", fin.len() as u64);
        if model_case {
            let term = format!("chk_save_bool {} {}", coq_list(&fin.iter().map(|b| coq_bool(*b).to_string()).collect::<Vec<_>>()), coq_bytes(&wire));
            cx.cw.push(term, replay);
        }
    }
    let mut probes: Vec<Vec<u8>> = vec![vec![], vec![0], vec![0, 0], vec![0, 5], vec![3], vec![3, 0], vec![3, 0, 2], vec![0x80, 0x00], vec![0x83, 0x00, 0x01], vec![0x80]];
    let mut p = vec![];
    uleb(&mut p, u64::MAX);
    uleb(&mut p, 1);
    probes.push(p.clone());
    p.push(0x80);
    probes.push(p);
    let mut p = vec![];
    for _ in 0..34 {
        uleb(&mut p, 1 << 60);
    }
    probes.push(p);
    let mut p = vec![];
    uleb(&mut p, 1 << 63);
    for _ in 0..31 {
        uleb(&mut p, 1);
    }
    uleb(&mut p, 1 << 63);
    probes.push(p.clone());
    p.push(0x80);
    probes.push(p);
    for p in probes {
        bool_load_case(cx, &p, "probe");
    }
    for _ in 0..n_load {
        match rng.below(10) {
            0..=2 => {
                let k = rng.below(10) as usize;
                let b = rng.bytes(k);
                bool_load_case(cx, &b, "random");
            }
            3..=5 => {
                let n = rng.below(60) as usize;
                let vals: Vec<bool> = (0..n).map(|_| rng.chance(1, 3)).collect();
                let mut w = Column::<bool>::from_values(vals).save();
                mutate(rng, &mut w);
                bool_load_case(cx, &w, "mutated");
            }
            _ => {
                let mut b = vec![];
                let m = if rng.chance(1, 8) { 70 } else { 6 };
                for _ in 0..1 + rng.below(m) {
                    let c: u64 = match rng.below(10) {
                        0 => 0,
                        1 => u64::MAX,
                        2 => 1 << 63,
                        _ => 1 + rng.below(200),
                    };
                    let mut e = vec![];
                    uleb(&mut e, c);
                    if rng.chance(1, 6) {
                        pad_leb(&mut e, false, 1 + rng.below(3) as usize);
                    }
                    b.extend(e);
                }
                if rng.chance(1, 8) && !b.is_empty() {
                    let k = rng.below(b.len() as u64) as usize;
                    b.truncate(k);
                }
                bool_load_case(cx, &b, "structured");
            }
        }
    }
}

/// long runs joined across slab boundaries: true x a, separator, true x b, separator, true x c with the
/// separators deleted afterwards (the writer has to merge run counts across three slabs; the merged
/// count crosses a varint width boundary for most choices) — direct save -> load -> compare
fn bool_merge_cases(cx: &mut Ctx, rng: &mut Rng, n: usize) {
    for _ in 0..n {
        let segs = *rng.pick(&[2usize, 4, 8, 16, 64]);
        let first = rng.chance(3, 4);
        let parts: Vec<usize> = (0..rng.range(2, 4)).map(|_| rng.range(1, 200) as usize).collect();
        let sep = rng.range(1, 6) as usize;
        let mut vals: Vec<bool> = vec![];
        let mut seps: Vec<usize> = vec![];
        for (i, p) in parts.iter().enumerate() {
            if i > 0 {
                seps.push(vals.len());
                vals.extend(std::iter::repeat(!first).take(sep));
            }
            vals.extend(std::iter::repeat(first).take(*p));
        }
        let mut fin = vals.clone();
        for at in seps.iter().rev() {
            fin.drain(*at..*at + sep);
        }
        let churn: Vec<(usize, usize, Vec<bool>)> = (0..rng.below(7)).map(|_| {
            let pos = rng.below(fin.len() as u64 + 1) as usize;
            let del = rng.below(4) as usize;
            let n = if rng.chance(1, 3) { rng.range(100, 140) } else { rng.below(4) } as usize;
            let v = if rng.chance(3, 4) { first } else { !first };
            (pos, del, vec![v; n])
        }).collect();
        let replay = json!({"kind": "save-bool-merge", "max_segments": segs, "first": first, "parts": parts, "separator": sep, "churn": churn.iter().map(|c| (c.0, c.1, c.2.len(), c.2.first().copied())).collect::<Vec<_>>()});
        let r = guard(|| {
            let mut col = Column::<bool>::with_max_segments(segs);
            col.splice(0, 0, vals.clone());
            for at in seps.iter().rev() {
                col.splice(*at, sep, Vec::<bool>::new());
            }
            // more in-memory churn around the merged run (slabs shrink and are merged again): every step is
            // compared with the Vec
            let mut mirror = fin.clone();
            let mut ok = col.iter().collect::<Vec<bool>>() == mirror;
            for (pos, del, ins) in &churn {
                let pos = (*pos).min(mirror.len());
                let del = (*del).min(mirror.len() - pos);
                col.splice(pos, del, ins.clone());
                mirror.splice(pos..pos + del, ins.iter().cloned());
                if col.iter().collect::<Vec<bool>>() != mirror || col.len() != mirror.len() {
                    ok = false;
                }
            }
            let mem: Vec<bool> = col.iter().collect();
            (if ok { mem } else { vec![] }, mirror, col.save())
        });
        match r {
            Err(p) => cx.rep.fail(&["C35", "C34"], &format!("hexenc|panic|build-bool|{}", p.signature()), &format!("building / saving a bool column panicked: {}", p.message), replay),
            Ok((mem, fin, wire)) => {
                if mem != fin {
                    cx.rep.fail(&["C34"], "hexenc|edit-differs|bool", "bool column: contents after splices differ from the Vec", replay.clone());
                }
                match guard(|| bool_load(&wire)) {
                    Ok(Ok((len, runs, _))) => {
                        let mut ex = vec![];
                        for (c, v) in &runs {
                            for _ in 0..(*c).min(100_000) {
                                ex.push(*v);
                            }
                        }
                        if ex != fin || len != fin.len() as u128 {
                            cx.rep.fail(&["C35"], "hexenc|roundtrip-differs|bool", "bool column: load(save(col)) holds different values (runs merged across slabs)", replay);
                        }
                    }
                    Ok(Err(())) => cx.rep.fail(&["C35"], "hexenc|roundtrip-rejected|bool", "bool column: load rejects the bytes save produced", replay),
                    Err(p) => cx.rep.fail(&["C35", "C15"], &format!("hexenc|panic|load-own-bool|{}", p.signature()), &format!("loading a saved bool column panicked: {}", p.message), replay),
                }
            }
        }
        cx.rep.case(Some(fnv(format!("{:?}{}{}", parts, sep, segs).as_bytes())));
        cx.rep.count("save_bool_merge");
    }
}

// ---------------------------------------------------------------- delta
struct DeltaOps {
    name: &'static str,
    nullable: bool,
    lo: i128,
    hi: i128,
    build: fn(&[Option<i64>], &[Edit<i64>]) -> Vec<u8>,
    load: fn(&[u8]) -> Result<Loaded<i64>, ()>, // runs of (count, delta)
    vals: fn(&[u8]) -> Option<Vec<Option<i64>>>, // realized values of a loadable column (len <= 5000)
}

macro_rules! delta_ops {
    ($build:ident, $load:ident, $vals:ident, $t:ty, $to:expr, $from:expr) => {
        fn $build(vals: &[Option<i64>], edits: &[Edit<i64>]) -> Vec<u8> {
            let to = $to;
            let mut col = DeltaColumn::<$t>::from_values(vals.iter().map(|v| to(v)).collect());
            for (idx, del, ins) in edits {
                let ins: Vec<$t> = ins.iter().map(|v| to(v)).collect();
                col.splice(*idx, *del, ins);
            }
            col.save()
        }
        fn $load(b: &[u8]) -> Result<Loaded<i64>, ()> {
            let col = DeltaColumn::<$t>::load(b).map_err(|_| ())?;
            let mut runs: Vec<(u128, Option<i64>)> = vec![];
            for r in col.iter().runs().take(RUN_CAP) {
                merge_push(&mut runs, r.count as u128, r.delta);
            }
            Ok(Loaded { len: col.len() as u128, runs, resaved: col.save() })
        }
        fn $vals(b: &[u8]) -> Option<Vec<Option<i64>>> {
            let from = $from;
            let col = DeltaColumn::<$t>::load(b).ok()?;
            if col.len() > 5000 {
                return None;
            }
            Some(col.to_vec().into_iter().map(|v| from(v)).collect())
        }
    };
}
delta_ops!(dbuild_i64, dload_i64, dvals_i64, i64, |v: &Option<i64>| v.unwrap(), |v: i64| Some(v));
delta_ops!(dbuild_u64, dload_u64, dvals_u64, u64, |v: &Option<i64>| v.unwrap() as u64, |v: u64| Some(v as i64));
delta_ops!(dbuild_oi64, dload_oi64, dvals_oi64, Option<i64>, |v: &Option<i64>| *v, |v: Option<i64>| v);
delta_ops!(dbuild_ou64, dload_ou64, dvals_ou64, Option<u64>, |v: &Option<i64>| v.map(|x| x as u64), |v: Option<u64>| v.map(|x| x as i64));

/// realized values inside the documented domain: every pair of values (and 0) less than 2^63 apart
fn gen_delta_vals(rng: &mut Rng, n: usize, ops: &DeltaOps) -> Vec<Option<i64>> {
    let unsigned = ops.lo == 0;
    let (wlo, whi): (i64, i64) = match rng.below(5) {
        0 => (0, 100),
        1 => (0, 1 << 61),
        2 => (i64::MAX - 1000, i64::MAX),
        3 if !unsigned => (-(1 << 61), 1 << 61),
        4 if !unsigned => (i64::MIN / 2 - 1000, i64::MIN / 2 + 1000),
        _ => (0, 1 << 20),
    };
    let span = (whi as i128 - wlo as i128) as u128;
    let mut cur: i64 = wlo + (rng.next() as u128 % (span + 1)) as i64;
    let mode = rng.below(4);
    let step: i64 = 1 + rng.below(3) as i64;
    let mut out = vec![];
    while out.len() < n {
        if ops.nullable && rng.chance(1, 6) {
            for _ in 0..1 + rng.below(4) {
                out.push(None);
            }
            continue;
        }
        match mode {
            0 => {
                // mostly sequential ids with occasional jumps
                if rng.chance(1, 8) {
                    cur = wlo + (rng.next() as u128 % (span + 1)) as i64;
                } else if (cur as i128 + step as i128) <= whi as i128 {
                    cur += step;
                }
            }
            1 => {
                // constant stretches
                if rng.chance(1, 4) {
                    cur = wlo + (rng.next() as u128 % (span + 1)) as i64;
                }
            }
            2 => cur = wlo + (rng.next() as u128 % (span + 1)) as i64,
            _ => {
                let d = rng.below(5) as i64 - 2;
                let c = cur as i128 + d as i128;
                if c >= wlo as i128 && c <= whi as i128 {
                    cur = c as i64;
                }
            }
        }
        out.push(Some(cur));
    }
    out.truncate(n);
    out
}

fn delta_cases(cx: &mut Ctx, rng: &mut Rng, ops: &DeltaOps, n_save: usize, n_direct: usize, n_load: usize) {
    let tag = ops.name;
    for i in 0..n_save + n_direct {
        let model_case = i < n_save;
        let n = if !model_case { 300 + rng.below(1701) as usize } else {
            match rng.below(6) {
                0 => rng.below(3) as usize,
                1 => 100 + rng.below(150) as usize,
                _ => 3 + rng.below(60) as usize,
            }
        };
        let vals = gen_delta_vals(rng, n, ops);
        // edits: values from the same window so that the domain contract holds
        let mut edits: Vec<Edit<i64>> = vec![];
        let mut fin = vals.clone();
        if rng.chance(1, 2) && !vals.is_empty() {
            for _ in 0..rng.below(6) {
                let idx = rng.below(fin.len() as u64 + 1) as usize;
                let del = (rng.below(5) as usize).min(fin.len() - idx);
                let k = rng.below(5) as usize;
                let ins: Vec<Option<i64>> = (0..k).map(|_| if vals.is_empty() { Some(0) } else { rng.pick(&vals).clone() }).collect();
                let ins: Vec<Option<i64>> = ins.into_iter().map(|v| if ops.nullable { v } else { Some(v.unwrap_or(0)) }).collect();
                fin.splice(idx..idx + del, ins.iter().cloned());
                edits.push((idx, del, ins));
            }
        }
        let js = |v: &[Option<i64>]| Value::Array(v.iter().map(|x| x.map(|y| json!(y.to_string())).unwrap_or(Value::Null)).collect());
        let replay = json!({"kind": format!("save-delta-{}", tag), "values": js(&vals),
            "edits": edits.iter().map(|(i, d, v)| json!([i, d, js(v)])).collect::<Vec<_>>()});
        let wire = match guard(|| (ops.build)(&vals, &edits)) {
            Ok(w) => w,
            Err(p) => {
                cx.rep.fail(&["C35", "C34"], &format!("hexenc|panic|build-delta-{}|{}", tag, p.signature()),
                    &format!("building / saving a delta {} column panicked: {} at {}", tag, p.message, p.location), replay.clone());
                continue;
            }
        };
        match guard(|| ((ops.vals)(&wire), (ops.load)(&wire))) {
            Err(p) => cx.rep.fail(&["C35", "C15"], &format!("hexenc|panic|load-own-delta-{}|{}", tag, p.signature()),
                &format!("loading a saved delta column panicked: {}", p.message), replay.clone()),
            Ok((_, Err(()))) => cx.rep.fail(&["C35"], &format!("hexenc|roundtrip-rejected|delta-{}", tag),
                "delta column: load rejects the bytes save produced", replay.clone()),
            Ok((v, Ok(l))) => {
                if v.as_deref() != Some(&fin[..]) {
                    cx.rep.fail(&["C35"], &format!("hexenc|roundtrip-differs|delta-{}", tag),
                        "delta column: load(save(col)) holds different values", replay.clone());
                }
                if l.resaved != wire {
                    cx.rep.fail(&["C35"], &format!("hexenc|resave-differs|delta-{}", tag),
                        "delta column: save(load(save(col))) differs from save(col)", replay.clone());
                }
            }
        }
        cx.rep.case(if fin.len() >= 2 { Some(fnv(&wire) ^ fnv(tag.as_bytes()) ^ 0xde17a) } else { None });
        cx.rep.count(&format!("save_delta_{}", tag));
        cx.rep.add("save_values", fin.len() as u64);
        if model_case {
            let term = format!("chk_save_delta {} {} {} {} {}", coq_bool(ops.nullable), coq_z(ops.lo), coq_z(ops.hi),
                coq_ovals(&fin, coq_i64), coq_bytes(&wire));
            cx.cw.push(term, replay);
        }
    }
    // load side
    let i64ops: Ops<i64> = Ops { name: "i64", nullable: ops.nullable, build: build_oi64, load: load_oi64, gen: gen_delta_small, coq: coq_i64, js: js_i64 };
    let mut inputs: Vec<(Vec<u8>, &'static str)> = vec![];
    // fixed probes: running sum leaves i64 / the domain; more than one slab
    let mut p = vec![];
    sleb(&mut p, 2);
    sleb(&mut p, i64::MAX);
    inputs.push((p, "probe"));
    let mut p = vec![];
    sleb(&mut p, -2);
    sleb(&mut p, -1);
    sleb(&mut p, 5);
    inputs.push((p, "probe"));
    let mut p = vec![];
    sleb(&mut p, -2);
    sleb(&mut p, i64::MAX);
    sleb(&mut p, i64::MIN);
    inputs.push((p, "probe"));
    let mut p = vec![];
    sleb(&mut p, -40);
    for k in 0..40 {
        sleb(&mut p, if k == 0 { -(1i64 << 62) } else if k == 35 { 1 << 62 } else if k == 36 { i64::MAX } else { -(k as i64) });
    }
    inputs.push((p, "probe"));
    let mut p = vec![];
    sleb(&mut p, i64::MAX);
    sleb(&mut p, 0);
    sleb(&mut p, i64::MAX);
    sleb(&mut p, 1);
    inputs.push((p.clone(), "probe"));
    // 2^64 items in one slab: the aggregate's item counter
    sleb(&mut p, 2);
    sleb(&mut p, 0);
    inputs.push((p.clone(), "probe"));
    p.push(0x80);
    inputs.push((p, "probe"));
    let mut p = vec![0x00];
    uleb(&mut p, u64::MAX);
    inputs.push((p.clone(), "probe"));
    sleb(&mut p, 2);
    sleb(&mut p, 5);
    inputs.push((p, "probe"));
    let mut p = vec![0x00];
    uleb(&mut p, u64::MAX - 1);
    inputs.push((p, "probe"));
    for _ in 0..n_load {
        match rng.below(10) {
            0 => {
                let k = rng.below(12) as usize;
                inputs.push((rng.bytes(k), "random"));
            }
            1..=5 => {
                let n = rng.below(80) as usize;
                let vals = gen_delta_vals(rng, n, ops);
                if let Ok(mut w) = guard(|| (ops.build)(&vals, &[])) {
                    mutate(rng, &mut w);
                    inputs.push((w, "mutated"));
                }
            }
            _ => inputs.push((gen_structured(rng, &i64ops, pack_i64), "structured")),
        }
    }
    for (bytes, src) in inputs {
        let replay = json!({"kind": format!("load-delta-{}", tag), "source": src, "bytes": hex(&bytes)});
        let (st, runs, resaved): (u128, Vec<(u128, Option<i64>)>, Option<Vec<u8>>) = match guard(|| (ops.load)(&bytes)) {
            Err(p) => {
                cx.rep.fail(&["C35", "C15"], &format!("hexenc|panic|load|{}", stable_sig(&p)),
                    &format!("DeltaColumn::<{}>::load panicked: {} at {}", tag, p.message, p.location), replay.clone());
                (3, vec![], None)
            }
            Ok(Err(())) => (2, vec![], None),
            Ok(Ok(l)) => (0, l.runs, Some(l.resaved)),
        };
        cx.rep.count(&format!("load_{}_{}", src, match st { 0 => "ok", 2 => "err", _ => "panic" }));
        cx.rep.case(if st == 0 && !runs.is_empty() { Some(fnv(&bytes) ^ fnv(tag.as_bytes()) ^ 0xde17a) } else { None });
        if runs.len() >= RUN_CAP {
            continue;
        }
        let term = format!("chk_load_delta {} {} {} {} {} {}", coq_bool(ops.nullable), coq_z(ops.lo), coq_z(ops.hi),
            coq_bytes(&bytes), st, coq_runs(&runs, coq_i64));
        cx.cw.push(term, replay.clone());
        if let Some(w2) = resaved {
            match guard(|| (ops.load)(&w2)) {
                Err(p) => cx.rep.fail(&["C35", "C15"], &format!("hexenc|panic|reload-delta|{}", p.signature()),
                    &format!("reloading save(load(b)) panicked: {}", p.message), replay.clone()),
                Ok(Err(())) => cx.rep.fail(&["C35"], &format!("hexenc|resave-rejected|delta-{}", tag), "save(load(b)) is rejected by load", replay.clone()),
                Ok(Ok(l2)) => {
                    if l2.runs != runs {
                        cx.rep.fail(&["C35"], &format!("hexenc|resave-changes-values|delta-{}", tag), "load(save(load(b))) differs from load(b)", replay.clone());
                    }
                }
            }
            let term = format!("chk_resave_delta {} {} {} {} {}", coq_bool(ops.nullable), coq_z(ops.lo), coq_z(ops.hi), coq_bytes(&bytes), coq_bytes(&w2));
            cx.cw.push(term, json!({"kind": format!("resave-delta-{}", tag), "bytes": hex(&bytes), "resaved": hex(&w2)}));
        }
    }
}
fn gen_delta_small(rng: &mut Rng) -> i64 {
    match rng.below(6) {
        0 => i64::MAX,
        1 => i64::MIN,
        2 => (1 << 62) + rng.below(2) as i64,
        3 => -(1 << 62),
        _ => rng.below(7) as i64 - 3,
    }
}

// ---------------------------------------------------------------- varint readers
fn leb_cases(cx: &mut Ctx, rng: &mut Rng, n: usize) {
    for i in 0..n {
        let mut b: Vec<u8> = vec![];
        match rng.below(6) {
            0 => {
                let k = rng.below(13) as usize;
                b = rng.bytes(k);
            }
            1 => {
                uleb(&mut b, gen_u64(rng));
                pad_leb(&mut b, false, rng.below(4) as usize);
            }
            2 => {
                let v = gen_i64(rng);
                sleb(&mut b, v);
                pad_leb(&mut b, v < 0, rng.below(4) as usize);
            }
            3 => {
                let k = 9 + rng.below(3) as usize;
                b = vec![0x80 | rng.next() as u8; k];
                b.push(*rng.pick(&[0u8, 1, 2, 0x7f, 0x7e, 0x40, 0x3f]));
            }
            4 => {
                let k = 9 + rng.below(3) as usize;
                b = (0..k).map(|_| 0x80 | rng.next() as u8).collect();
                b.push(*rng.pick(&[0u8, 1, 2, 0x7f, 0x7e, 0x40, 0x3f, 0x80, 0xff]));
                b.extend(rng.bytes(2));
            }
            _ => {
                uleb(&mut b, rng.next());
                let k = rng.below(3) as usize;
                b.extend(rng.bytes(k));
            }
        }
        let u = guard(|| Leb128::try_read_unsigned(&b));
        let s = guard(|| Leb128::try_read_signed(&b));
        let replay = json!({"kind": "leb", "bytes": hex(&b)});
        match u {
            Err(p) => cx.rep.fail(&["C35", "C15"], &format!("hexenc|panic|read_unsigned|{}", p.signature()), "Leb128::try_read_unsigned panicked", replay.clone()),
            Ok(r) => {
                let (st, v, n) = match r { Ok((n, v)) => (0, v, n), Err(_) => (2, 0, 0) };
                cx.cw.push(format!("chk_hleb_u {} {} {} {}", coq_bytes(&b), st, v, n), replay.clone());
            }
        }
        match s {
            Err(p) => cx.rep.fail(&["C35", "C15"], &format!("hexenc|panic|read_signed|{}", p.signature()), "Leb128::try_read_signed panicked", replay.clone()),
            Ok(r) => {
                let (st, v, n) = match r { Ok((n, v)) => (0, v, n), Err(_) => (2, 0, 0) };
                cx.cw.push(format!("chk_hleb_s {} {} {} {}", coq_bytes(&b), st, coq_z(v as i128), n), replay.clone());
            }
        }
        cx.rep.case(None);
        if i == 0 {
            cx.rep.count("leb");
        }
    }
    cx.rep.add("leb_inputs", n as u64);
}

pub fn run(rng: &mut Rng, tier: &str, out: &str) -> Report {
    let mut rep = Report::new("hexenc");
    let mut cw = CaseWriter::new(out, "hexenc", HEADER, 60);
    let thorough = tier == "thorough";
    let (n_save, n_direct, n_load) = if thorough { (60, 40, 500) } else { (10, 6, 60) };
    {
        let mut cx = Ctx { rep: &mut rep, cw: &mut cw };
        let u = Ops::<u64> { name: "u64", nullable: false, build: build_u64, load: load_u64, gen: gen_u64, coq: coq_u64, js: js_u64 };
        let ou = Ops::<u64> { name: "u64", nullable: true, build: build_ou64, load: load_ou64, gen: gen_u64, coq: coq_u64, js: js_u64 };
        let i = Ops::<i64> { name: "i64", nullable: false, build: build_i64, load: load_i64, gen: gen_i64, coq: coq_i64, js: js_i64 };
        let oi = Ops::<i64> { name: "i64", nullable: true, build: build_oi64, load: load_oi64, gen: gen_i64, coq: coq_i64, js: js_i64 };
        let s = Ops::<Vec<u8>> { name: "str", nullable: false, build: build_str, load: load_str, gen: gen_str, coq: coq_vec, js: js_vec };
        let os = Ops::<Vec<u8>> { name: "str", nullable: true, build: build_ostr, load: load_ostr, gen: gen_str, coq: coq_vec, js: js_vec };
        let bl = Ops::<Vec<u8>> { name: "blob", nullable: false, build: build_blob, load: load_blob, gen: gen_blob, coq: coq_vec, js: js_vec };
        let obl = Ops::<Vec<u8>> { name: "blob", nullable: true, build: build_oblob, load: load_oblob, gen: gen_blob, coq: coq_vec, js: js_vec };
        for o in [&u, &ou] {
            save_cases(&mut cx, rng, o, n_save, n_direct);
            load_cases(&mut cx, rng, o, pack_u64, n_load);
        }
        for o in [&i, &oi] {
            save_cases(&mut cx, rng, o, n_save, n_direct);
            load_cases(&mut cx, rng, o, pack_i64, n_load);
        }
        for o in [&s, &os, &bl, &obl] {
            save_cases(&mut cx, rng, o, n_save, n_direct);
            load_cases(&mut cx, rng, o, pack_vec, n_load);
        }
        // a string column must reject what a byte column accepts when it is not UTF-8
        bool_cases(&mut cx, rng, n_save * 2, n_direct, n_load);
        bool_merge_cases(&mut cx, rng, if thorough { 3000 } else { 400 });
        let di = DeltaOps { name: "i64", nullable: false, lo: i64::MIN as i128, hi: i64::MAX as i128, build: dbuild_i64, load: dload_i64, vals: dvals_i64 };
        let du = DeltaOps { name: "u64", nullable: false, lo: 0, hi: i64::MAX as i128, build: dbuild_u64, load: dload_u64, vals: dvals_u64 };
        let doi = DeltaOps { name: "opt-i64", nullable: true, lo: i64::MIN as i128, hi: i64::MAX as i128, build: dbuild_oi64, load: dload_oi64, vals: dvals_oi64 };
        let dou = DeltaOps { name: "opt-u64", nullable: true, lo: 0, hi: i64::MAX as i128, build: dbuild_ou64, load: dload_ou64, vals: dvals_ou64 };
        for d in [&di, &du, &doi, &dou] {
            delta_cases(&mut cx, rng, d, n_save, n_direct, n_load);
        }
        leb_cases(&mut cx, rng, if thorough { 600 } else { 120 });
    }
    rep.model_cases = cw.total as u64;
    cw.finish();
    rep
}
