// Family "hist": multi-replica histories delivered along different paths.
// Serves C01 (convergence), C02 (state = CRDT interpretation), C05 (causal queue),
// C07 (historical reads), C10 (immutable history), C04 (heads), C38 (actor/seq uniqueness).
use crate::gen::{self, GenCfg};
use crate::model::*;
use crate::util::*;
use automerge::{AutoCommit, Automerge, Change, ChangeHash, ObjId, ObjType, ReadDoc, TextEncoding};
use serde_json::json;
use std::collections::{BTreeSet, HashMap};

const HEADER: &str = "From AM Require Import Base.Prelude Base.Order Crdt.Types Crdt.Interp Crdt.Doc Exec.HistExec.\nLocal Open Scope N_scope.\n";

pub struct Universe {
    pub changes: Vec<Change>, // topological order
    pub replicas: Vec<AutoCommit>,
    pub head_sets: Vec<Vec<ChangeHash>>,
    pub log: Vec<String>,
}

pub fn build_universe(rng: &mut Rng, n_replicas: usize, steps: usize, cfg: &GenCfg, log: &mut Vec<String>) -> Universe {
    let mut reps: Vec<AutoCommit> = vec![];
    let mut base = AutoCommit::new_with_encoding(TextEncoding::UnicodeCodePoint).with_actor(gen::actor(rng, 0));
    for _ in 0..rng.range(1, 6) {
        if let Some(d) = gen::random_edit(&mut base, rng, cfg) {
            log.push(format!("r0 {}", d));
        }
    }
    base.commit();
    log.push(format!("r0 actor {}", base.get_actor()));
    reps.push(base);
    for i in 1..n_replicas {
        let f = reps[0].fork().with_actor(gen::actor(rng, i));
        log.push(format!("r{} fork of r0, actor {}", i, f.get_actor()));
        reps.push(f);
    }
    let mut head_sets: Vec<Vec<ChangeHash>> = vec![reps[0].get_heads()];
    let mut next_actor = n_replicas;
    let selfcheck = std::env::var("VERIF_SELFCHECK").is_ok();
    for _ in 0..steps {
        if selfcheck {
            for (i, r) in reps.iter_mut().enumerate() {
                let ok = guard(|| {
                    let mut c = r.clone();
                    let s = c.save();
                    Automerge::load(&s).is_ok()
                });
                if !matches!(ok, Ok(true)) {
                    eprintln!("SELFCHECK replica {} broken ({:?}) after: {:#?}", i, ok.err().map(|p| p.message), log);
                    std::process::exit(3);
                }
            }
        }
        if let Ok(dir) = std::env::var("VERIF_DUMP_EDIT_PANIC") {
            // after every step: do the in-memory indexes of every replica agree with a reloaded copy?
            for (i, rp) in reps.iter().enumerate() {
                let mut c = rp.clone();
                let bytes = c.save();
                let re = match AutoCommit::load(&bytes) { Ok(d) => d, Err(e) => { eprintln!("INDEXCHECK load failed {} log {:#?}", e, log); std::process::exit(4); } };
                for (obj, ty) in gen::reachable(&c) {
                    if ty != ObjType::List { continue; }
                    let (la, lb) = (c.length(&obj), re.length(&obj));
                    let mut bad = la != lb;
                    for k in 0..la.min(lb) {
                        if format!("{:?}", c.get_all(&obj, k)) != format!("{:?}", re.get_all(&obj, k)) { bad = true; }
                    }
                    for k in 1..=la {
                        let mut p = c.clone();
                        if guard(|| { let _ = automerge::transaction::Transactable::insert(&mut p, &obj, k, automerge::ScalarValue::Null); }).is_err() { bad = true; }
                    }
                    if bad {
                        eprintln!("INDEXCHECK replica {} obj {:?} len mem {} reloaded {}", i, obj, la, lb);
                        for k in 0..la.max(lb) { eprintln!("  {} mem {:?} | reloaded {:?}", k, c.get_all(&obj, k), re.get_all(&obj, k)); }
                        eprintln!("log {:#?}", log);
                        std::fs::write(format!("{}/indexcheck.bin", dir), &bytes).unwrap();
                        std::process::exit(5);
                    }
                }
            }
        }
        let r = rng.below(n_replicas as u64) as usize;
        // debugging aid (VERIF_DUMP_EDIT_PANIC=<dir>): keep the bytes of the replica before each edit so that an
        // editing call that panics can be replayed from a saved document
        let dump_dir = std::env::var("VERIF_DUMP_EDIT_PANIC").ok();
        match rng.below(100) {
            0..=69 => {
                if let Some(dir) = &dump_dir {
                    let before = reps[r].clone().save();
                    let actor = reps[r].get_actor().clone();
                    let mut rng2 = rng.clone();
                    let mut probe = reps[r].clone();
                    if guard(|| gen::random_edit(&mut probe, &mut rng2, cfg)).is_err() {
                        let n = log.len();
                        std::fs::write(format!("{}/edit_panic_{}.bin", dir, n), &before).unwrap();
                        std::fs::write(format!("{}/edit_panic_{}.txt", dir, n), format!("actor {}\nlog {:#?}", actor, log)).unwrap();
                    }
                }
                if let Some(d) = gen::random_edit(&mut reps[r], rng, cfg) {
                    log.push(format!("r{} {}", r, d));
                }
            }
            70..=81 => {
                if reps[r].commit().is_some() {
                    log.push(format!("r{} commit", r));
                    let h = reps[r].get_heads();
                    head_sets.push(h);
                }
            }
            82..=95 => {
                let o = rng.below(n_replicas as u64) as usize;
                if o != r {
                    let (a, b) = if r < o {
                        let (x, y) = reps.split_at_mut(o);
                        (&mut x[r], &mut y[0])
                    } else {
                        let (x, y) = reps.split_at_mut(r);
                        (&mut y[0], &mut x[o])
                    };
                    if a.merge(b).is_ok() {
                        log.push(format!("r{} merge r{}", r, o));
                        let h = a.get_heads();
                        head_sets.push(h);
                    }
                }
            }
            96..=97 => {
                // a new actor takes over this replica (actor table grows, maybe before existing ones)
                reps[r].commit();
                let a = gen::actor(rng, next_actor);
                next_actor += 1;
                log.push(format!("r{} set_actor {}", r, a));
                reps[r].set_actor(a);
            }
            _ => {
                reps[r].commit();
                reps[r].empty_change(automerge::transaction::CommitOptions::default());
                log.push(format!("r{} empty_change", r));
            }
        }
    }
    for r in reps.iter_mut() {
        r.commit();
    }
    // union of all changes, in a topological order
    let mut all = Automerge::new_with_encoding(TextEncoding::UnicodeCodePoint);
    for r in reps.iter_mut() {
        let cs = r.get_changes(&[]);
        all.apply_changes(cs).expect("union of replicas applies");
    }
    let changes = all.get_changes(&[]);
    head_sets.push(all.get_heads());
    head_sets.sort();
    head_sets.dedup();
    Universe { changes, replicas: reps, head_sets, log: log.clone() }
}

fn coq_universe(u: &[Change]) -> String {
    coq_list(&u.iter().map(coq_change).collect::<Vec<_>>())
}

fn sorted_hashes(mut h: Vec<ChangeHash>) -> Vec<ChangeHash> {
    h.sort();
    h
}

pub fn run(rng: &mut Rng, tier: &str, out: &str) -> Report {
    let mut rep = Report::new("hist");
    let mut cw = CaseWriter::new(out, "hist", HEADER, 1);
    let thorough = tier == "thorough";
    let n_model = if thorough { 400 } else { 96 };
    let n_univ = if thorough { 4000 } else { 600 };
    for ui in 0..n_univ {
        // every third universe uses the conflict-focused profile
        let cfg = GenCfg { focus: ui % 3 == 2, ..GenCfg::default() };
        if cfg.focus {
            rep.count("focused_universes");
        }
        let nrep = rng.range(2, 4) as usize;
        let steps = if thorough { rng.range(20, 160) } else { rng.range(15, 70) } as usize;
        // the generator drives the public editing API; a panic in there (e.g. a debug assertion of the library
        // comparing its fast and slow index paths) is a failure of the editing call, reported for the properties
        // about local edits, and this universe is abandoned — it is not a crash of the harness
        let mut gen_log: Vec<String> = vec![];
        let mut u = match guard(|| build_universe(rng, nrep, steps, &cfg, &mut gen_log)) {
            Ok(u) => u,
            Err(p) => {
                rep.count("generator_panics");
                rep.fail(&["C03", "C37"], &format!("panic|edit|{}", p.signature()),
                    &format!("a public editing / merge call panicked while generating a history: {} at {}", p.message, p.location),
                    json!({"log": gen_log, "universe": ui}));
                continue;
            }
        };
        if std::env::var("VERIF_DUMP_EDIT_PANIC").is_ok() {
            continue;
        }
        let n = u.changes.len();
        let cands = object_ids(&u.changes);
        let total_ops: usize = u.changes.iter().map(|c| c.len()).sum();
        rep.add("changes", n as u64);
        rep.add("ops", total_ops as u64);
        let idx_of: HashMap<ChangeHash, usize> = u.changes.iter().enumerate().map(|(i, c)| (c.hash(), i)).collect();
        let mut group_defs = vec![format!("Definition u : list change := {}.", coq_universe(&u.changes))];
        let mut group_cases: Vec<(String, serde_json::Value)> = vec![];
        let mut hist_cases: Vec<(String, serde_json::Value)> = vec![];

        // ---------- delivery schedules ----------
        let mut finals: Vec<(String, String, Vec<ChangeHash>)> = vec![]; // (path, rendering, heads)
        let n_sched = if thorough { 6 } else { 4 };
        for si in 0..n_sched {
            // a schedule = list of batches of indexes
            let mut order: Vec<usize> = (0..n).collect();
            let mut batches: Vec<Vec<usize>> = vec![];
            match si {
                0 => batches = order.iter().map(|i| vec![*i]).collect(),
                1 => {
                    order.reverse();
                    batches = order.iter().map(|i| vec![*i]).collect();
                }
                2 => {
                    rng.shuffle(&mut order);
                    batches = vec![order.clone()];
                }
                _ => {
                    rng.shuffle(&mut order);
                    let mut i = 0;
                    while i < order.len() {
                        let k = rng.range(1, 4) as usize;
                        let mut b: Vec<usize> = order[i..(i + k).min(order.len())].to_vec();
                        // duplicates: something already delivered, or the same change twice
                        if rng.chance(1, 3) && i > 0 {
                            b.push(order[rng.below(i as u64) as usize]);
                        }
                        if rng.chance(1, 6) {
                            b.push(b[0]);
                        }
                        batches.push(b);
                        i += k;
                    }
                }
            }
            let mut doc = Automerge::new_with_encoding(TextEncoding::UnicodeCodePoint);
            let mut steps_coq: Vec<String> = vec![];
            let nb = batches.len();
            let obs_points: BTreeSet<usize> = [nb - 1, rng.below(nb as u64) as usize, rng.below(nb as u64) as usize].into_iter().collect();
            let mut saw_queue = false;
            let mut prev_applied = 0usize;
            for (bi, b) in batches.iter().enumerate() {
                let cs: Vec<Change> = b.iter().map(|i| u.changes[*i].clone()).collect();
                let r = guard(|| doc.apply_changes(cs));
                let st = match r {
                    Ok(Ok(())) => 0,
                    Ok(Err(_)) => 2,
                    Err(p) => {
                        rep.fail(&["C01", "C05", "C37"], &format!("panic|apply_changes|{}", p.signature()),
                            &format!("apply_changes panicked: {} at {}", p.message, p.location),
                            json!({"universe": ui, "log": u.log, "schedule": batches}));
                        3
                    }
                };
                if st == 3 {
                    break;
                }
                if st == 2 {
                    rep.count("delivery_errors");
                }
                let heads = sorted_hashes(doc.get_heads());
                let missing = sorted_hashes(doc.get_missing_deps(&[]));
                if !missing.is_empty() {
                    saw_queue = true;
                }
                // C05 direct: a held change contributes no head; applied count only grows
                let applied_now = doc.get_changes(&[]).len();
                if applied_now < prev_applied {
                    rep.fail(&["C05", "C10"], "hist|applied-shrank", "the number of applied changes decreased", json!({"universe": ui, "log": u.log, "schedule": batches}));
                }
                prev_applied = applied_now;
                let obs = if obs_points.contains(&bi) {
                    match observe(&doc, &cands, None) {
                        Ok((o, st)) => {
                            rep.add("conflicted_registers", st.conflicts as u64);
                            format!("(Some {})", o)
                        }
                        Err(e) => {
                            rep.fail(&["C02", "C16"], "hist|read-failed", &e, json!({"universe": ui, "log": u.log, "schedule": batches}));
                            "None".to_string()
                        }
                    }
                } else {
                    "None".to_string()
                };
                steps_coq.push(format!(
                    "({},{},{},{},{})",
                    coq_nlist(b.iter().map(|x| *x as u128)),
                    st, coq_hashes(&heads), coq_hashes(&missing), obs
                ));
            }
            if saw_queue {
                rep.count("schedules_with_held_changes");
            }
            finals.push((format!("apply_changes schedule {}", si), render_plain(&doc, &cands), sorted_hashes(doc.get_heads())));
            group_cases.push((
                format!("chk_run u {}", coq_list(&steps_coq)),
                json!({"kind": "deliveries", "props": ["C01", "C02", "C05", "C04", "C38"], "universe": ui, "schedule": si, "log": u.log, "batches": batches}),
            ));
            rep.count("schedules");
        }

        // ---------- every replica, as edited and merged in memory, equals a reloaded copy of itself ----------
        // (local edits and merges maintain indexes incrementally, load rebuilds them: same changes, same state)
        for (ri, r) in u.replicas.iter_mut().enumerate() {
            let bytes = r.save();
            let mine = guard(|| render_plain(r.document(), &cands));
            let re = guard(|| Automerge::load(&bytes).map(|d| render_plain(&d, &cands)));
            match (mine, re) {
                (Ok(a), Ok(Ok(b))) => {
                    if a != b {
                        rep.fail(&["C01", "C02", "C11"], "hist|memory-vs-reloaded",
                            &format!("replica {} as edited in memory reads differently from load(save(replica))", ri),
                            json!({"universe": ui, "log": u.log, "replica": ri}));
                    }
                }
                (Ok(_), Ok(Err(e))) => rep.fail(&["C11", "C06"], "hist|replica-save-not-loadable", &format!("save() of replica {} does not load: {}", ri, e), json!({"universe": ui, "log": u.log})),
                (Err(p), _) | (_, Err(p)) => rep.fail(&["C37", "C02"], &format!("panic|read|{}", p.signature()), &format!("reading replica {} panicked: {}", ri, p.message), json!({"universe": ui, "log": u.log})),
            }
            rep.count("replicas_vs_reloaded");
        }

        // ---------- other paths to the same set of changes (C01) ----------
        {
            // merge of the replicas
            let mut m = u.replicas[0].fork();
            for i in 1..u.replicas.len() {
                let (x, y) = u.replicas.split_at_mut(i);
                let _ = &x;
                if m.merge(&mut y[0]).is_err() {
                    rep.fail(&["C01"], "hist|merge-failed", "merge of replicas failed", json!({"universe": ui, "log": u.log}));
                }
            }
            finals.push(("merge".into(), render_plain(m.document(), &cands), sorted_hashes(m.get_heads())));
            // save + load
            let bytes = m.save();
            match guard(|| Automerge::load(&bytes)) {
                Ok(Ok(d)) => finals.push(("save+load".into(), render_plain(&d, &cands), sorted_hashes(d.get_heads()))),
                Ok(Err(e)) => rep.fail(&["C01", "C11"], "hist|load-failed", &format!("load(save) failed: {}", e), json!({"universe": ui, "log": u.log})),
                Err(p) => rep.fail(&["C01", "C11", "C15"], &format!("panic|load|{}", p.signature()), &format!("load(save) panicked: {}", p.message), json!({"universe": ui, "log": u.log})),
            }
            // load_incremental of the raw change chunks in a shuffled order
            let mut order: Vec<usize> = (0..n).collect();
            rng.shuffle(&mut order);
            let mut d = Automerge::new_with_encoding(TextEncoding::UnicodeCodePoint);
            for i in order {
                let raw = u.changes[i].raw_bytes().to_vec();
                if let Err(e) = d.load_incremental(&raw) {
                    rep.fail(&["C01", "C12"], "hist|load_incremental-failed", &format!("load_incremental failed: {}", e), json!({"universe": ui, "log": u.log}));
                }
            }
            finals.push(("load_incremental".into(), render_plain(&d, &cands), sorted_hashes(d.get_heads())));
        }
        // pairwise equality of the final states (direct C01 search)
        for w in finals.windows(2) {
            if w[0].1 != w[1].1 || w[0].2 != w[1].2 {
                // a difference that involves a delivery order (apply_changes schedules, shuffled load_incremental) is
                // also a failure of "the final state does not depend on arrival order" (C05)
                let order_dependent = |p: &str| p.starts_with("apply_changes") || p.starts_with("load_incremental");
                let props: &[&str] = if order_dependent(&w[0].0) || order_dependent(&w[1].0) { &["C01", "C05"] } else { &["C01"] };
                rep.fail(props, "hist|divergence",
                    &format!("documents holding the same changes differ: {} vs {}", w[0].0, w[1].0),
                    json!({"universe": ui, "log": u.log}));
                break;
            }
        }

        // ---------- historical reads (C07) ----------
        {
            let mut all = Automerge::new_with_encoding(TextEncoding::UnicodeCodePoint);
            all.apply_changes(u.changes.clone()).unwrap();
            let mut hsets = u.head_sets.clone();
            rng.shuffle(&mut hsets);
            hsets.truncate(if thorough { 6 } else { 3 });
            for hs in hsets {
                let hs = sorted_hashes(hs);
                if hs.iter().any(|h| !idx_of.contains_key(h)) {
                    continue;
                }
                // objects that exist at these heads: created by an ancestor (computed here from deps)
                let mut anc: BTreeSet<usize> = BTreeSet::new();
                let mut stack: Vec<usize> = hs.iter().map(|h| idx_of[h]).collect();
                while let Some(i) = stack.pop() {
                    if anc.insert(i) {
                        for d in u.changes[i].deps() {
                            stack.push(idx_of[d]);
                        }
                    }
                }
                let anc_changes: Vec<Change> = anc.iter().map(|i| u.changes[*i].clone()).collect();
                let cands = object_ids(&anc_changes);
                let at = observe(&all, &cands, Some(&hs));
                let forked = guard(|| all.fork_at(&hs));
                match (&at, forked) {
                    (Ok((o, _)), Ok(Ok(f))) => {
                        let fo = render_plain(&f, &cands);
                        if *o != fo {
                            rep.fail(&["C07"], "hist|at-vs-fork", "reads at heads differ from reads of fork_at(heads)",
                                json!({"universe": ui, "log": u.log, "heads": hs.iter().map(|h| hex(&h.0)).collect::<Vec<_>>()}));
                        }
                        // the wider set of reads: range iterators, values, point reads, text, parents
                        match (guard(|| render_reads(&all, &cands, Some(&hs))), guard(|| render_reads(&f, &cands, None))) {
                            (Ok(a), Ok(b)) => {
                                if a != b {
                                    rep.fail(&["C07"], "hist|at-vs-fork-reads", "range / values / get / text / parents reads at heads differ from the same reads of fork_at(heads)",
                                        json!({"universe": ui, "log": u.log, "heads": hs.iter().map(|h| hex(&h.0)).collect::<Vec<_>>(),
                                               "first_difference": a.lines().zip(b.lines()).find(|(x, y)| x != y).map(|(x, y)| format!("at: {} | fork: {}", x, y))}));
                                }
                            }
                            (Err(p), _) | (_, Err(p)) => rep.fail(&["C07", "C37"], &format!("panic|read_at|{}", p.signature()), &format!("a historical read panicked: {}", p.message),
                                json!({"universe": ui, "log": u.log, "doc": hex(&all.save()), "heads": hs.iter().map(|h| hex(&h.0)).collect::<Vec<_>>()})),
                        }
                        // hydrate at heads
                        match (guard(|| render_hydrate(&all.hydrate(Some(&hs)))), guard(|| render_hydrate(&f.hydrate(None)))) {
                            (Ok(a), Ok(b)) => {
                                if a != b {
                                    rep.fail(&["C07"], "hist|at-vs-fork-hydrate", "hydrate(heads) differs from hydrate of fork_at(heads)", json!({"universe": ui, "log": u.log, "at": a, "fork": b}));
                                }
                            }
                            (Err(p), _) | (_, Err(p)) => rep.fail(&["C07", "C37"], &format!("panic|hydrate|{}", p.signature()), &format!("hydrate panicked: {}", p.message), json!({"universe": ui, "log": u.log})),
                        }
                        if sorted_hashes(f.get_heads()) != hs {
                            rep.fail(&["C07"], "hist|fork-heads", "fork_at(heads).get_heads() != heads",
                                json!({"universe": ui, "log": u.log}));
                        }
                        hist_cases.push((
                            format!("wf_hist_b u && chk_obs_at u {} {}", coq_hashes(&hs), o),
                            json!({"kind": "obs_at", "props": ["C07"], "universe": ui, "log": u.log, "heads": hs.iter().map(|h| hex(&h.0)).collect::<Vec<_>>()}),
                        ));
                        rep.count("historical_reads");
                    }
                    (Err(e), _) => rep.fail(&["C07"], "hist|read-at-failed", e, json!({"universe": ui, "log": u.log})),
                    (_, Ok(Err(e))) => rep.fail(&["C07"], "hist|fork_at-failed", &format!("fork_at failed: {}", e), json!({"universe": ui, "log": u.log})),
                    (_, Err(p)) => rep.fail(&["C07", "C37"], &format!("panic|fork_at|{}", p.signature()), &format!("fork_at panicked: {}", p.message), json!({"universe": ui, "log": u.log})),
                }
            }
        }

        // ---------- immutable history (C10) ----------
        {
            let mut all = Automerge::new_with_encoding(TextEncoding::UnicodeCodePoint);
            all.apply_changes(u.changes.clone()).unwrap();
            let bytes = all.save();
            let loaded = Automerge::load(&bytes).ok();
            for c in &u.changes {
                let h = c.hash();
                let a = all.get_change_by_hash(&h);
                let b = loaded.as_ref().and_then(|d| d.get_change_by_hash(&h));
                let ok = a.as_ref().map(|x| x.raw_bytes() == c.raw_bytes()).unwrap_or(false)
                    && b.as_ref().map(|x| x.raw_bytes() == c.raw_bytes()).unwrap_or(loaded.is_none());
                use sha2::Digest;
                // hash = SHA-256 of the chunk contents after magic+checksum
                let raw = c.raw_bytes();
                let digest = sha2::Sha256::digest(&raw[8..]);
                if !ok || digest.as_slice() != h.0 {
                    rep.fail(&["C10"], "hist|change-bytes", "a retrieved change differs from the change as created, or its hash is not the SHA-256 of its chunk",
                        json!({"universe": ui, "log": u.log, "hash": hex(&h.0)}));
                    break;
                }
            }
        }

        let key = fnv(format!("{:?}", u.changes.iter().map(|c| c.hash()).collect::<Vec<_>>()).as_bytes());
        let nontrivial = nrep >= 2 && total_ops >= 5;
        rep.case(if nontrivial { Some(key) } else { None });
        if ui < 2 {
            rep.sample(json!({"replicas": nrep, "changes": n, "ops": total_ops, "log": u.log.iter().take(25).collect::<Vec<_>>()}));
        }
        // the first n_model universes are also evaluated in the Coq model; the others are searched
        // directly on the implementation only (cheap), which multiplies the schedules explored
        if ui < n_model {
            cw.push_group(&group_defs, group_cases);
            // historical reads use the checker [wf_hist_b] that lives beside the C07 proofs
            let hist_defs = vec!["From AM Require Import Crdt.ClockProofs.".to_string(), group_defs[0].clone()];
            cw.push_group(&hist_defs, hist_cases);
        } else {
            rep.count("direct_only_universes");
        }
        group_defs.clear();
    }
    rep.model_cases = cw.total as u64;
    cw.finish();
    rep
}
