// Family "ids": C19 — identifiers and sync state serialize losslessly and resolve correctly
// (and the C15 part of the same decoders: untrusted bytes / strings never panic).
//
// A: universes of documents built through the public API by several actors; replicas that hold the
//    same base changes plus different sets of "extra" actors (so their sorted actor tables number
//    the base actors differently, and an id produced by a larger replica can carry a hint that is
//    out of range in a smaller one).  Object ids and cursors are encoded (bytes and text) in one
//    replica, decoded, and resolved in another; round trips and "same object / same element" are
//    checked directly, encodings byte-exact and resolution results against the Coq model.
// B: sync sessions through the codec: every generated Message and State is encoded, decoded,
//    compared; plus synthetic messages / states.
// C: malformed stream: random bytes, mutated valid encodings, random strings into every decoder;
//    accept / reject / decoded fields compared with the model decoders.
use crate::model::object_ids;
use crate::util::*;
use automerge::sync::{self, BloomFilter, Have, Message, MessageFlags, MessageVersion, SyncDoc};
use automerge::transaction::Transactable;
use automerge::{
    ActorId, AutoCommit, Automerge, AutomergeError, Change, ChangeHash, Cursor, CursorPosition, MoveCursor, ObjId,
    ObjType, ReadDoc, ROOT,
};
use serde_json::json;
use std::str::FromStr;

const HEADER: &str = "From AM Require Import Base.Prelude Codec.Bloom Codec.Hex Codec.ExId Codec.CursorCodec Codec.SyncCodec Exec.IdsExec.\nLocal Open Scope N_scope.\n";

// ---------------------------------------------------------------- Coq literals
/// byte string literal: short ones as a list, longer ones as (hb LEN 0xHEX), see Exec/IdsExec.v
fn cb(b: &[u8]) -> String {
    if b.len() <= 4 {
        crate::util::coq_bytes(b)
    } else {
        format!("(hb {} 0x{})", b.len(), hex(b))
    }
}
fn coq_s(s: &str) -> String {
    cb(s.as_bytes())
}
fn coq_exid(id: &ObjId) -> String {
    match id {
        ObjId::Root => "ERoot".to_string(),
        ObjId::Id(ctr, actor, hint) => format!("(EId {} {} {})", ctr, cb(actor.to_bytes()), hint),
    }
}
fn coq_hs(hs: &[ChangeHash]) -> String {
    coq_list(&hs.iter().map(|h| cb(&h.0)).collect::<Vec<_>>())
}
fn coq_table(t: &[ActorId]) -> String {
    coq_list(&t.iter().map(|a| cb(a.to_bytes())).collect::<Vec<_>>())
}
/// fields of a cursor, read from its Display form ("s" | "e" | [-]ctr@hex)
fn cursor_fields(c: &Cursor) -> Option<(u8, u64, Vec<u8>, bool)> {
    let s = c.to_string();
    if s == "s" {
        return Some((0, 0, vec![], false));
    }
    if s == "e" {
        return Some((1, 0, vec![], false));
    }
    let (before, rest) = match s.strip_prefix('-') {
        Some(r) => (true, r),
        None => (false, s.as_str()),
    };
    let n = rest.find('@')?;
    let ctr: u64 = rest[..n].parse().ok()?;
    let a = &rest[n + 1..];
    if a.len() % 2 != 0 || !a.bytes().all(|b| b.is_ascii_hexdigit()) {
        return None;
    }
    Some((2, ctr, unhex(a), before))
}
fn coq_cursor(c: &Cursor) -> Option<String> {
    let (k, ctr, a, before) = cursor_fields(c)?;
    Some(match k {
        0 => "CStart".to_string(),
        1 => "CEnd".to_string(),
        _ => format!("(COp {} {} {})", ctr, cb(&a), if before { "MBefore" } else { "MAfter" }),
    })
}
fn coq_filter(f: &BloomFilter) -> String {
    let v = serde_json::to_value(f).unwrap();
    let bits: Vec<u8> = v["bits"].as_array().unwrap().iter().map(|b| b.as_u64().unwrap() as u8).collect();
    format!(
        "(mkFilter {} {} {} {})",
        v["num_entries"].as_u64().unwrap(),
        v["num_bits_per_entry"].as_u64().unwrap(),
        v["num_probes"].as_u64().unwrap(),
        cb(&bits)
    )
}
fn flag_bits(f: &MessageFlags) -> u8 {
    let mut b = 0u8;
    for k in 0..8 {
        if f.contains(1 << k) {
            b |= 1 << k;
        }
    }
    b
}
fn mk_flags(bits: u8) -> MessageFlags {
    let mut f = MessageFlags::new();
    f.set(bits);
    f
}
fn coq_msg(m: &Message) -> String {
    let haves: Vec<String> =
        m.have.iter().map(|h| format!("(mkHave {} {})", coq_hs(&h.last_sync), coq_filter(&h.bloom))).collect();
    let changes: Vec<String> = m.changes.iter().map(|c| cb(c)).collect();
    format!(
        "(mkMsg {} {} {} {} {} {})",
        coq_hs(&m.heads),
        coq_hs(&m.need),
        coq_list(&haves),
        coq_list(&changes),
        match &m.flags {
            Some(f) => format!("(Some {})", flag_bits(f)),
            None => "None".to_string(),
        },
        match m.version {
            MessageVersion::V1 => "V1",
            MessageVersion::V2 => "V2",
        }
    )
}
fn state_rest(s: &sync::State) -> Vec<u128> {
    fn ol<T>(o: &Option<Vec<T>>) -> u128 {
        match o {
            None => 0,
            Some(v) => 1 + v.len() as u128,
        }
    }
    vec![
        s.last_sent_heads.len() as u128,
        ol(&s.their_heads),
        ol(&s.their_need),
        ol(&s.their_have),
        s.sent_hashes.len() as u128,
        s.in_flight as u128,
        s.have_responded as u128,
        ol(&s.their_capabilities),
        s.read_only as u128,
        s.peer_read_only as u128,
        s.needs_reset as u128,
    ]
}
const STATE_REST_DECODED: [u128; 11] = [0, 0, 0, 1, 0, 0, 0, 0, 0, 0, 0];

// ---------------------------------------------------------------- universes
struct Universe {
    base: Vec<Change>,
    extras: Vec<Vec<Change>>, // per extra actor
    log: Vec<String>,
}

fn mk_actor(rng: &mut Rng, first: Option<u8>) -> ActorId {
    let len = match rng.below(6) {
        0 => 1,
        1 => 2,
        2 => 16,
        3 => 17,
        _ => 1 + rng.below(20) as usize,
    };
    let mut b = rng.bytes(len);
    if let Some(f) = first {
        b[0] = f;
    }
    ActorId::from(b)
}

fn edit(doc: &mut AutoCommit, rng: &mut Rng, tag: &str, log: &mut Vec<String>) -> Result<(), AutomergeError> {
    // works on whatever lists / texts exist below the root keys "list" / "text"; creates new objects
    let list = doc.get(ROOT, "list")?.map(|x| x.1);
    let text = doc.get(ROOT, "text")?.map(|x| x.1);
    let n = 2 + rng.below(5);
    for k in 0..n {
        match rng.below(7) {
            0 | 1 => {
                if let Some(l) = &list {
                    let len = doc.length(l);
                    let i = rng.below(len as u64 + 1) as usize;
                    doc.insert(l, i, format!("{}{}", tag, k))?;
                    log.push(format!("{} insert list {}", tag, i));
                }
            }
            2 => {
                if let Some(l) = &list {
                    let len = doc.length(l);
                    if len > 1 {
                        let i = rng.below(len as u64) as usize;
                        doc.delete(l, i)?;
                        log.push(format!("{} delete list {}", tag, i));
                    }
                }
            }
            3 => {
                if let Some(t) = &text {
                    let len = doc.length(t);
                    let i = rng.below(len as u64 + 1) as usize;
                    let del = if len > i && rng.chance(1, 3) { 1 } else { 0 };
                    doc.splice_text(t, i, del, *rng.pick(&["a", "bc", "\u{e9}", "xyz"]))?;
                    log.push(format!("{} splice text {} {}", tag, i, del));
                }
            }
            4 => {
                if let Some(l) = &list {
                    let len = doc.length(l);
                    let i = rng.below(len as u64 + 1) as usize;
                    let ty = *rng.pick(&[ObjType::Map, ObjType::List, ObjType::Text]);
                    let o = doc.insert_object(l, i, ty)?;
                    match ty {
                        ObjType::Map => doc.put(&o, "k", k as i64)?,
                        ObjType::List => doc.insert(&o, 0, k as i64)?,
                        _ => doc.splice_text(&o, 0, 0, "in")?,
                    }
                    log.push(format!("{} insert_object list {} {:?}", tag, i, ty));
                }
            }
            5 => {
                let ty = *rng.pick(&[ObjType::Map, ObjType::List, ObjType::Text]);
                let o = doc.put_object(ROOT, format!("{}_{}", tag, k), ty)?;
                match ty {
                    ObjType::Map => doc.put(&o, "k", k as i64)?,
                    ObjType::List => {
                        doc.insert(&o, 0, 1)?;
                        doc.insert(&o, 1, 2)?
                    }
                    _ => doc.splice_text(&o, 0, 0, "new")?,
                }
                log.push(format!("{} put_object root {:?}", tag, ty));
            }
            _ => {
                doc.put(ROOT, format!("v{}", rng.below(3)), k as i64)?;
            }
        }
    }
    Ok(())
}

fn build_universe(rng: &mut Rng) -> Result<Universe, AutomergeError> {
    let mut log = vec![];
    let nb = 1 + rng.below(3) as usize;
    let ne = 1 + rng.below(3) as usize;
    // base actors start with a byte in 0x40..0xbf so that extras can sort before and after them
    let mut seen: Vec<ActorId> = vec![];
    let mut fresh = |rng: &mut Rng, first: u8| loop {
        let a = mk_actor(rng, Some(first));
        if !seen.contains(&a) {
            seen.push(a.clone());
            return a;
        }
    };
    let base_actors: Vec<ActorId> = (0..nb).map(|_| { let f = 0x40 + rng.below(0x80) as u8; fresh(rng, f) }).collect();
    let extra_actors: Vec<ActorId> = (0..ne)
        .map(|_| {
            let f = match rng.below(5) {
                0 | 1 => rng.below(0x40) as u8,          // sorts before every base actor
                2 => 0xc0 + rng.below(0x40) as u8,       // sorts after
                _ => 0x40 + rng.below(0x80) as u8,       // in between
            };
            fresh(rng, f)
        })
        .collect();
    log.push(format!("base actors {:?}", base_actors.iter().map(|a| a.to_hex_string()).collect::<Vec<_>>()));
    log.push(format!("extra actors {:?}", extra_actors.iter().map(|a| a.to_hex_string()).collect::<Vec<_>>()));
    let mut d0 = AutoCommit::new().with_actor(base_actors[0].clone());
    let list = d0.put_object(ROOT, "list", ObjType::List)?;
    for i in 0..(3 + rng.below(4)) {
        d0.insert(&list, i as usize, i as i64)?;
    }
    let text = d0.put_object(ROOT, "text", ObjType::Text)?;
    d0.splice_text(&text, 0, 0, "hello w\u{f6}rld")?;
    let map = d0.put_object(ROOT, "map", ObjType::Map)?;
    d0.put(&map, "k", "v")?;
    let inner = d0.put_object(&map, "inner", ObjType::List)?;
    d0.insert(&inner, 0, "deep")?;
    d0.commit();
    for (i, a) in base_actors.iter().enumerate().skip(1) {
        let mut f = d0.fork().with_actor(a.clone());
        edit(&mut f, rng, &format!("b{}", i), &mut log)?;
        f.commit();
        if rng.chance(1, 2) {
            edit(&mut d0, rng, "b0", &mut log)?;
            d0.commit();
        }
        d0.merge(&mut f)?;
    }
    if rng.chance(1, 2) {
        edit(&mut d0, rng, "b0x", &mut log)?;
        d0.commit();
    }
    let base = d0.get_changes(&[]);
    let mut extras = vec![];
    for (j, a) in extra_actors.iter().enumerate() {
        let mut e = if rng.chance(1, 2) { d0.fork().with_actor(a.clone()) } else { AutoCommit::new().with_actor(a.clone()) };
        // extras never touch the base objects: they create their own below the root
        let ty = *rng.pick(&[ObjType::Map, ObjType::List, ObjType::Text]);
        let o = e.put_object(ROOT, format!("e{}", j), ty)?;
        match ty {
            ObjType::Map => e.put(&o, "k", j as i64)?,
            ObjType::List => {
                e.insert(&o, 0, "x")?;
                e.insert(&o, 1, "y")?
            }
            _ => e.splice_text(&o, 0, 0, "extra")?,
        }
        e.commit();
        let have: Vec<ChangeHash> = base.iter().map(|c| c.hash()).collect();
        let cs: Vec<Change> = e.get_changes(&[]).into_iter().filter(|c| !have.contains(&c.hash())).collect();
        extras.push(cs);
    }
    Ok(Universe { base, extras, log })
}

struct Replica {
    doc: Automerge,
    table: Vec<ActorId>,
    extras: Vec<usize>,
}

fn mk_replica(u: &Universe, extras: &[usize]) -> Result<Replica, AutomergeError> {
    let mut doc = Automerge::new();
    let mut cs: Vec<Change> = u.base.clone();
    for &j in extras {
        cs.extend(u.extras[j].iter().cloned());
    }
    doc.apply_changes(cs.clone())?;
    let mut table: Vec<ActorId> = cs.iter().map(|c| c.actor_id().clone()).collect();
    table.sort();
    table.dedup();
    Ok(Replica { doc, table, extras: extras.to_vec() })
}

/// resolution status of an id in a document: 0 resolved (whether or not such an object exists),
/// 2 InvalidObjId from exid_to_opid, 3 panic
fn resolve_status(doc: &Automerge, id: &ObjId) -> (u128, Option<PanicInfo>) {
    match guard(|| doc.get_all(id, "zz")) {
        Err(p) => (3, Some(p)),
        Ok(Err(AutomergeError::InvalidObjId(_))) => (2, None),
        Ok(_) => (0, None),
    }
}

fn render_obj(doc: &Automerge, id: &ObjId) -> String {
    let ty = match doc.object_type(id) {
        Ok(t) => t,
        Err(e) => return format!("ERR object_type {:?}", std::mem::discriminant(&e)),
    };
    let mut s = format!("{:?}|", ty);
    if ty == ObjType::Text {
        s.push_str(&format!("{:?}|", doc.text(id)));
    }
    if ty.is_sequence() {
        let n = doc.length(id);
        s.push_str(&format!("len={}|", n));
        for i in 0..n {
            s.push_str(&format!("{:?};", doc.get_all(id, i)));
        }
    } else {
        for k in doc.keys(id) {
            s.push_str(&format!("{}={:?};", k, doc.get_all(id, k.as_str())));
        }
    }
    s
}

fn hint_class(hint: usize, table_len: usize, right: Option<usize>) -> &'static str {
    if Some(hint) == right {
        "hint-right"
    } else if hint < table_len {
        "hint-stale-in-range"
    } else {
        "hint-out-of-range"
    }
}

// ---------------------------------------------------------------- the family
pub fn run(rng: &mut Rng, tier: &str, out: &str) -> Report {
    let mut rep = Report::new("ids");
    let mut cw = CaseWriter::new(out, "ids", HEADER, 120);
    let thorough = tier == "thorough";
    let mut valid_exid_bytes: Vec<Vec<u8>> = vec![vec![0x00]];
    let mut valid_cursor_bytes: Vec<Vec<u8>> = vec![vec![1, 1], vec![1, 2]];
    let mut valid_strings: Vec<String> = vec!["_root".into(), "s".into(), "e".into()];
    let mut valid_msgs: Vec<Vec<u8>> = vec![];
    let mut valid_states: Vec<Vec<u8>> = vec![];
    let mut all_hashes: Vec<ChangeHash> = vec![];
    let mut all_actors: Vec<ActorId> = vec![];
    let mut a_table: Vec<ActorId> = vec![];
    let mut a_doc: Option<Automerge> = None;

    // ================= A: ids and cursors across replicas =================
    let n_universes = if thorough { 16 } else { 4 };
    for ui in 0..n_universes {
        let mut urng = rng.fork();
        let u = match guard(|| build_universe(&mut urng)) {
            Ok(Ok(u)) => u,
            Ok(Err(e)) => {
                rep.count("universe_build_error");
                rep.extra.insert(format!("universe_error_{}", ui), json!(format!("{}", e)));
                continue;
            }
            Err(p) => {
                rep.count("universe_build_panic");
                rep.extra.insert(format!("universe_panic_{}", ui), json!(p.signature()));
                continue;
            }
        };
        let ne = u.extras.len();
        let mut subsets: Vec<Vec<usize>> = vec![vec![], (0..ne).collect()];
        for _ in 0..2 {
            let s: Vec<usize> = (0..ne).filter(|_| rng.chance(1, 2)).collect();
            if !subsets.contains(&s) {
                subsets.push(s);
            }
        }
        let mut reps: Vec<Replica> = vec![];
        for s in &subsets {
            match mk_replica(&u, s) {
                Ok(r) => reps.push(r),
                Err(e) => {
                    rep.fail(&["C19"], "ids|harness|replica-build", &format!("cannot build a replica: {}", e), json!({"log": u.log}));
                }
            }
        }
        if reps.len() < 2 {
            continue;
        }
        for r in &reps {
            if r.doc.stats().num_actors as usize != r.table.len() {
                rep.fail(&["C19"], "ids|harness|actor-table", "actor table of a replica is not the sorted set of its changes' actors",
                    json!({"log": u.log, "table": r.table.len(), "num_actors": r.doc.stats().num_actors}));
            }
        }
        let mut all_changes = u.base.clone();
        for e in &u.extras {
            all_changes.extend(e.iter().cloned());
        }
        for c in &all_changes {
            all_hashes.push(c.hash());
            if !all_actors.contains(c.actor_id()) {
                all_actors.push(c.actor_id().clone());
            }
        }
        let objs = object_ids(&all_changes);
        rep.add("objects", objs.len() as u64);
        rep.count("universes");
        let nr = reps.len();
        for (oid, _ty) in &objs {
            let text = oid.to_string();
            valid_strings.push(text.clone());
            // (producer, resolver) pairs: all ordered pairs in thorough, two random ones in quick
            let mut pairs: Vec<(usize, usize)> = vec![];
            // the largest replica as producer and the smallest as resolver first (stale / out-of-range hints)
            pairs.push((1, 0));
            pairs.push((rng.below(nr as u64) as usize, rng.below(nr as u64) as usize));
            if thorough {
                pairs.push((0, 1));
                pairs.push((rng.below(nr as u64) as usize, rng.below(nr as u64) as usize));
                pairs.push((rng.below(nr as u64) as usize, rng.below(nr as u64) as usize));
            }
            for (pi, qi) in pairs {
                let p = &reps[pi];
                let q = &reps[qi];
                // native id in the producer
                let native_p = match guard(|| p.doc.import_obj(&text)) {
                    Ok(Ok(id)) => id,
                    Ok(Err(_)) => {
                        rep.count("producer_lacks_actor");
                        continue;
                    }
                    Err(pn) => {
                        rep.fail(&["C19", "C15"], &format!("panic|import_obj|{}", pn.signature()), &format!("import_obj panicked: {}", pn.message), json!({"text": text, "log": u.log}));
                        continue;
                    }
                };
                // model: import_obj against the producer's table
                cw.push(
                    format!("chk_import {} {} 0 {}", coq_table(&p.table), coq_s(&text), coq_exid(&native_p)),
                    json!({"kind": "import", "text": text, "universe": ui}),
                );
                let wire = native_p.to_bytes();
                valid_exid_bytes.push(wire.clone());
                cw.push(
                    format!("chk_exid_enc {} {} {}", coq_exid(&native_p), cb(&wire), coq_s(&native_p.to_string())),
                    json!({"kind": "exid-enc", "text": text, "universe": ui}),
                );
                let decoded = match guard(|| ObjId::try_from(&wire[..])) {
                    Ok(Ok(d)) => d,
                    Ok(Err(e)) => {
                        rep.fail(&["C19"], "ids|roundtrip|exid-bytes-rejected", &format!("own encoding rejected: {}", e), json!({"text": text, "wire": hex(&wire)}));
                        continue;
                    }
                    Err(pn) => {
                        rep.fail(&["C19", "C15"], &format!("panic|ObjId::try_from|{}", pn.signature()), &format!("ObjId::try_from panicked: {}", pn.message), json!({"wire": hex(&wire)}));
                        continue;
                    }
                };
                // direct: lossless, hint included
                let same = match (&decoded, &native_p) {
                    (ObjId::Root, ObjId::Root) => true,
                    (ObjId::Id(c1, a1, h1), ObjId::Id(c2, a2, h2)) => c1 == c2 && a1 == a2 && h1 == h2,
                    _ => false,
                };
                if !same || decoded != native_p || decoded.to_string() != text {
                    rep.fail(&["C19"], "ids|roundtrip|exid-bytes-differs", "decoded object id differs from the encoded one", json!({"text": text, "wire": hex(&wire), "decoded": format!("{:?}", decoded)}));
                }
                cw.push(
                    format!("chk_exid_dec {} 0 {}", cb(&wire), coq_exid(&decoded)),
                    json!({"kind": "exid-dec", "wire": hex(&wire), "universe": ui}),
                );
                // resolve the decoded id in the other replica
                let native_q = q.doc.import_obj(&text).ok();
                let idx_q = match &native_q {
                    Some(ObjId::Id(_, _, i)) => Some(*i),
                    _ => None,
                };
                let hint = match &decoded {
                    ObjId::Id(_, _, h) => *h,
                    ObjId::Root => 0,
                };
                let cls = if matches!(decoded, ObjId::Root) { "root" } else { hint_class(hint, q.table.len(), idx_q) };
                let (st, pn) = resolve_status(&q.doc, &decoded);
                if let Some(pn) = pn {
                    rep.fail(&["C19", "C37"], &format!("panic|resolve|{}", pn.signature()), &format!("reading through a decoded id panicked: {}", pn.message),
                        json!({"text": text, "producer_extras": p.extras, "resolver_extras": q.extras, "log": u.log}));
                }
                if let Some(nq) = &native_q {
                    // the resolver knows the actor; if it holds the object, the decoded id must reach the same object
                    let want = render_obj(&q.doc, nq);
                    let got = match guard(|| render_obj(&q.doc, &decoded)) {
                        Ok(s) => s,
                        Err(pn) => format!("PANIC {}", pn.signature()),
                    };
                    if want != got {
                        rep.fail(&["C19"], &format!("ids|resolve|cross-replica|{}", cls),
                            "an object id decoded from another replica's bytes does not reach the same object",
                            json!({"text": text, "wire": hex(&wire), "producer_extras": p.extras, "resolver_extras": q.extras,
                                   "resolver_table": q.table.iter().map(|a| a.to_hex_string()).collect::<Vec<_>>(), "want": want, "got": got, "log": u.log}));
                    }
                }
                cw.push(
                    format!("chk_resolve {} {} {} {}", coq_table(&q.table), coq_exid(&decoded), st, idx_q.unwrap_or(0)),
                    json!({"kind": "resolve", "text": text, "class": cls, "universe": ui, "producer_extras": p.extras, "resolver_extras": q.extras}),
                );
                rep.count(&format!("resolve_{}", cls));
                rep.case(if p.table != q.table { Some(fnv(format!("{}|{}|{:?}|{:?}", ui, text, p.extras, q.extras).as_bytes())) } else { None });

                // ---- cursors of this object, produced in p, resolved in q through the decoded object id
                let ty = p.doc.object_type(&native_p).ok();
                if ty.map(|t| t.is_sequence()).unwrap_or(false) {
                    let n = p.doc.length(&native_p);
                    let mut positions: Vec<CursorPosition> = vec![CursorPosition::Start, CursorPosition::End];
                    let mut idxs: Vec<usize> = vec![];
                    if n > 0 {
                        idxs.push(0);
                        idxs.push(n - 1);
                        idxs.push(rng.below(n as u64) as usize);
                    }
                    for i in &idxs {
                        positions.push(CursorPosition::Index(*i));
                    }
                    for pos in positions {
                        let mv = if rng.chance(1, 2) { MoveCursor::Before } else { MoveCursor::After };
                        let c = match guard(|| p.doc.get_cursor_moving(&native_p, pos, None, mv)) {
                            Ok(Ok(c)) => c,
                            Ok(Err(_)) => continue,
                            Err(pn) => {
                                rep.fail(&["C19", "C37"], &format!("panic|get_cursor|{}", pn.signature()), &pn.message, json!({"text": text, "log": u.log}));
                                continue;
                            }
                        };
                        let cwire = c.to_bytes();
                        let cstr = c.to_string();
                        valid_cursor_bytes.push(cwire.clone());
                        valid_strings.push(cstr.clone());
                        let Some(cterm) = coq_cursor(&c) else { continue };
                        cw.push(format!("chk_cursor_enc {} {} {}", cterm, cb(&cwire), coq_s(&cstr)), json!({"kind": "cursor-enc", "cursor": cstr}));
                        let db = guard(|| Cursor::try_from(&cwire[..]));
                        let ds = guard(|| Cursor::try_from(cstr.as_str()));
                        let mut decoded_c = None;
                        for (form, d) in [("bytes", db), ("string", ds)] {
                            match d {
                                Ok(Ok(d)) => {
                                    if d != c {
                                        rep.fail(&["C19"], &format!("ids|roundtrip|cursor-{}-differs", form), "decoded cursor differs from the encoded one",
                                            json!({"cursor": cstr, "wire": hex(&cwire), "decoded": d.to_string()}));
                                    }
                                    decoded_c = Some(d);
                                }
                                Ok(Err(_)) => rep.fail(&["C19"], &format!("ids|roundtrip|cursor-{}-rejected", form), "own cursor encoding rejected", json!({"cursor": cstr, "wire": hex(&cwire)})),
                                Err(pn) => rep.fail(&["C19", "C15"], &format!("panic|Cursor::try_from|{}", pn.signature()), &pn.message, json!({"cursor": cstr, "wire": hex(&cwire)})),
                            }
                        }
                        cw.push(format!("chk_cursor_dec {} 0 {}", cb(&cwire), cterm), json!({"kind": "cursor-dec", "wire": hex(&cwire)}));
                        cw.push(format!("chk_cursor_str {} 0 {}", coq_s(&cstr), cterm), json!({"kind": "cursor-str", "cursor": cstr}));
                        let Some(dc) = decoded_c else { continue };
                        if native_q.is_none() {
                            continue;
                        }
                        // base objects have the same content in every replica; objects of extras exist only where the extra is
                        let want = p.doc.get_cursor_position(&native_p, &c, None).ok();
                        let got = guard(|| q.doc.get_cursor_position(&decoded, &dc, None));
                        let q_has = q.doc.object_type(native_q.as_ref().unwrap()).is_ok();
                        match got {
                            Err(pn) => rep.fail(&["C19", "C37"], &format!("panic|get_cursor_position|{}", pn.signature()), &pn.message, json!({"cursor": cstr, "text": text, "log": u.log})),
                            Ok(g) => {
                                if q_has {
                                    if g.as_ref().ok().copied() != want || want.is_none() {
                                        rep.fail(&["C19"], &format!("ids|resolve|cursor-cross-replica|{}", cls),
                                            "a cursor decoded in another replica does not refer to the same element",
                                            json!({"cursor": cstr, "object": text, "want": want, "got": format!("{:?}", g), "producer_extras": p.extras, "resolver_extras": q.extras, "log": u.log}));
                                    }
                                    // the model only speaks about the cursor's own resolution: use the native object id
                                    let ok_native = q.doc.get_cursor_position(native_q.as_ref().unwrap(), &dc, None).is_ok();
                                    cw.push(format!("chk_cursor_resolve {} {} {}", coq_table(&q.table), cterm, coq_bool(ok_native)),
                                        json!({"kind": "cursor-resolve", "cursor": cstr, "object": text}));
                                    rep.count("cursor_resolve");
                                }
                            }
                        }
                        rep.case(if p.table != q.table { Some(fnv(format!("{}|{}|{}|{:?}|{:?}", ui, text, cstr, p.extras, q.extras).as_bytes())) } else { None });
                    }
                }
            }
            // synthetic hints / counters / unknown actors against one replica
            if let ObjId::Id(ctr, actor, _) = oid {
                let q = &reps[rng.below(nr as u64) as usize];
                let idx_q = match q.doc.import_obj(&text) {
                    Ok(ObjId::Id(_, _, i)) => Some(i),
                    _ => None,
                };
                let tl = q.table.len();
                let mut hints: Vec<usize> = vec![0, tl.saturating_sub(1), tl, tl + 1, u32::MAX as usize, u32::MAX as usize + 1, usize::MAX];
                hints.push(rng.below(tl as u64 + 2) as usize);
                let pick = if thorough { 4 } else { 2 };
                rng.shuffle(&mut hints);
                for &h in hints.iter().take(pick) {
                    let (c2, a2) = match rng.below(8) {
                        0 => (u32::MAX as u64 + 1 + rng.below(5), actor.clone()),
                        1 => (*ctr, mk_actor(rng, None)),
                        2 => (u32::MAX as u64, actor.clone()),
                        _ => (*ctr, actor.clone()),
                    };
                    let id = ObjId::Id(c2, a2.clone(), h);
                    let known = q.doc.import_obj(&id.to_string()).ok();
                    let idx = match &known {
                        Some(ObjId::Id(_, _, i)) => Some(*i),
                        _ => None,
                    };
                    let cls = hint_class(h, tl, idx);
                    let (st, pn) = resolve_status(&q.doc, &id);
                    if let Some(pn) = pn {
                        rep.fail(&["C19", "C37"], &format!("panic|resolve|{}", pn.signature()), &format!("reading through an id panicked: {}", pn.message), json!({"id": format!("{:?}", id), "log": u.log}));
                    }
                    if let (Some(k), true) = (&known, c2 == *ctr && a2 == *actor) {
                        let want = render_obj(&q.doc, k);
                        let got = guard(|| render_obj(&q.doc, &id)).unwrap_or_else(|pn| format!("PANIC {}", pn.signature()));
                        if want != got {
                            rep.fail(&["C19"], &format!("ids|resolve|hint|{}", cls), "the same object id with another actor-index hint reaches another object (or none)",
                                json!({"id": format!("{:?}", id), "table": q.table.iter().map(|a| a.to_hex_string()).collect::<Vec<_>>(), "want": want, "got": got, "log": u.log}));
                        }
                    }
                    let _ = idx_q;
                    cw.push(format!("chk_resolve {} {} {} {}", coq_table(&q.table), coq_exid(&id), st, idx.unwrap_or(0)),
                        json!({"kind": "resolve-synthetic", "id": format!("{:?}", id), "class": cls}));
                    rep.count(&format!("synthetic_{}", cls));
                    rep.case(None);
                }
            }
        }
        {
            let d = &reps[0].doc;
            let seqs: Vec<ObjId> = objs.iter().map(|o| o.0.clone()).filter(|o| d.object_type(o).map(|t| t.is_sequence()).unwrap_or(false) && d.length(o) > 0).collect();
            if seqs.len() >= 2 {
                let (a, b) = (&seqs[0], &seqs[1]);
                if let Ok(c) = d.get_cursor(a, 0, None) {
                    rep.count("cursor_other_object_probe");
                    if let Err(pn) = guard(|| d.get_cursor_position(b, &c, None)) {
                        rep.fail(&["C37", "C26", "C15"], &format!("panic|get_cursor_position|{}", pn.signature()),
                            &format!("get_cursor_position(B, cursor of an element of another sequence A) panicked: {}", pn.message),
                            json!({"object_a": a.to_string(), "object_b": b.to_string(), "cursor": c.to_string(), "log": u.log}));
                    }
                }
            }
        }
        if ui == 0 {
            rep.sample(json!({"kind": "universe", "log": u.log, "tables": reps.iter().map(|r| r.table.iter().map(|a| a.to_hex_string()).collect::<Vec<_>>()).collect::<Vec<_>>()}));
        }
        // ================= B1: a sync session between the largest replica and a small / fresh one
        let mut a = reps[1].doc.clone();
        let mut b = if rng.chance(1, 2) { Automerge::new() } else { reps[0].doc.clone() };
        let mut sa = sync::State::new();
        let mut sb = sync::State::new();
        if rng.chance(1, 4) {
            sb = sync::State::new_read_only();
        }
        for round in 0..12 {
            let mut quiet = true;
            for side in 0..2 {
                let (from, to, sfrom, sto) = if side == 0 { (&mut a, &mut b, &mut sa, &mut sb) } else { (&mut b, &mut a, &mut sb, &mut sa) };
                let Some(msg) = from.generate_sync_message(sfrom) else { continue };
                quiet = false;
                let through = check_message(&mut rep, &mut cw, &msg, "session", &mut valid_msgs);
                check_state(&mut rep, &mut cw, sfrom, "session", &mut valid_states);
                // the peer receives what the codec delivered
                let deliver = through.unwrap_or(msg);
                let flags = deliver.flags.map(|f| flag_bits(&f));
                let before_caps = sto.their_capabilities.clone();
                match guard(|| to.receive_sync_message(sto, deliver)) {
                    Ok(Ok(())) => {
                        // capabilities derived from the flags
                        if before_caps.is_none() {
                            let caps = sto.their_capabilities.as_ref().map(|cs| {
                                coq_nlist(cs.iter().map(|c| match c {
                                    sync::Capability::MessageV1 => 1u128,
                                    sync::Capability::MessageV2 => 2,
                                    sync::Capability::SyncReset => 3,
                                }))
                            });
                            cw.push(format!("chk_caps {} {}", coq_opt(flags.map(|f| f.to_string())), coq_opt(caps)), json!({"kind": "caps", "flags": flags}));
                        }
                    }
                    Ok(Err(_)) => rep.count("session_receive_error"),
                    Err(pn) => rep.fail(&["C19", "C37"], &format!("panic|receive_sync_message|{}", pn.signature()), &pn.message, json!({"log": u.log, "round": round})),
                }
            }
            if quiet {
                break;
            }
        }
        rep.count("sessions");
        if a_doc.is_none() {
            a_table = reps[1].table.clone();
            a_doc = Some(reps[1].doc.clone());
        }
    }

    // ================= A2: actor ids and change hashes as text =================
    let n_hex = if thorough { 200 } else { 24 };
    for i in 0..n_hex {
        let a = if i < all_actors.len() { all_actors[i].clone() } else { let n = rng.below(40) as usize; ActorId::from(rng.bytes(n)) };
        let s = a.to_hex_string();
        let back = guard(|| ActorId::try_from(s.as_str()));
        match &back {
            Ok(Ok(b)) if *b == a && a.to_string() == s && ActorId::from_str(&s).ok().as_ref() == Some(&a) => {}
            Ok(_) => rep.fail(&["C19"], "ids|roundtrip|actor-hex", "actor id does not survive its hex form", json!({"actor": s})),
            Err(pn) => rep.fail(&["C19", "C15"], &format!("panic|ActorId::try_from|{}", pn.signature()), &pn.message, json!({"actor": s})),
        }
        cw.push(format!("chk_actor_hex {} {}", cb(a.to_bytes()), coq_s(&s)), json!({"kind": "actor-hex", "actor": s}));
        cw.push(format!("chk_actor_parse {} 0 {}", coq_s(&s), cb(a.to_bytes())), json!({"kind": "actor-parse", "actor": s}));
        let up = s.to_uppercase();
        if let Ok(Ok(b)) = guard(|| ActorId::try_from(up.as_str())) {
            cw.push(format!("chk_actor_parse {} 0 {}", coq_s(&up), cb(b.to_bytes())), json!({"kind": "actor-parse", "actor": up}));
        }
        valid_strings.push(s);
        let h = if i < all_hashes.len() { all_hashes[i] } else { let mut x = [0u8; 32]; x.copy_from_slice(&rng.bytes(32)); ChangeHash(x) };
        let hs = h.to_string();
        match guard(|| ChangeHash::from_str(&hs)) {
            Ok(Ok(b)) if b == h && ChangeHash::try_from(&h.0[..]).ok() == Some(h) => {}
            Ok(_) => rep.fail(&["C19"], "ids|roundtrip|hash-hex", "change hash does not survive its hex form", json!({"hash": hs})),
            Err(pn) => rep.fail(&["C19", "C15"], &format!("panic|ChangeHash::from_str|{}", pn.signature()), &pn.message, json!({"hash": hs})),
        }
        cw.push(format!("chk_hash_hex {} {}", cb(&h.0), coq_s(&hs)), json!({"kind": "hash-hex", "hash": hs}));
        cw.push(format!("chk_hash_parse {} 0 {}", coq_s(&hs), cb(&h.0)), json!({"kind": "hash-parse", "hash": hs}));
        valid_strings.push(hs);
        rep.count("hex");
        rep.case(None);
    }

    // ================= B2: synthetic messages and states =================
    let n_syn = if thorough { 300 } else { 30 };
    let rand_hashes = |rng: &mut Rng, pool: &[ChangeHash], max: u64| -> Vec<ChangeHash> {
        let n = rng.below(max + 1) as usize;
        let mut v: Vec<ChangeHash> = (0..n)
            .map(|_| {
                if !pool.is_empty() && rng.chance(1, 2) {
                    *rng.pick(pool)
                } else {
                    let mut x = [0u8; 32];
                    x.copy_from_slice(&rng.bytes(32));
                    ChangeHash(x)
                }
            })
            .collect();
        v.sort();
        v
    };
    for i in 0..n_syn {
        let heads = rand_hashes(rng, &all_hashes, 3);
        let need = rand_hashes(rng, &all_hashes, 2);
        let nh = rng.below(3);
        let have: Vec<Have> = (0..nh)
            .map(|_| {
                let ls = rand_hashes(rng, &all_hashes, 2);
                let members = rand_hashes(rng, &all_hashes, 6);
                Have { last_sync: ls, bloom: BloomFilter::from_hashes(members.iter()) }
            })
            .collect();
        let nc = rng.below(4);
        let changes: Vec<Vec<u8>> = (0..nc)
            .map(|_| {
                let n = match rng.below(5) { 0 => 0, 1 => 127, 2 => 128, 3 => 300, _ => rng.below(40) as usize };
                rng.bytes(n)
            })
            .collect();
        let flags = match rng.below(4) {
            0 => None,
            1 => Some(mk_flags(0)),
            _ => Some(mk_flags(rng.below(128) as u8)),
        };
        let version = if rng.chance(1, 2) { MessageVersion::V1 } else { MessageVersion::V2 };
        let msg = Message { heads, need, have, changes: changes.into(), flags, version };
        check_message(&mut rep, &mut cw, &msg, "synthetic", &mut valid_msgs);
        let mut st = sync::State::new();
        st.shared_heads = rand_hashes(rng, &all_hashes, 4);
        st.last_sent_heads = rand_hashes(rng, &all_hashes, 2);
        st.in_flight = rng.chance(1, 2);
        st.have_responded = rng.chance(1, 2);
        check_state(&mut rep, &mut cw, &st, "synthetic", &mut valid_states);
        if i < 3 {
            // hashes out of order: encode_hashes' debug_assert fires in this (debug) profile; the model has the same Panic
            let mut hs = rand_hashes(rng, &[], 3);
            while hs.len() < 2 {
                hs = rand_hashes(rng, &[], 3);
            }
            hs.reverse();
            let st = sync::State { shared_heads: hs.clone(), ..Default::default() };
            let r = guard(|| st.encode());
            let (code, wire) = match r { Ok(w) => (0, w), Err(_) => (3, vec![]) };
            cw.push(format!("chk_state_enc {} {} {}", coq_hs(&hs), code, cb(&wire)), json!({"kind": "state-enc-unsorted"}));
            rep.count(if code == 3 { "unsorted_encode_debug_assert" } else { "unsorted_encode_ok" });
        }
    }
    // degenerate values that the types admit but the wire format cannot carry (reported, see known_findings)
    for bits in [0x80u8, 0x85] {
        let msg = Message { heads: vec![], need: vec![], have: vec![], changes: Vec::<Vec<u8>>::new().into(), flags: Some(mk_flags(bits)), version: MessageVersion::V1 };
        check_message(&mut rep, &mut cw, &msg, "flags-bit7", &mut valid_msgs);
    }
    for raw in [vec![0u8, 5, 3], vec![0u8, 10, 9]] {
        if let Ok(f) = BloomFilter::try_from(&raw[..]) {
            let msg = Message { heads: vec![], need: vec![], have: vec![Have { last_sync: vec![], bloom: f }], changes: Vec::<Vec<u8>>::new().into(), flags: None, version: MessageVersion::V1 };
            check_message(&mut rep, &mut cw, &msg, "bloom-zero-entries", &mut valid_msgs);
        }
    }

    // ================= C: malformed stream =================
    let doc = a_doc.unwrap_or_else(Automerge::new);
    let n_mal = if thorough { 1200 } else { 80 };
    let leb_extremes: Vec<Vec<u8>> = vec![
        vec![0x80, 0x00], vec![0xff, 0xff, 0xff, 0xff, 0xff, 0xff, 0xff, 0xff, 0xff, 0x01], vec![0xff, 0xff, 0xff, 0xff, 0xff, 0xff, 0xff, 0xff, 0xff, 0x02],
        vec![0x80, 0x80, 0x80, 0x80, 0x80, 0x80, 0x80, 0x80, 0x80, 0x80, 0x01], vec![0xff, 0xff, 0xff, 0xff, 0x0f], vec![0x80, 0x80, 0x80, 0x80, 0x10], vec![0x7f], vec![0x80],
    ];
    let mutate = |rng: &mut Rng, pool: &[Vec<u8>]| -> Vec<u8> {
        if pool.is_empty() || rng.chance(1, 6) {
            let n = rng.below(24) as usize;
            return rng.bytes(n);
        }
        let mut b = rng.pick(pool).clone();
        match rng.below(7) {
            0 => {
                let k = rng.below(b.len() as u64 + 1) as usize;
                b.truncate(k);
            }
            1 => {
                if !b.is_empty() {
                    let k = rng.below(b.len() as u64) as usize;
                    b[k] = rng.next() as u8;
                }
            }
            2 => {
                if !b.is_empty() {
                    let k = rng.below(b.len() as u64) as usize;
                    b[k] ^= 1 << rng.below(8);
                }
            }
            3 => {
                let k = rng.below(b.len() as u64 + 1) as usize;
                let ins = rng.pick(&leb_extremes).clone();
                b.splice(k..k, ins);
            }
            4 => {
                let n = 1 + rng.below(4) as usize;
                b.extend(rng.bytes(n));
            }
            5 => {
                if b.len() > 2 {
                    let k = 1 + rng.below(b.len() as u64 - 1) as usize;
                    let ins = rng.pick(&leb_extremes).clone();
                    let end = (k + ins.len()).min(b.len());
                    b.splice(k..end, ins);
                }
            }
            _ => {}
        }
        b
    };
    for i in 0..n_mal {
        // --- object id bytes
        let bs = mutate(rng, &valid_exid_bytes);
        match guard(|| ObjId::try_from(&bs[..])) {
            Ok(Ok(id)) => {
                cw.push(format!("chk_exid_dec {} 0 {}", cb(&bs), coq_exid(&id)), json!({"kind": "mal-exid", "bytes": hex(&bs)}));
                rep.count("mal_exid_ok");
                // a decoded id must be usable without a crash (C15 / C37) and re-encode to something that decodes to itself
                let again = ObjId::try_from(&id.to_bytes()[..]);
                let same = match (&again, &id) {
                    (Ok(ObjId::Root), ObjId::Root) => true,
                    (Ok(ObjId::Id(c1, a1, h1)), ObjId::Id(c2, a2, h2)) => c1 == c2 && a1 == a2 && h1 == h2,
                    _ => false,
                };
                if !same {
                    rep.fail(&["C19"], "ids|roundtrip|exid-bytes-differs", "re-encoding a decoded object id does not round trip", json!({"bytes": hex(&bs)}));
                }
                let (st, pn) = resolve_status(&doc, &id);
                if let Some(pn) = pn {
                    rep.fail(&["C19", "C15", "C37"], &format!("panic|resolve|{}", pn.signature()), &pn.message, json!({"bytes": hex(&bs)}));
                }
                let idx = match doc.import_obj(&id.to_string()) {
                    Ok(ObjId::Id(_, _, i)) => i,
                    _ => 0,
                };
                cw.push(format!("chk_resolve {} {} {} {}", coq_table(&a_table), coq_exid(&id), st, idx), json!({"kind": "mal-resolve", "bytes": hex(&bs)}));
            }
            Ok(Err(_)) => {
                cw.push(format!("chk_exid_dec {} 2 ERoot", cb(&bs)), json!({"kind": "mal-exid", "bytes": hex(&bs)}));
                rep.count("mal_exid_err");
            }
            Err(pn) => {
                rep.fail(&["C19", "C15"], &format!("panic|ObjId::try_from|{}", pn.signature()), &pn.message, json!({"bytes": hex(&bs)}));
                cw.push(format!("chk_exid_dec {} 3 ERoot", cb(&bs)), json!({"kind": "mal-exid", "bytes": hex(&bs)}));
            }
        }
        // --- cursor bytes
        let bs = mutate(rng, &valid_cursor_bytes);
        match guard(|| Cursor::try_from(&bs[..])) {
            Ok(Ok(c)) => {
                if let Some(t) = coq_cursor(&c) {
                    cw.push(format!("chk_cursor_dec {} 0 {}", cb(&bs), t), json!({"kind": "mal-cursor", "bytes": hex(&bs)}));
                }
                rep.count("mal_cursor_ok");
                if Cursor::try_from(&c.to_bytes()[..]).ok().as_ref() != Some(&c) || Cursor::try_from(c.to_string().as_str()).ok().as_ref() != Some(&c) {
                    rep.fail(&["C19"], "ids|roundtrip|cursor-reencode", "re-encoding a decoded cursor does not round trip", json!({"bytes": hex(&bs)}));
                }
                if let Ok(Some((_, list))) = doc.get(ROOT, "list") {
                    // using a decoded cursor must not crash; a cursor that names an op of ANOTHER object is a
                    // question about cursor use (C26 / C37 / C15), not about the codec or id resolution
                    if let Err(pn) = guard(|| doc.get_cursor_position(&list, &c, None)) {
                        rep.fail(&["C15", "C37", "C26"], &format!("panic|get_cursor_position|{}", pn.signature()), &format!("get_cursor_position(list, cursor decoded from bytes) panicked: {}", pn.message), json!({"bytes": hex(&bs), "cursor": c.to_string()}));
                    }
                }
            }
            Ok(Err(_)) => {
                cw.push(format!("chk_cursor_dec {} 2 CStart", cb(&bs)), json!({"kind": "mal-cursor", "bytes": hex(&bs)}));
                rep.count("mal_cursor_err");
            }
            Err(pn) => {
                rep.fail(&["C19", "C15"], &format!("panic|Cursor::try_from|{}", pn.signature()), &pn.message, json!({"bytes": hex(&bs)}));
                cw.push(format!("chk_cursor_dec {} 3 CStart", cb(&bs)), json!({"kind": "mal-cursor", "bytes": hex(&bs)}));
            }
        }
        // --- strings
        let s = mutate_string(rng, &valid_strings);
        match guard(|| Cursor::try_from(s.as_str())) {
            Ok(Ok(c)) => {
                if let Some(t) = coq_cursor(&c) {
                    cw.push(format!("chk_cursor_str {} 0 {}", coq_s(&s), t), json!({"kind": "mal-cursor-str", "string": s}));
                }
                rep.count("mal_cursor_str_ok");
            }
            Ok(Err(_)) => {
                cw.push(format!("chk_cursor_str {} 2 CStart", coq_s(&s)), json!({"kind": "mal-cursor-str", "string": s}));
                rep.count("mal_cursor_str_err");
            }
            Err(pn) => {
                rep.fail(&["C19", "C15"], &format!("panic|Cursor::try_from(str)|{}", pn.signature()), &pn.message, json!({"string": s}));
                cw.push(format!("chk_cursor_str {} 3 CStart", coq_s(&s)), json!({"kind": "mal-cursor-str", "string": s}));
            }
        }
        match guard(|| doc.import_obj(&s)) {
            Ok(Ok(id)) => {
                cw.push(format!("chk_import {} {} 0 {}", coq_table(&a_table), coq_s(&s), coq_exid(&id)), json!({"kind": "mal-import", "string": s}));
                rep.count("mal_import_ok");
            }
            Ok(Err(_)) => {
                cw.push(format!("chk_import {} {} 2 ERoot", coq_table(&a_table), coq_s(&s)), json!({"kind": "mal-import", "string": s}));
                rep.count("mal_import_err");
            }
            Err(pn) => {
                rep.fail(&["C19", "C15"], &format!("panic|import_obj|{}", pn.signature()), &pn.message, json!({"string": s}));
                cw.push(format!("chk_import {} {} 3 ERoot", coq_table(&a_table), coq_s(&s)), json!({"kind": "mal-import", "string": s}));
            }
        }
        if i % 2 == 0 {
            match guard(|| ActorId::try_from(s.as_str())) {
                Ok(Ok(a)) => cw.push(format!("chk_actor_parse {} 0 {}", coq_s(&s), cb(a.to_bytes())), json!({"kind": "mal-actor", "string": s})),
                Ok(Err(_)) => cw.push(format!("chk_actor_parse {} 2 []", coq_s(&s)), json!({"kind": "mal-actor", "string": s})),
                Err(pn) => {
                    rep.fail(&["C19", "C15"], &format!("panic|ActorId::try_from|{}", pn.signature()), &pn.message, json!({"string": s}));
                    cw.push(format!("chk_actor_parse {} 3 []", coq_s(&s)), json!({"kind": "mal-actor", "string": s}));
                }
            }
            match guard(|| ChangeHash::from_str(&s)) {
                Ok(Ok(h)) => cw.push(format!("chk_hash_parse {} 0 {}", coq_s(&s), cb(&h.0)), json!({"kind": "mal-hash", "string": s})),
                Ok(Err(_)) => cw.push(format!("chk_hash_parse {} 2 []", coq_s(&s)), json!({"kind": "mal-hash", "string": s})),
                Err(pn) => {
                    rep.fail(&["C19", "C15"], &format!("panic|ChangeHash::from_str|{}", pn.signature()), &pn.message, json!({"string": s}));
                    cw.push(format!("chk_hash_parse {} 3 []", coq_s(&s)), json!({"kind": "mal-hash", "string": s}));
                }
            }
        }
        // --- sync state and message bytes
        if i % 2 == 0 {
            let bs = mutate(rng, &valid_states);
            match guard(|| sync::State::decode(&bs)) {
                Ok(Ok(s)) => {
                    cw.push(format!("chk_state_dec {} 0 {} {}", cb(&bs), coq_hs(&s.shared_heads), coq_nlist(state_rest(&s))), json!({"kind": "mal-state", "bytes": hex(&bs)}));
                    rep.count("mal_state_ok");
                }
                Ok(Err(_)) => {
                    cw.push(format!("chk_state_dec {} 2 [] []", cb(&bs)), json!({"kind": "mal-state", "bytes": hex(&bs)}));
                    rep.count("mal_state_err");
                }
                Err(pn) => {
                    rep.fail(&["C19", "C15"], &format!("panic|State::decode|{}", pn.signature()), &pn.message, json!({"bytes": hex(&bs)}));
                    cw.push(format!("chk_state_dec {} 3 [] []", cb(&bs)), json!({"kind": "mal-state", "bytes": hex(&bs)}));
                }
            }
            let small: Vec<Vec<u8>> = valid_msgs.iter().filter(|m| m.len() < 600).cloned().collect();
            let bs = mutate(rng, &small);
            match guard(|| Message::decode(&bs)) {
                Ok(Ok(m)) => {
                    cw.push(format!("chk_msg_dec {} 0 {}", cb(&bs), coq_msg(&m)), json!({"kind": "mal-msg", "bytes": hex(&bs)}));
                    rep.count("mal_msg_ok");
                }
                Ok(Err(_)) => {
                    cw.push(format!("chk_msg_dec {} 2 dummy_msg", cb(&bs)), json!({"kind": "mal-msg", "bytes": hex(&bs)}));
                    rep.count("mal_msg_err");
                }
                Err(pn) => {
                    rep.fail(&["C19", "C15"], &format!("panic|Message::decode|{}", pn.signature()), &pn.message, json!({"bytes": hex(&bs)}));
                    cw.push(format!("chk_msg_dec {} 3 dummy_msg", cb(&bs)), json!({"kind": "mal-msg", "bytes": hex(&bs)}));
                }
            }
        }
        rep.case(None);
    }
    rep.model_cases = cw.total as u64;
    cw.finish();
    rep
}

fn mutate_string(rng: &mut Rng, pool: &[String]) -> String {
    const ALPHA: [&str; 24] = ["0", "1", "9", "a", "f", "A", "F", "g", "@", "-", "+", "_", "s", "e", "\u{e9}", "\u{6f22}", " ", "00", "ff", "18446744073709551615", "18446744073709551616", "4294967296", "_root", ""];
    match rng.below(8) {
        0 => {
            let n = rng.below(8);
            (0..n).map(|_| *rng.pick(&ALPHA)).collect()
        }
        1 => {
            // ctr@hex shaped
            let ctr = *rng.pick(&["0", "1", "007", "+5", "-5", "--5", "-+5", "", "18446744073709551615", "18446744073709551616", "99999999999999999999999", "4294967295", "4294967296", "1x"]);
            let act = *rng.pick(&["", "00", "ff", "FF", "aBcD", "abc", "zz", "0g", "\u{e9}\u{e9}", "00112233445566778899aabbccddeeff"]);
            format!("{}@{}", ctr, act)
        }
        _ => {
            let mut s: Vec<char> = rng.pick(pool).chars().collect();
            match rng.below(6) {
                0 => {
                    let k = rng.below(s.len() as u64 + 1) as usize;
                    s.truncate(k);
                }
                1 => {
                    let k = rng.below(s.len() as u64 + 1) as usize;
                    let ins: Vec<char> = rng.pick(&ALPHA).chars().collect();
                    s.splice(k..k, ins);
                }
                2 => {
                    if !s.is_empty() {
                        let k = rng.below(s.len() as u64) as usize;
                        s.remove(k);
                    }
                }
                3 => {
                    if !s.is_empty() {
                        let k = rng.below(s.len() as u64) as usize;
                        s[k] = rng.pick(&ALPHA).chars().next().unwrap_or('x');
                    }
                }
                4 => {
                    s.insert(0, *rng.pick(&['-', '+', '@', ' ']));
                }
                _ => {}
            }
            s.into_iter().collect()
        }
    }
}

/// encode / decode one message: direct round trip + model cases.  Returns the decoded message.
fn check_message(rep: &mut Report, cw: &mut CaseWriter, msg: &Message, origin: &str, pool: &mut Vec<Vec<u8>>) -> Option<Message> {
    let term = coq_msg(msg);
    let enc = guard(|| msg.clone().encode());
    let wire = match enc {
        Ok(w) => w,
        Err(pn) => {
            rep.fail(&["C19", "C37"], &format!("panic|Message::encode|{}", pn.signature()), &pn.message, json!({"origin": origin, "message": term}));
            cw.push(format!("chk_msg_enc {} 3 []", term), json!({"kind": "msg-enc", "origin": origin}));
            return None;
        }
    };
    cw.push(format!("chk_msg_enc {} 0 {}", term, cb(&wire)), json!({"kind": "msg-enc", "origin": origin, "len": wire.len()}));
    pool.push(wire.clone());
    rep.count(&format!("msg_{}", origin));
    rep.count(match msg.version { MessageVersion::V1 => "msg_v1", MessageVersion::V2 => "msg_v2" });
    rep.add("msg_changes", msg.changes.len() as u64);
    rep.add("msg_have", msg.have.len() as u64);
    let nontrivial = !msg.have.is_empty() || !msg.changes.is_empty() || !msg.heads.is_empty();
    rep.case(if nontrivial { Some(fnv(&wire)) } else { None });
    if rep.samples.len() < 3 && origin == "session" {
        rep.sample(json!({"kind": "message", "origin": origin, "wire_len": wire.len(), "heads": msg.heads.len(), "have": msg.have.len(), "changes": msg.changes.len()}));
    }
    match guard(|| Message::decode(&wire)) {
        Ok(Ok(d)) => {
            if d != *msg {
                let sig = match origin {
                    "flags-bit7" => "ids|roundtrip|message-differs|flags-bit7".to_string(),
                    "bloom-zero-entries" => "ids|roundtrip|message-differs|bloom-zero-entries".to_string(),
                    _ => "ids|roundtrip|message-differs".to_string(),
                };
                rep.fail(&["C19"], &sig, "decoded sync message differs from the encoded one", json!({"origin": origin, "wire": hex(&wire), "message": term, "decoded": coq_msg(&d)}));
            }
            cw.push(format!("chk_msg_dec {} 0 {}", cb(&wire), coq_msg(&d)), json!({"kind": "msg-dec", "origin": origin}));
            Some(d)
        }
        Ok(Err(e)) => {
            rep.fail(&["C19"], "ids|roundtrip|message-rejected", &format!("own message encoding rejected: {}", e), json!({"origin": origin, "wire": hex(&wire)}));
            cw.push(format!("chk_msg_dec {} 2 dummy_msg", cb(&wire)), json!({"kind": "msg-dec", "origin": origin}));
            None
        }
        Err(pn) => {
            rep.fail(&["C19", "C15"], &format!("panic|Message::decode|{}", pn.signature()), &pn.message, json!({"origin": origin, "wire": hex(&wire)}));
            cw.push(format!("chk_msg_dec {} 3 dummy_msg", cb(&wire)), json!({"kind": "msg-dec", "origin": origin}));
            None
        }
    }
}

fn check_state(rep: &mut Report, cw: &mut CaseWriter, st: &sync::State, origin: &str, pool: &mut Vec<Vec<u8>>) {
    let wire = match guard(|| st.encode()) {
        Ok(w) => w,
        Err(pn) => {
            rep.fail(&["C19", "C37"], &format!("panic|State::encode|{}", pn.signature()), &pn.message, json!({"origin": origin}));
            return;
        }
    };
    cw.push(format!("chk_state_enc {} 0 {}", coq_hs(&st.shared_heads), cb(&wire)), json!({"kind": "state-enc", "origin": origin}));
    pool.push(wire.clone());
    rep.count(&format!("state_{}", origin));
    rep.case(if !st.shared_heads.is_empty() { Some(fnv(&wire)) } else { None });
    match guard(|| sync::State::decode(&wire)) {
        Ok(Ok(d)) => {
            let rest = state_rest(&d);
            if d.shared_heads != st.shared_heads || rest != STATE_REST_DECODED {
                rep.fail(&["C19"], "ids|roundtrip|state-differs", "decoded sync state does not carry the persisted field / the documented defaults", json!({"origin": origin, "wire": hex(&wire)}));
            }
            cw.push(format!("chk_state_dec {} 0 {} {}", cb(&wire), coq_hs(&d.shared_heads), coq_nlist(rest)), json!({"kind": "state-dec", "origin": origin}));
        }
        Ok(Err(e)) => rep.fail(&["C19"], "ids|roundtrip|state-rejected", &format!("own state encoding rejected: {}", e), json!({"origin": origin, "wire": hex(&wire)})),
        Err(pn) => rep.fail(&["C19", "C15"], &format!("panic|State::decode|{}", pn.signature()), &pn.message, json!({"origin": origin, "wire": hex(&wire)})),
    }
}
