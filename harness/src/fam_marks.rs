// Family "marks": C25 (rich-text marks follow Peritext semantics and agree across reads).
//
// 2-3 replicas edit one text (code point / UTF-8 / UTF-16 encodings): splice_text (often exactly at
// the boundaries of existing marks), deletions (often of exactly a marked range), mark / unmark with
// names from a small alphabet (so marks overlap, nest and race), all four ExpandMark modes, values
// including null, empty and inverted ranges, a labelled invalid stream (end past the text), merges.
//
// Correspondence (model = Crdt/Marks.v over the ops decoded from the changes):
//   * every transaction: the ops of the committed change == the ops the model's mark / unmark /
//     splice_text generate (this is where the insert anchor rule of InsertQuery is compared);
//   * every view (each replica and the union of all changes; current state and recorded heads):
//     marks() / marks_at, get_marks(i) for every element index i (and two past the end), spans() /
//     spans_at == the model's readers.
// Direct checks on the implementation: the three readers agree pointwise; reads are unchanged by
// save + load; marks_at(heads) == marks() of fork_at(heads); replicas holding the same changes read
// the same; a character inserted at the boundary of a single mark is covered iff the expand mode
// says so (probes with tombstones around the boundary).
use crate::gen;
use crate::model::{coq_actor, coq_objid, coq_op, coq_scalar, coq_str};
use crate::util::*;
use automerge::iter::Span;
use automerge::marks::{ExpandMark, Mark, MarkSet};
use automerge::transaction::Transactable;
use automerge::{AutoCommit, AutomergeError, Change, ChangeHash, ObjId, ObjType, ReadDoc, ScalarValue, TextEncoding, ROOT};
use serde_json::json;
use std::collections::{BTreeMap, HashMap, HashSet};

const HEADER: &str = "From AM Require Import Base.Prelude Base.Order Crdt.Types Crdt.Interp Crdt.Doc Crdt.Local Crdt.Marks Exec.EditExec Exec.MarksExec.\nLocal Open Scope N_scope.\n";

const ENCODINGS: [TextEncoding; 3] = [TextEncoding::UnicodeCodePoint, TextEncoding::Utf8CodeUnit, TextEncoding::Utf16CodeUnit];
const CHARS: [&str; 6] = ["a", "b", "\u{e9}", "\u{6f22}", "\u{1F600}", "z"];
const NAMES: [&str; 3] = ["bold", "it", "\u{e9}m"];

fn enc_name(e: TextEncoding) -> &'static str {
    match e {
        TextEncoding::UnicodeCodePoint => "codepoint",
        TextEncoding::Utf8CodeUnit => "utf8",
        TextEncoding::Utf16CodeUnit => "utf16",
        TextEncoding::GraphemeCluster => "grapheme",
    }
}
fn coq_enc(enc: TextEncoding) -> &'static str {
    match enc {
        TextEncoding::UnicodeCodePoint => "EncCP",
        TextEncoding::Utf8CodeUnit => "EncU8",
        TextEncoding::Utf16CodeUnit => "EncU16",
        TextEncoding::GraphemeCluster => "EncCP",
    }
}
fn cw(enc: TextEncoding, ch: char) -> usize {
    match enc {
        TextEncoding::UnicodeCodePoint => 1,
        TextEncoding::Utf8CodeUnit => ch.len_utf8(),
        TextEncoding::Utf16CodeUnit => ch.len_utf16(),
        TextEncoding::GraphemeCluster => 1,
    }
}
fn expand_of(e: u8) -> ExpandMark {
    match e % 4 {
        0 => ExpandMark::None,
        1 => ExpandMark::Before,
        2 => ExpandMark::After,
        _ => ExpandMark::Both,
    }
}
fn err_class(e: &AutomergeError) -> u8 {
    match e {
        AutomergeError::InvalidObjId(_) | AutomergeError::NotAnObject => 1,
        AutomergeError::InvalidOp(_) => 2,
        AutomergeError::InvalidIndex(_) => 3,
        _ => 9,
    }
}
fn mark_value(rng: &mut Rng) -> ScalarValue {
    match rng.below(8) {
        0 | 1 | 2 => ScalarValue::Boolean(true),
        3 => ScalarValue::Boolean(false),
        4 => ScalarValue::Int(rng.below(3) as i64),
        5 => ScalarValue::Str("x".into()),
        6 => ScalarValue::Str("\u{e9}".into()),
        _ => ScalarValue::Null,
    }
}

#[derive(Clone, Debug)]
enum Call {
    Splice(usize, isize, String),
    Mark(usize, usize, String, ScalarValue, u8),
}
impl Call {
    fn coq(&self) -> String {
        match self {
            Call::Splice(i, d, s) => format!("(MSplice {} {} {})", i, coq_z(*d as i128), coq_str(s)),
            Call::Mark(s, e, n, v, x) => format!("(MMark {} {} {} {} (xmode {}))", s, e, coq_str(n), coq_scalar(v), x % 4),
        }
    }
}

// ------------------------------------------------------------------ what the readers say
type Set = Vec<(String, ScalarValue)>;
#[derive(Clone, Debug, PartialEq)]
struct Reads {
    text: String,
    marks: Vec<(usize, usize, String, ScalarValue)>,
    get: Vec<Set>,             // get_marks(i), i = 0 ..= elements + 1
    spans: Vec<(String, Set)>, // text spans (blocks never occur here)
}

fn set_of(m: &MarkSet) -> Set {
    m.iter().map(|(k, v)| (k.to_string(), v.clone())).collect()
}

fn reads<D: ReadDoc>(doc: &D, t: &ObjId, heads: Option<&[ChangeHash]>) -> Result<Reads, String> {
    let text = match heads {
        None => doc.text(t),
        Some(h) => doc.text_at(t, h),
    }
    .map_err(|e| format!("text: {}", e))?;
    let marks = match heads {
        None => doc.marks(t),
        Some(h) => doc.marks_at(t, h),
    }
    .map_err(|e| format!("marks: {}", e))?;
    let n = text.chars().count();
    let mut get = vec![];
    for i in 0..n + 2 {
        get.push(set_of(&doc.get_marks(t, i, heads).map_err(|e| format!("get_marks({}): {}", i, e))?));
    }
    let sp = match heads {
        None => doc.spans(t),
        Some(h) => doc.spans_at(t, h),
    }
    .map_err(|e| format!("spans: {}", e))?;
    let mut spans = vec![];
    for s in sp {
        match s {
            Span::Text { text, marks } => spans.push((text, marks.map(|m| set_of(&m)).unwrap_or_default())),
            Span::Block(_) => return Err("unexpected block span".into()),
        }
    }
    Ok(Reads { text, marks: marks.into_iter().map(|m| (m.start, m.end, m.name().to_string(), m.value().clone())).collect(), get, spans })
}

fn coq_set(s: &Set) -> String {
    coq_list(&s.iter().map(|(k, v)| format!("({},{})", coq_str(k), coq_scalar(v))).collect::<Vec<_>>())
}

/// the marking per text index (width units) according to each reader; None where a reader has no say
struct Pointwise {
    by_marks: Vec<BTreeMap<String, ScalarValue>>,
    by_spans: Vec<BTreeMap<String, ScalarValue>>,
    by_get_elem: Vec<BTreeMap<String, ScalarValue>>, // get_marks(element index) spread over the element's width
    by_get_index: Vec<BTreeMap<String, ScalarValue>>, // get_marks(text index) read literally
    spans_text: String,
    overlapping_marks: bool,
}

fn pointwise(enc: TextEncoding, r: &Reads) -> Pointwise {
    let widths: Vec<usize> = r.text.chars().map(|c| cw(enc, c)).collect();
    let len: usize = widths.iter().sum();
    let mut by_marks = vec![BTreeMap::new(); len];
    let mut overlapping = false;
    for (s, e, n, v) in &r.marks {
        for p in *s..(*e).min(len) {
            if by_marks[p].insert(n.clone(), v.clone()).is_some() {
                overlapping = true;
            }
        }
        if *e > len || s >= e {
            overlapping = true;
        }
    }
    let mut by_spans = vec![];
    let mut spans_text = String::new();
    for (txt, set) in &r.spans {
        spans_text.push_str(txt);
        let m: BTreeMap<String, ScalarValue> = set.iter().cloned().collect();
        for c in txt.chars() {
            for _ in 0..cw(enc, c) {
                by_spans.push(m.clone());
            }
        }
    }
    let mut by_get_elem = vec![];
    for (k, w) in widths.iter().enumerate() {
        let m: BTreeMap<String, ScalarValue> = r.get[k].iter().cloned().collect();
        for _ in 0..*w {
            by_get_elem.push(m.clone());
        }
    }
    let by_get_index = (0..len).map(|i| r.get.get(i).map(|s| s.iter().cloned().collect()).unwrap_or_default()).collect();
    Pointwise { by_marks, by_spans, by_get_elem, by_get_index, spans_text, overlapping_marks: overlapping }
}

// ------------------------------------------------------------------ replicas with transaction bookkeeping
struct Rep {
    doc: AutoCommit,
    base: Vec<ChangeHash>,       // what the open transaction started from
    calls: Vec<(Call, u8)>,      // the open transaction's calls and their status classes
}
struct TxCase {
    replica: usize,
    base: Vec<ChangeHash>,
    actor: automerge::ActorId,
    calls: Vec<(Call, u8)>,
    committed: Option<Change>,
    log_len: usize,
}

fn close_tx(reps: &mut [Rep], r: usize, txs: &mut Vec<TxCase>, log: &mut Vec<String>) {
    let rp = &mut reps[r];
    let h = rp.doc.commit();
    if rp.calls.is_empty() {
        return;
    }
    let committed = h.and_then(|h| rp.doc.get_change_by_hash(&h));
    log.push(format!("r{} commit", r));
    txs.push(TxCase { replica: r, base: std::mem::take(&mut rp.base), actor: rp.doc.get_actor().clone(), calls: std::mem::take(&mut rp.calls), committed, log_len: log.len() });
}

fn run_call(reps: &mut [Rep], r: usize, t: &ObjId, c: Call, log: &mut Vec<String>) -> u8 {
    let rp = &mut reps[r];
    if rp.calls.is_empty() {
        rp.base = rp.doc.get_changes(&[]).iter().map(|c| c.hash()).collect();
    }
    let res = match &c {
        Call::Splice(i, d, s) => rp.doc.splice_text(t, *i, *d, s),
        Call::Mark(s, e, n, v, x) => {
            if v.is_null() && (s + e) % 2 == 0 {
                rp.doc.unmark(t, n, *s, *e, expand_of(*x))
            } else {
                rp.doc.mark(t, Mark::new(n.clone(), v.clone(), *s, *e), expand_of(*x))
            }
        }
    };
    let st = match &res {
        Ok(()) => 0,
        Err(e) => err_class(e),
    };
    log.push(format!("r{} {:?} -> {}", r, c, st));
    rp.calls.push((c, st));
    st
}

/// start offsets of the elements plus the total length
fn starts(enc: TextEncoding, text: &str) -> Vec<usize> {
    let mut out = vec![0usize];
    let mut acc = 0;
    for ch in text.chars() {
        acc += cw(enc, ch);
        out.push(acc);
    }
    out
}

fn gen_call(rng: &mut Rng, rep: &mut Report, enc: TextEncoding, doc: &AutoCommit, t: &ObjId) -> Call {
    let text = doc.text(t).unwrap_or_default();
    let st = starts(enc, &text);
    let len = *st.last().unwrap();
    let marks = doc.marks(t).unwrap_or_default();
    let boundaries: Vec<usize> = marks.iter().flat_map(|m| [m.start, m.end]).collect();
    let any_pos = |rng: &mut Rng| -> usize {
        if rng.chance(1, 6) {
            rng.below(len as u64 + 1) as usize // possibly inside a multi-unit character
        } else {
            *rng.pick(&st)
        }
    };
    let roll = rng.below(100);
    if roll < 38 || len == 0 {
        // insert
        let pos = if !boundaries.is_empty() && rng.chance(3, 5) {
            rep.count("insert_at_mark_boundary");
            *rng.pick(&boundaries)
        } else {
            any_pos(rng)
        };
        let s: String = (0..rng.range(1, 2)).map(|_| *rng.pick(&CHARS)).collect();
        rep.count("call_insert");
        Call::Splice(pos.min(len), 0, s)
    } else if roll < 55 {
        // delete
        if !marks.is_empty() && rng.chance(1, 2) {
            let m = rng.pick(&marks);
            rep.count("delete_whole_marked_range");
            rep.count("call_delete");
            return Call::Splice(m.start, (m.end - m.start) as isize, String::new());
        }
        let k = rng.below(st.len() as u64 - 1) as usize;
        let n = rng.range(1, 3).min((st.len() - 1 - k) as u64) as usize;
        rep.count("call_delete");
        if rng.chance(1, 8) {
            // replace: delete and insert in one call
            return Call::Splice(st[k], (st[k + n] - st[k]) as isize, rng.pick(&CHARS).to_string());
        }
        Call::Splice(st[k], (st[k + n] - st[k]) as isize, String::new())
    } else {
        let name = rng.pick(&NAMES).to_string();
        let x = rng.below(4) as u8;
        let unmark = roll >= 90;
        let value = if unmark { ScalarValue::Null } else { mark_value(rng) };
        // a second range of an existing (name, value), apart from the first: marks() must keep them apart
        if !unmark && !marks.is_empty() && rng.chance(1, 4) {
            let m = rng.pick(&marks);
            let after: Vec<usize> = st.iter().cloned().filter(|p| *p > m.end).collect();
            let before: Vec<usize> = st.iter().cloned().filter(|p| *p < m.start).collect();
            let range = if after.len() >= 2 && rng.chance(1, 2) {
                Some((after[0], *rng.pick(&after[1..])))
            } else if before.len() >= 2 {
                Some((*rng.pick(&before[..before.len() - 1]), before[before.len() - 1]))
            } else if after.len() >= 2 {
                Some((after[0], *rng.pick(&after[1..])))
            } else {
                None
            };
            if let Some((s, e)) = range {
                rep.count("mark_same_value_apart");
                rep.count("call_mark");
                rep.count(&format!("expand_{:?}", expand_of(x)));
                return Call::Mark(s, e, m.name().to_string(), m.value().clone(), x);
            }
        }
        let (mut s, mut e) = if !marks.is_empty() && rng.chance(2, 5) {
            // relative to an existing mark: inside it, overlapping its end, exactly it
            let m = rng.pick(&marks);
            match rng.below(4) {
                0 => (m.start, m.end),
                1 => (m.start, any_pos(rng).max(m.start)),
                2 => (any_pos(rng).min(m.end), m.end),
                _ => ((m.start + 1).min(m.end), m.end.saturating_sub(1).max((m.start + 1).min(m.end))),
            }
        } else {
            let a = any_pos(rng);
            let b = any_pos(rng);
            (a.min(b), a.max(b))
        };
        match rng.below(40) {
            0 | 1 | 2 => {
                e = s;
                rep.count("mark_empty_range");
            }
            3 => {
                std::mem::swap(&mut s, &mut e);
                if s != e {
                    rep.count("mark_inverted_range");
                }
            }
            4 => {
                e = len + 1 + rng.below(3) as usize;
                rep.count("mark_end_past_text");
            }
            5 => {
                s = len + 1;
                e = len + 2;
                rep.count("mark_start_past_text");
            }
            _ => {}
        }
        rep.count(if value.is_null() { "call_unmark_or_null_mark" } else { "call_mark" });
        rep.count(&format!("expand_{:?}", expand_of(x)));
        Call::Mark(s, e, name, value, x)
    }
}

fn coq_change_idx(c: &Change, idx: &HashMap<ChangeHash, usize>) -> String {
    let e = c.decode();
    let start = e.start_op.get();
    let ops: Vec<String> = e.operations.iter().enumerate().map(|(i, op)| coq_op(op, start + i as u64, &e.actor_id)).collect();
    let deps: Vec<u128> = c.deps().iter().filter_map(|d| idx.get(d)).map(|i| *i as u128 + 1).collect();
    format!("(mkChange {} {} {} {} {} {})", idx[&c.hash()] + 1, coq_actor(&e.actor_id), e.seq, start, coq_nlist(deps), coq_list(&ops))
}
fn coq_ops_of(c: &Change) -> String {
    let e = c.decode();
    let start = e.start_op.get();
    coq_list(&e.operations.iter().enumerate().map(|(i, op)| coq_op(op, start + i as u64, &e.actor_id)).collect::<Vec<_>>())
}
fn idx_list(hs: &[ChangeHash], idx: &HashMap<ChangeHash, usize>) -> String {
    let mut v: Vec<u128> = hs.iter().filter_map(|h| idx.get(h)).map(|i| *i as u128 + 1).collect();
    v.sort();
    coq_nlist(v)
}

fn direct_reader_checks(rep: &mut Report, enc: TextEncoding, r: &Reads, ctx: &serde_json::Value) -> bool {
    let pw = pointwise(enc, r);
    let mut ok = true;
    if pw.overlapping_marks {
        rep.fail(&["C25"], "marks|marks-overlap-or-out-of-range", "marks() lists two ranges of one name over the same position, an empty range or a range past the text", ctx.clone());
        ok = false;
    }
    if pw.spans_text != r.text {
        rep.fail(&["C25", "C24"], "marks|spans-text-differs", &format!("concatenated spans {:?} != text {:?}", pw.spans_text, r.text), ctx.clone());
        ok = false;
    }
    if pw.by_spans.len() == pw.by_marks.len() && pw.by_spans != pw.by_marks {
        let i = (0..pw.by_marks.len()).find(|i| pw.by_spans[*i] != pw.by_marks[*i]).unwrap();
        rep.fail(&["C25"], "marks|readers-disagree|marks-vs-spans", &format!("at text index {}: marks() says {:?}, spans() says {:?}", i, pw.by_marks[i], pw.by_spans[i]), ctx.clone());
        ok = false;
    }
    if pw.by_get_elem != pw.by_marks {
        let i = (0..pw.by_marks.len()).find(|i| pw.by_get_elem.get(*i) != Some(&pw.by_marks[*i])).unwrap_or(0);
        rep.fail(&["C25"], "marks|readers-disagree|marks-vs-get_marks", &format!("at text index {}: marks() says {:?}, get_marks(element) says {:?}", i, pw.by_marks.get(i), pw.by_get_elem.get(i)), ctx.clone());
        ok = false;
    }
    // the literal reading: get_marks(i) with i a text index in the document's encoding
    if pw.by_get_index != pw.by_marks {
        let i = (0..pw.by_marks.len()).find(|i| pw.by_get_index[*i] != pw.by_marks[*i]).unwrap();
        rep.count("get_marks_index_unit_mismatch");
        rep.fail(&["C25"], &format!("marks|get_marks-counts-elements|{}", enc_name(enc)),
            &format!("get_marks(index) counts characters while marks() / spans() / splice_text / mark count {} units: text {:?}, at index {} marks() says {:?} but get_marks({}) = {:?}",
                enc_name(enc), r.text, i, pw.by_marks[i], i, pw.by_get_index[i]), ctx.clone());
    }
    ok
}

fn history(rng: &mut Rng, rep: &mut Report, cw_: &mut CaseWriter, hi: usize, thorough: bool) {
    let enc = ENCODINGS[hi % 3];
    let nrep = rng.range(2, 3) as usize;
    let mut log: Vec<String> = vec![format!("encoding {}", enc_name(enc))];
    let mut base = AutoCommit::new_with_encoding(enc).with_actor(gen::actor(rng, 0));
    let t = base.put_object(ROOT, "t", ObjType::Text).unwrap();
    let init: String = (0..rng.range(3, 7)).map(|_| *rng.pick(&CHARS)).collect();
    base.splice_text(&t, 0, 0, &init).unwrap();
    base.commit();
    log.push(format!("r0 actor {} text {:?}", base.get_actor(), init));
    let mut reps: Vec<Rep> = vec![Rep { doc: base, base: vec![], calls: vec![] }];
    for i in 1..nrep {
        let f = reps[0].doc.fork().with_actor(gen::actor(rng, i));
        log.push(format!("r{} fork of r0, actor {}", i, f.get_actor()));
        reps.push(Rep { doc: f, base: vec![], calls: vec![] });
    }
    let mut txs: Vec<TxCase> = vec![];
    let mut head_sets: Vec<Vec<ChangeHash>> = vec![reps[0].doc.get_heads()];
    let steps = if thorough { rng.range(20, 60) } else { rng.range(14, 36) } as usize;
    let mut markers: HashSet<usize> = HashSet::new();
    for _ in 0..steps {
        let r = rng.below(nrep as u64) as usize;
        let roll = rng.below(100);
        if roll < 78 {
            let c = gen_call(rng, rep, enc, &reps[r].doc, &t);
            if matches!(c, Call::Mark(..)) {
                markers.insert(r);
            }
            let before_pending = reps[r].doc.pending_ops();
            let res = guard(|| run_call(&mut reps, r, &t, c.clone(), &mut log));
            match res {
                Ok(st) => {
                    rep.count(if st == 0 { "calls_ok" } else { "calls_failed" });
                    if st != 0 && reps[r].doc.pending_ops() != before_pending {
                        rep.count("failed_call_left_ops");
                        rep.fail(&["C06", "C03"], "marks|failed-mark-leaves-begin",
                            &format!("{:?} returned an error but left {} op(s) in the transaction (the MarkBegin: the mark now runs to the end of the text)", c, reps[r].doc.pending_ops() - before_pending),
                            json!({"log": log, "history": hi}));
                    }
                }
                Err(p) => {
                    rep.fail(&["C25", "C03", "C37"], &format!("panic|marks-edit|{}", p.signature()), &format!("an editing call panicked: {} at {}", p.message, p.location), json!({"log": log, "history": hi}));
                    rep.count("histories_abandoned");
                    return;
                }
            }
        } else if roll < 93 {
            let o = rng.below(nrep as u64) as usize;
            if o == r {
                continue;
            }
            close_tx(&mut reps, r, &mut txs, &mut log);
            close_tx(&mut reps, o, &mut txs, &mut log);
            let (a, b) = if r < o {
                let (x, y) = reps.split_at_mut(o);
                (&mut x[r], &mut y[0])
            } else {
                let (x, y) = reps.split_at_mut(r);
                (&mut y[0], &mut x[o])
            };
            match guard(|| a.doc.merge(&mut b.doc)) {
                Ok(Ok(_)) => {
                    log.push(format!("r{} merge r{}", r, o));
                    head_sets.push(a.doc.get_heads());
                    rep.count("merges");
                }
                Ok(Err(e)) => {
                    rep.fail(&["C01"], "marks|merge-failed", &format!("merge failed: {}", e), json!({"log": log}));
                    return;
                }
                Err(p) => {
                    rep.fail(&["C25", "C01", "C37"], &format!("panic|merge|{}", p.signature()), &format!("merge panicked: {} at {}", p.message, p.location), json!({"log": log, "history": hi}));
                    rep.count("histories_abandoned");
                    return;
                }
            }
        } else {
            close_tx(&mut reps, r, &mut txs, &mut log);
            head_sets.push(reps[r].doc.get_heads());
        }
    }
    for r in 0..nrep {
        close_tx(&mut reps, r, &mut txs, &mut log);
    }
    // the union of everything (topological order)
    let mut uni = reps[0].doc.fork().with_actor(gen::actor(rng, 9));
    for r in 1..nrep {
        let mut c = reps[r].doc.clone();
        if let Err(p) = guard(|| uni.merge(&mut c).map(|_| ())) {
            rep.fail(&["C25", "C01", "C37"], &format!("panic|merge|{}", p.signature()), &format!("merge panicked: {} at {}", p.message, p.location), json!({"log": log, "history": hi}));
            return;
        }
    }
    let changes: Vec<Change> = uni.get_changes(&[]);
    let idx: HashMap<ChangeHash, usize> = changes.iter().enumerate().map(|(i, c)| (c.hash(), i)).collect();
    let concurrent_markers = markers.len() >= 2;
    rep.add("changes", changes.len() as u64);
    rep.add("ops", changes.iter().map(|c| c.len() as u64).sum());
    let u_def = format!("Definition u : list change := {}.", coq_list(&changes.iter().map(|c| coq_change_idx(c, &idx)).collect::<Vec<_>>()));
    let tobj = coq_objid(&t);

    // ---------- transactions ----------
    let mut cases: Vec<(String, serde_json::Value)> = vec![];
    for (k, tx) in txs.iter().enumerate() {
        let committed = tx.committed.as_ref().map(coq_ops_of).unwrap_or_else(|| "[]".to_string());
        let calls: Vec<String> = tx.calls.iter().map(|(c, st)| format!("({},{})", c.coq(), st)).collect();
        let nontrivial = tx.calls.iter().any(|(c, _)| matches!(c, Call::Mark(..))) || uni.marks(&t).map(|m| !m.is_empty()).unwrap_or(false);
        rep.case(if nontrivial { Some(fnv(format!("tx{:?}{}", &log[..tx.log_len], k).as_bytes())) } else { None });
        cases.push((
            format!("chk_marks_tx {} (pick u {}) {} {} {} {}", coq_enc(enc), idx_list(&tx.base, &idx), coq_actor(&tx.actor), tobj, coq_list(&calls), committed),
            json!({"kind": "tx", "props": ["C25", "C03"], "history": hi, "replica": tx.replica, "calls": tx.calls.iter().map(|(c, s)| format!("{:?} -> {}", c, s)).collect::<Vec<_>>(),
                   "log": &log[..tx.log_len]}),
        ));
    }
    rep.add("transactions", txs.len() as u64);

    // ---------- views ----------
    let mut defs = vec![u_def];
    let mut docs: Vec<(String, AutoCommit)> = reps.iter().enumerate().map(|(i, r)| (format!("r{}", i), r.doc.clone())).collect();
    docs.push(("union".to_string(), uni.clone()));
    let mut current_reads: Vec<(Vec<ChangeHash>, Reads, String)> = vec![];
    for (di, (dname, doc)) in docs.iter_mut().enumerate() {
        let held: Vec<ChangeHash> = doc.get_changes(&[]).iter().map(|c| c.hash()).collect();
        let held_set: HashSet<ChangeHash> = held.iter().cloned().collect();
        let mut hsets: Vec<Vec<ChangeHash>> = head_sets.iter().filter(|h| h.iter().all(|x| held_set.contains(x))).cloned().collect();
        rng.shuffle(&mut hsets);
        hsets.truncate(if dname == "union" { 3 } else { 1 });
        let mut views: Vec<Option<Vec<ChangeHash>>> = vec![None];
        views.extend(hsets.into_iter().map(Some));
        for (vi, hs) in views.iter().enumerate() {
            let ctx = json!({"log": log, "history": hi, "doc": dname, "heads": hs.as_ref().map(|h| h.iter().map(|x| hex(&x.0)).collect::<Vec<_>>())});
            let r = match guard(|| reads(&*doc, &t, hs.as_deref())) {
                Ok(Ok(r)) => r,
                Ok(Err(e)) => {
                    rep.fail(&["C25"], "marks|read-failed", &format!("a mark reader failed: {}", e), ctx);
                    continue;
                }
                Err(p) => {
                    rep.fail(&["C25", "C37"], &format!("panic|marks-read|{}", p.signature()), &format!("a mark reader panicked: {} at {}", p.message, p.location), ctx);
                    continue;
                }
            };
            rep.count(if hs.is_some() { "views_at_heads" } else { "views_current" });
            rep.add("marks_reported", r.marks.len() as u64);
            let nontrivial = concurrent_markers && !r.marks.is_empty();
            // --- direct: the three readers agree
            direct_reader_checks(rep, enc, &r, &ctx);
            // --- direct: save + load
            if hs.is_none() {
                let bytes = doc.save();
                match guard(|| AutoCommit::load_with_options(&bytes, automerge::LoadOptions::default().text_encoding(enc)).map_err(|e| e.to_string()).and_then(|l| reads(&l, &t, None))) {
                    Ok(Ok(r2)) if r2 == r => rep.count("save_load_equal"),
                    Ok(other) => rep.fail(&["C25", "C11"], "marks|save-load-differs", &format!("reads after save+load differ: before {:?} after {:?}", r, other), ctx.clone()),
                    Err(p) => rep.fail(&["C25", "C11", "C37"], &format!("panic|marks-load|{}", p.signature()), &format!("load / read after load panicked: {} at {}", p.message, p.location), ctx.clone()),
                }
                current_reads.push((doc.get_heads(), r.clone(), dname.clone()));
            }
            // --- direct: marks_at(heads) == marks() of fork_at(heads)
            if let Some(h) = hs {
                match guard(|| doc.fork_at(h).map_err(|e| e.to_string()).and_then(|f| reads(&f, &t, None))) {
                    Ok(Ok(r2)) if r2 == r => rep.count("fork_at_equal"),
                    Ok(other) => rep.fail(&["C25", "C07"], "marks|fork_at-differs", &format!("reads at heads differ from fork_at(heads): at heads {:?} fork {:?}", r, other), ctx.clone()),
                    Err(p) => rep.fail(&["C25", "C07", "C37"], &format!("panic|marks-fork_at|{}", p.signature()), &format!("fork_at / read panicked: {} at {}", p.message, p.location), ctx.clone()),
                }
            }
            // --- model
            let iv = format!("iv_{}_{}", di, vi);
            defs.push(format!("Definition {} : list item := Eval vm_compute in view_items {} u {} {} {}.", iv, coq_enc(enc), idx_list(&held, &idx),
                hs.as_ref().map(|h| idx_list(h, &idx)).unwrap_or_else(|| "[]".to_string()), tobj));
            let key = |what: &str| if nontrivial { Some(fnv(format!("{}{:?}{}{}", what, log, di, vi).as_bytes())) } else { None };
            let descr = |kind: &str, imp: String| json!({"kind": kind, "props": ["C25"], "history": hi, "doc": dname, "heads": hs.as_ref().map(|h| h.iter().map(|x| hex(&x.0)).collect::<Vec<_>>()), "impl": imp, "log": log});
            rep.case(key("marks"));
            cases.push((
                format!("chk_marks {} {}", iv, coq_list(&r.marks.iter().map(|(s, e, n, v)| format!("({},{},{},{})", s, e, coq_str(n), coq_scalar(v))).collect::<Vec<_>>())),
                descr("marks", format!("{:?}", r.marks)),
            ));
            rep.case(key("get"));
            cases.push((format!("chk_get_marks {} {}", iv, coq_list(&r.get.iter().map(coq_set).collect::<Vec<_>>())), descr("get_marks", format!("{:?}", r.get))));
            rep.case(key("spans"));
            cases.push((
                format!("chk_spans {} {}", iv, coq_list(&r.spans.iter().map(|(s, m)| format!("({},{})", coq_str(s), coq_set(m))).collect::<Vec<_>>())),
                descr("spans", format!("{:?}", r.spans)),
            ));
        }
    }
    // --- direct: convergence — documents holding the same changes read the same
    for i in 0..current_reads.len() {
        for j in i + 1..current_reads.len() {
            let (mut h1, mut h2) = (current_reads[i].0.clone(), current_reads[j].0.clone());
            h1.sort();
            h2.sort();
            if h1 == h2 {
                rep.count("convergence_pairs");
                if current_reads[i].1 != current_reads[j].1 {
                    rep.fail(&["C25", "C01"], "marks|replicas-diverge", &format!("{} and {} hold the same changes but read {:?} vs {:?}", current_reads[i].2, current_reads[j].2, current_reads[i].1, current_reads[j].1), json!({"log": log, "history": hi}));
                }
            }
        }
    }
    // every replica brought up to date reads what the union reads
    let uni_reads = current_reads.last().map(|x| x.1.clone());
    for (i, rp) in reps.iter().enumerate() {
        let mut d = rp.doc.clone();
        let mut u2 = uni.clone();
        if let Ok(Ok(_)) = guard(|| d.merge(&mut u2)) {
            if let (Ok(Ok(r)), Some(ur)) = (guard(|| reads(&d, &t, None)), uni_reads.as_ref()) {
                rep.count("convergence_pairs");
                if &r != ur {
                    rep.fail(&["C25", "C01"], "marks|replicas-diverge", &format!("r{} merged with everything reads {:?}, the union reads {:?}", i, r, ur), json!({"log": log, "history": hi}));
                }
            }
        }
    }
    rep.add("model_cases", cases.len() as u64);
    cw_.push_group(&defs, cases);
    if concurrent_markers {
        rep.count("histories_with_concurrent_markers");
    }
    rep.count("histories");
    if hi < 2 {
        rep.sample(json!({"replicas": nrep, "encoding": enc_name(enc), "log": log.iter().take(40).collect::<Vec<_>>()}));
    }
}

/// single mark, each expand mode: a character inserted exactly at the start / end boundary is covered iff
/// the mode says so; tombstones may surround the boundary
fn expand_probes(rng: &mut Rng, rep: &mut Report, n: usize) {
    for k in 0..n {
        let enc = ENCODINGS[k % 3];
        let x = (k / 3 % 4) as u8;
        let at_end = k / 12 % 2 == 1;
        let mut doc = AutoCommit::new_with_encoding(enc).with_actor(gen::actor(rng, 0));
        let t = doc.put_object(ROOT, "t", ObjType::Text).unwrap();
        let init: String = (0..rng.range(4, 9)).map(|_| *rng.pick(&CHARS)).collect();
        doc.splice_text(&t, 0, 0, &init).unwrap();
        let mut log = vec![format!("encoding {} text {:?}", enc_name(enc), init)];
        // some deletions first (tombstones), anywhere
        for _ in 0..rng.below(3) {
            let st = starts(enc, &doc.text(&t).unwrap());
            if st.len() > 4 {
                let e = rng.below(st.len() as u64 - 1) as usize;
                doc.splice_text(&t, st[e], (st[e + 1] - st[e]) as isize, "").unwrap();
                log.push(format!("delete element {}", e));
            }
        }
        let st = starts(enc, &doc.text(&t).unwrap());
        let ne = st.len() - 1;
        let a = rng.below(ne as u64) as usize;
        let b = rng.range(a as u64 + 1, ne as u64) as usize;
        let value = if rng.chance(1, 5) { ScalarValue::Int(7) } else { ScalarValue::Boolean(true) };
        doc.mark(&t, Mark::new("bold".into(), value.clone(), st[a], st[b]), expand_of(x)).unwrap();
        log.push(format!("mark bold [{},{}) {:?}", st[a], st[b], expand_of(x)));
        // tombstones right at the boundaries, made after the mark (inside the range only if a visible character remains)
        if rng.chance(1, 2) && b - a >= 2 {
            let e = if at_end { b - 1 } else { a };
            doc.splice_text(&t, st[e], (st[e + 1] - st[e]) as isize, "").unwrap();
            log.push(format!("delete element {} (inside the mark, at the boundary)", e));
        }
        let cur = doc.marks(&t).unwrap();
        let Some(m) = cur.first().cloned() else { continue };
        let pos = if at_end { m.end } else { m.start };
        if rng.chance(1, 3) {
            doc.commit();
        }
        doc.splice_text(&t, pos, 0, "Q").unwrap();
        log.push(format!("insert Q at {}", pos));
        let text = doc.text(&t).unwrap();
        let qi = text.chars().position(|c| c == 'Q').unwrap();
        let covered_get = doc.get_marks(&t, qi, None).unwrap().iter().any(|(n, _)| n == "bold");
        let qpos = starts(enc, &text)[qi];
        let covered_marks = doc.marks(&t).unwrap().iter().any(|m| m.name() == "bold" && m.start <= qpos && qpos < m.end);
        let want = if at_end { expand_of(x).after() } else { expand_of(x).before() };
        rep.case(Some(fnv(format!("{:?}", log).as_bytes())));
        rep.count("expand_probes");
        if covered_get != want || covered_marks != want {
            rep.fail(&["C25"], &format!("marks|expand|{:?}|{}", expand_of(x), if at_end { "end" } else { "start" }),
                &format!("a character inserted at the {} boundary of a mark with expand {:?} is covered: get_marks {} marks() {}, expected {}", if at_end { "end" } else { "start" }, expand_of(x), covered_get, covered_marks, want),
                json!({"log": log}));
        }
    }
}

pub fn run(rng: &mut Rng, tier: &str, out: &str) -> Report {
    let mut rep = Report::new("marks");
    let mut cw_ = CaseWriter::new(out, "marks", HEADER, 1);
    let thorough = tier == "thorough";
    let n_hist = if thorough { 80 } else { 12 };
    for hi in 0..n_hist {
        history(rng, &mut rep, &mut cw_, hi, thorough);
    }
    expand_probes(rng, &mut rep, if thorough { 2400 } else { 240 });
    rep.model_cases = cw_.total as u64;
    cw_.finish();
    rep
}
