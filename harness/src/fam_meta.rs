// Family "meta": metadata of locally created changes, heads, and retrieval of history.
// Serves C04 (seq / start_op / deps / actor of every created change, heads after every step) and
// C10 (retrieved changes are byte-identical to the change as created, hash = SHA-256 of the chunk,
// get_changes(have) = the non-ancestors of have in a dependency-respecting order).
//
// Histories are generated through the public API only: AutoCommit and manual transactions,
// isolate(heads) / integrate, transaction_at(heads), fork, merge, set_actor (new actor / back to an
// earlier own actor), empty changes, save+load in the middle, apply_changes of (parts of) another
// replica's history.  The driver never leaves an AutoCommit transaction open across steps, so the
// state a transaction started from is the state recorded just before it.
use crate::model::*;
use crate::util::*;
use automerge::transaction::{CommitOptions, Transactable};
use automerge::{ActorId, AutoCommit, Automerge, Change, ChangeHash, ObjType, PatchLog, ReadDoc, ScalarValue, Value, ROOT};
use serde_json::json;
use sha2::Digest;
use std::collections::{BTreeSet, HashMap, HashSet};

const HEADER: &str = "From AM Require Import Base.Prelude Base.Order Crdt.Types Crdt.Doc Crdt.Commit Exec.MetaExec.\nLocal Open Scope N_scope.\n";
const MAGIC: [u8; 4] = [19, 178, 35, 9]; // CONCURRENCY_MAGIC_BYTES (Gen/Consts.v is regenerated from the source)

enum D {
    Auto(AutoCommit),
    Man(Automerge),
}

struct Rep {
    d: D,
    isolated: bool,
    own_actors: Vec<ActorId>,
    head_sets: Vec<Vec<ChangeHash>>,
}

impl Rep {
    fn inner(&mut self) -> &Automerge {
        match &mut self.d {
            D::Auto(a) => a.document(),
            D::Man(m) => m,
        }
    }
    fn applied(&mut self) -> Vec<ChangeHash> {
        self.inner().get_changes_meta(&[]).iter().map(|m| m.hash).collect()
    }
    fn heads(&mut self) -> Vec<ChangeHash> {
        let mut h = self.inner().get_heads();
        h.sort();
        h
    }
    fn actor(&self) -> ActorId {
        match &self.d {
            D::Auto(a) => a.get_actor().clone(),
            D::Man(m) => m.get_actor().clone(),
        }
    }
    fn set_actor(&mut self, a: ActorId) {
        match &mut self.d {
            D::Auto(d) => {
                d.set_actor(a);
            }
            D::Man(d) => {
                d.set_actor(a);
            }
        }
    }
}

#[derive(Clone)]
struct Meta {
    actor: ActorId,
    seq: u64,
    start: u64,
    max_op: u64,
    nops: u64,
    deps: Vec<ChangeHash>,
    raw: Vec<u8>,
}

enum Ev {
    Commit { rep: usize, applied: Vec<ChangeHash>, actor: ActorId, iso: Option<Vec<ChangeHash>>, created: ChangeHash, how: &'static str },
    Heads { rep: usize, applied: Vec<ChangeHash>, heads: Vec<ChangeHash>, after: String },
    GetChanges { rep: usize, applied: Vec<ChangeHash>, have: Vec<ChangeHash>, result: Vec<ChangeHash>, chain_ok: bool },
}

struct World {
    reps: Vec<Rep>,
    known: HashMap<ChangeHash, Meta>, // every change ever created in this world, as first retrieved
    events: Vec<Ev>,
    log: Vec<String>,
    next_actor: usize,
    doing: String, // the calls of the step in flight (for the replay of a panic)
}

fn small_scalar(rng: &mut Rng) -> ScalarValue {
    match rng.below(5) {
        0 => ScalarValue::Int(rng.below(100) as i64),
        1 => ScalarValue::Str(rng.pick(&["x", "hello", "\u{e9}"]).to_string().into()),
        2 => ScalarValue::Boolean(rng.chance(1, 2)),
        3 => ScalarValue::Null,
        _ => ScalarValue::Uint(rng.below(9)),
    }
}

/// one edit through the Transactable interface (works for AutoCommit and for manual transactions);
/// errors (e.g. an object that is not visible at the isolation heads) are ignored
fn edit<T: Transactable>(tx: &mut T, rng: &mut Rng, trace: &mut String) {
    let choice = rng.below(10);
    trace.push_str(match choice {
        0..=3 => " put(ROOT,k);",
        4 => " delete(ROOT,k);",
        5 | 6 => " get(ROOT,l)/put_object(List); insert|delete;",
        7 | 8 => " get(ROOT,t)/put_object(Text); splice_text;",
        _ => " get(ROOT,c); increment|put counter;",
    });
    match choice {
        0..=3 => {
            let k = *rng.pick(&["a", "b", "k1", "zz"]);
            let _ = tx.put(ROOT, k, small_scalar(rng));
        }
        4 => {
            let k = *rng.pick(&["a", "b", "k1", "zz"]);
            let _ = tx.delete(ROOT, k);
        }
        5 | 6 => {
            let list = match tx.get(ROOT, "l") {
                Ok(Some((Value::Object(ObjType::List), id))) => Some(id),
                _ => tx.put_object(ROOT, "l", ObjType::List).ok(),
            };
            if let Some(l) = list {
                let len = tx.length(&l);
                if len > 0 && rng.chance(1, 4) {
                    let _ = tx.delete(&l, rng.below(len as u64) as usize);
                } else {
                    let _ = tx.insert(&l, rng.below(len as u64 + 1) as usize, small_scalar(rng));
                }
            }
        }
        7 | 8 => {
            let text = match tx.get(ROOT, "t") {
                Ok(Some((Value::Object(ObjType::Text), id))) => Some(id),
                _ => tx.put_object(ROOT, "t", ObjType::Text).ok(),
            };
            if let Some(t) = text {
                let len = tx.length(&t);
                let pos = rng.below(len as u64 + 1) as usize;
                let del = if len > pos && rng.chance(1, 3) { 1 } else { 0 };
                let _ = tx.splice_text(&t, pos, del, *rng.pick(&["a", "bc", "\u{6f22}"]));
            }
        }
        _ => {
            let is_counter = matches!(tx.get(ROOT, "c"), Ok(Some((Value::Scalar(s), _))) if matches!(s.as_ref(), ScalarValue::Counter(_)));
            if is_counter {
                let _ = tx.increment(ROOT, "c", rng.below(5) as i64 - 2);
            } else {
                let _ = tx.put(ROOT, "c", ScalarValue::counter(rng.below(9) as i64));
            }
        }
    }
}

fn new_actor(w: &mut World, rng: &mut Rng) -> ActorId {
    let i = w.next_actor;
    w.next_actor += 1;
    // distinct second byte per actor; first byte random so that later actors often sort first
    let mut b = vec![rng.next() as u8, i as u8];
    let extra = rng.below(3) as usize;
    b.extend(rng.bytes(extra));
    ActorId::from(b)
}

fn sorted(mut v: Vec<ChangeHash>) -> Vec<ChangeHash> {
    v.sort();
    v
}

/// ancestors (reflexive) of the given hashes inside `known`, restricted to `within`
fn ancestors(known: &HashMap<ChangeHash, Meta>, within: &HashSet<ChangeHash>, from: &[ChangeHash]) -> HashSet<ChangeHash> {
    let mut out = HashSet::new();
    let mut stack: Vec<ChangeHash> = from.iter().filter(|h| within.contains(h)).copied().collect();
    while let Some(h) = stack.pop() {
        if out.insert(h) {
            if let Some(m) = known.get(&h) {
                stack.extend(m.deps.iter().copied());
            }
        }
    }
    out
}

/// every actor's applied changes form a chain under the ancestor relation
fn chain_ok(known: &HashMap<ChangeHash, Meta>, applied: &[ChangeHash]) -> bool {
    let within: HashSet<ChangeHash> = applied.iter().copied().collect();
    let mut by_actor: HashMap<&ActorId, Vec<(u64, ChangeHash)>> = HashMap::new();
    for h in applied {
        if let Some(m) = known.get(h) {
            by_actor.entry(&m.actor).or_default().push((m.seq, *h));
        }
    }
    for (_, mut v) in by_actor {
        v.sort();
        for w in v.windows(2) {
            if !ancestors(known, &within, &[w[1].1]).contains(&w[0].1) {
                return false;
            }
        }
    }
    true
}

/// record a newly created change (first retrieval = the change as created) and check the C04
/// statement directly on the implementation
#[allow(clippy::too_many_arguments)]
fn record_created(
    w: &mut World, rep: &mut Report, r: usize, applied: Vec<ChangeHash>, heads_before: Vec<ChangeHash>, actor: ActorId,
    iso: Option<Vec<ChangeHash>>, created: ChangeHash, how: &'static str,
) {
    let c: Option<Change> = w.reps[r].inner().get_change_by_hash(&created);
    let c = match c {
        Some(c) => c,
        None => {
            rep.fail(&["C10", "C04"], "meta|created-not-retrievable", "commit returned a hash that get_change_by_hash does not find", json!({"log": w.log}));
            return;
        }
    };
    let m = Meta {
        actor: c.actor_id().clone(),
        seq: c.seq(),
        start: c.start_op().get(),
        max_op: c.max_op(),
        nops: c.len() as u64,
        deps: c.deps().to_vec(),
        raw: c.raw_bytes().to_vec(),
    };
    // ---- direct C04 ----
    let same_actor: Vec<&Meta> = applied.iter().filter_map(|h| w.known.get(h)).filter(|x| x.actor == m.actor).collect();
    let want_seq = same_actor.iter().map(|x| x.seq).max().unwrap_or(0) + 1;
    if m.seq != want_seq || m.seq != same_actor.len() as u64 + 1 {
        rep.fail(&["C04"], "meta|seq-not-next", &format!("created change has seq {} but its actor has {} applied changes (max seq {})", m.seq, same_actor.len(), want_seq - 1), json!({"log": w.log, "how": how}));
    }
    let max_applied = applied.iter().filter_map(|h| w.known.get(h)).map(|x| x.max_op).max().unwrap_or(0);
    if m.start <= max_applied {
        rep.fail(&["C04"], "meta|start_op-not-above-applied", &format!("created change starts at op {} but an applied change reaches op {}", m.start, max_applied), json!({"log": w.log, "how": how}));
    }
    match &iso {
        None => {
            let mut want: BTreeSet<ChangeHash> = heads_before.iter().copied().collect();
            if let Some(prev) = applied.iter().filter(|h| w.known.get(h).map(|x| x.actor == m.actor && x.seq + 1 == m.seq).unwrap_or(false)).next() {
                want.insert(*prev);
            }
            let want: Vec<ChangeHash> = want.into_iter().collect();
            if m.actor != actor {
                rep.fail(&["C04"], "meta|actor-not-document-actor", "a non-isolated change was written as another actor", json!({"log": w.log, "how": how}));
            }
            if m.deps != want {
                rep.fail(&["C04"], "meta|deps-nonisolated", "deps of a non-isolated change are not (current heads + own previous change), sorted", json!({"log": w.log, "how": how, "deps": m.deps.iter().map(|h| hex(&h.0)).collect::<Vec<_>>(), "want": want.iter().map(|h| hex(&h.0)).collect::<Vec<_>>()}));
            }
        }
        Some(hs) => {
            let want: Vec<ChangeHash> = hs.iter().copied().collect::<BTreeSet<_>>().into_iter().collect();
            if !well_formed_heads(hs, &applied) {
                rep.count("isolated_commits_at_ill_formed_heads");
            } else if m.deps != want {
                rep.fail(&["C04", "C29"], "meta|deps-isolated", "deps of an isolated change are not the isolation heads", json!({"log": w.log, "how": how}));
            }
            let ab = m.actor.to_bytes();
            let base = actor.to_bytes();
            let ok = ab == base || (ab.len() > base.len() + 4 && ab[..4] == MAGIC && ab[ab.len() - base.len()..] == *base);
            if !ok {
                rep.fail(&["C04", "C29"], "meta|isolated-actor", "an isolated change was written as an actor that is not a concurrency level of the document's actor", json!({"log": w.log, "how": how}));
            }
            if ab != base {
                rep.count("commits_as_concurrency_actor");
            }
        }
    }
    if iso.is_none() && m.deps.len() > heads_before.len() {
        rep.count("commits_with_previous_change_as_extra_dep");
    }
    if m.nops == 0 {
        rep.count("empty_changes_created");
    }
    if iso.is_some() {
        rep.count("isolated_commits");
    }
    rep.count("commits");
    check_one_change(rep, &c, &m.raw, "at creation", &w.log);
    w.known.insert(created, m);
    w.events.push(Ev::Commit { rep: r, applied, actor, iso, created, how });
}

fn check_one_change(rep: &mut Report, c: &Change, reference: &[u8], how: &str, log: &[String]) {
    let raw = c.raw_bytes();
    if raw != reference {
        rep.fail(&["C10"], &format!("meta|bytes-differ|{}", how.split(' ').next().unwrap_or("")), &format!("a change retrieved {} is not byte-identical to the change as created", how), json!({"log": log, "hash": hex(&c.hash().0)}));
    }
    if raw.len() < 9 || sha2::Sha256::digest(&raw[8..]).as_slice() != c.hash().0 {
        rep.fail(&["C10"], "meta|hash-not-sha256", &format!("the hash of a change retrieved {} is not the SHA-256 of its chunk", how), json!({"log": log, "hash": hex(&c.hash().0)}));
    }
}

/// C10 direct: everything this replica hands out is byte-identical to the change as created
fn check_history(w: &mut World, rep: &mut Report, r: usize, rng: &mut Rng, when: &str) {
    let log = w.log.clone();
    let all: Vec<Change> = w.reps[r].inner().get_changes(&[]);
    let metas: Vec<(ChangeHash, ActorId, u64, u64, u64, Vec<ChangeHash>)> = w.reps[r]
        .inner()
        .get_changes_meta(&[])
        .iter()
        .map(|m| (m.hash, m.actor.as_ref().clone(), m.seq, m.start_op, m.max_op, m.deps.clone()))
        .collect();
    if metas.iter().map(|m| m.0).collect::<Vec<_>>() != all.iter().map(|c| c.hash()).collect::<Vec<_>>() {
        rep.fail(&["C10"], "meta|get_changes_meta-differs", "get_changes_meta(&[]) and get_changes(&[]) list different changes", json!({"log": log, "when": when}));
    }
    for (c, m) in all.iter().zip(metas.iter()) {
        match w.known.get(&c.hash()) {
            Some(k) => {
                check_one_change(rep, c, &k.raw, &format!("get_changes {}", when), &log);
                if m.1 != k.actor || m.2 != k.seq || m.3 != k.start || m.4 != k.max_op || m.5 != k.deps {
                    rep.fail(&["C10"], "meta|get_changes_meta-fields", "metadata of a change differs from the change as created", json!({"log": log, "when": when}));
                }
            }
            None => rep.fail(&["C10"], "meta|unknown-change", "a document holds a change nobody created", json!({"log": log, "when": when})),
        }
        rep.count("change_byte_comparisons");
    }
    for _ in 0..3.min(all.len()) {
        let c = rng.pick(&all);
        match w.reps[r].inner().get_change_by_hash(&c.hash()) {
            Some(x) => check_one_change(rep, &x, &w.known[&c.hash()].raw, &format!("get_change_by_hash {}", when), &log),
            None => rep.fail(&["C10"], "meta|get_change_by_hash-none", "get_change_by_hash does not find an applied change", json!({"log": log, "when": when})),
        }
    }
    // get_last_local_change = the applied change of the document's actor with the greatest seq
    let actor = w.reps[r].actor();
    let want = all.iter().filter(|c| *c.actor_id() == actor).max_by_key(|c| c.seq()).map(|c| c.hash());
    let got = match &mut w.reps[r].d {
        D::Auto(a) => a.get_last_local_change(),
        D::Man(m) => m.get_last_local_change(),
    };
    match (want, got) {
        (None, None) => {}
        (Some(h), Some(c)) if c.hash() == h => check_one_change(rep, &c, &w.known[&h].raw, &format!("get_last_local_change {}", when), &log),
        _ => rep.fail(&["C10"], "meta|get_last_local_change", "get_last_local_change is not the latest applied change of the document's actor", json!({"log": log, "when": when})),
    }
}

/// get_changes(have) for a random `have`: direct comparison with the non-ancestors, order check,
/// and an event for the model
fn probe_get_changes(w: &mut World, rep: &mut Report, r: usize, rng: &mut Rng) {
    let applied = w.reps[r].applied();
    if applied.is_empty() {
        return;
    }
    let mut have: Vec<ChangeHash> = vec![];
    match rng.below(6) {
        0 => {}
        1 => have = w.reps[r].heads(),
        2 if !w.reps[r].head_sets.is_empty() => have = rng.pick(&w.reps[r].head_sets).clone(),
        _ => {
            for _ in 0..rng.range(1, 3) {
                have.push(*rng.pick(&applied));
            }
        }
    }
    if rng.chance(1, 8) {
        have.push(ChangeHash(rng.bytes(32).try_into().unwrap())); // a hash the document does not know
        rep.count("get_changes_with_unknown_hash");
    }
    have.dedup();
    let res = match guard(|| w.reps[r].inner().get_changes(&have)) {
        Ok(cs) => cs,
        Err(p) => {
            rep.fail(&["C10", "C37"], &format!("panic|get_changes|{}", p.signature()), &format!("get_changes panicked: {}", p.message), json!({"log": w.log}));
            return;
        }
    };
    let within: HashSet<ChangeHash> = applied.iter().copied().collect();
    let anc = ancestors(&w.known, &within, &have);
    let want: BTreeSet<ChangeHash> = applied.iter().filter(|h| !anc.contains(h)).copied().collect();
    let got: BTreeSet<ChangeHash> = res.iter().map(|c| c.hash()).collect();
    let ok_chain = chain_ok(&w.known, &applied);
    if !ok_chain {
        rep.fail(&["C04", "C10"], "meta|actor-chain-broken", "the applied changes of one actor do not form a chain under the ancestor relation (a change does not descend from its actor's previous change)", json!({"log": w.log}));
    }
    if got.len() != res.len() {
        rep.fail(&["C10"], "meta|get_changes|duplicate", "get_changes returned a change twice", json!({"log": w.log}));
    }
    if got != want {
        let missing: Vec<String> = want.difference(&got).map(|h| hex(&h.0)).collect();
        let extra: Vec<String> = got.difference(&want).map(|h| hex(&h.0)).collect();
        let sig = if !ok_chain { "meta|get_changes|actor-chain-broken|set-mismatch" } else { "meta|get_changes|set-mismatch" };
        rep.fail(&["C10"], sig, "get_changes(have) is not the set of applied changes that are not ancestors of have",
            json!({"log": w.log, "have": have.iter().map(|h| hex(&h.0)).collect::<Vec<_>>(), "missing": missing, "extra": extra}));
    }
    // each after its dependencies
    let mut seen: HashSet<ChangeHash> = HashSet::new();
    for c in &res {
        if c.deps().iter().any(|d| got.contains(d) && !seen.contains(d)) {
            rep.fail(&["C10"], "meta|get_changes|order", "get_changes returned a change before one of its dependencies", json!({"log": w.log}));
            break;
        }
        seen.insert(c.hash());
    }
    for c in &res {
        if let Some(k) = w.known.get(&c.hash()) {
            check_one_change(rep, c, &k.raw, "get_changes(have)", &w.log);
        }
    }
    rep.count("get_changes_probes");
    if have.is_empty() {
        rep.count("get_changes_probes_empty_have");
    }
    w.events.push(Ev::GetChanges { rep: r, applied, have, result: res.iter().map(|c| c.hash()).collect(), chain_ok: ok_chain });
}

fn note_heads(w: &mut World, r: usize, after: &str) {
    let applied = w.reps[r].applied();
    let heads = w.reps[r].heads();
    if !heads.is_empty() && !w.reps[r].head_sets.contains(&heads) {
        w.reps[r].head_sets.push(heads.clone());
    }
    w.events.push(Ev::Heads { rep: r, applied, heads, after: after.to_string() });
}

fn pick_heads(w: &mut World, r: usize, rng: &mut Rng, allow_invalid: bool) -> Option<Vec<ChangeHash>> {
    let applied = w.reps[r].applied();
    if applied.is_empty() {
        return None;
    }
    let within: HashSet<ChangeHash> = applied.iter().copied().collect();
    let hs = match rng.below(4) {
        0 => w.reps[r].heads(),
        1 if !w.reps[r].head_sets.is_empty() => rng.pick(&w.reps[r].head_sets).clone(),
        _ => {
            let mut v = vec![*rng.pick(&applied)];
            if rng.chance(1, 3) {
                v.push(*rng.pick(&applied));
            }
            v
        }
    };
    let mut hs: Vec<ChangeHash> = hs.into_iter().filter(|h| within.contains(h)).collect();
    hs.sort();
    hs.dedup();
    if hs.is_empty() {
        return None;
    }
    // separate, labelled stream of ill-formed head lists: a hash the document does not know (the code
    // drops it: heads_to_nodes / hash_to_index), or the same head twice
    if allow_invalid && rng.chance(1, 10) {
        if rng.chance(1, 2) {
            hs.push(ChangeHash(rng.bytes(32).try_into().unwrap()));
        } else {
            hs.push(hs[0]);
        }
    }
    Some(hs)
}

fn well_formed_heads(hs: &[ChangeHash], applied: &[ChangeHash]) -> bool {
    let set: HashSet<&ChangeHash> = hs.iter().collect();
    set.len() == hs.len() && hs.iter().all(|h| applied.contains(h))
}

/// one local transaction on replica r (0..3 edits, then commit)
fn do_transaction(w: &mut World, rep: &mut Report, r: usize, rng: &mut Rng, min_edits: u64) {
    let applied = w.reps[r].applied();
    let heads_before = w.reps[r].heads();
    let actor = w.reps[r].actor();
    let n_edits = rng.range(min_edits, 3);
    let isolated = w.reps[r].isolated;
    let mut iso: Option<Vec<ChangeHash>> = None;
    let mut how = "autocommit";
    let created: Option<ChangeHash> = match &mut w.reps[r].d {
        D::Auto(a) => {
            if isolated {
                iso = Some(a.get_heads()); // AutoCommit reports the isolation heads while isolated
                how = "autocommit-isolated";
            }
            for _ in 0..n_edits {
                edit(a, rng, &mut w.doing);
            }
            a.commit()
        }
        D::Man(m) => {
            how = "manual";
            let mut tx = m.transaction();
            for _ in 0..n_edits {
                edit(&mut tx, rng, &mut w.doing);
            }
            tx.commit().0
        }
    };
    match created {
        Some(h) => {
            w.log.push(format!("r{} tx({}) {}", r, n_edits, how));
            record_created(w, rep, r, applied, heads_before, actor, iso, h, how);
        }
        None => {
            w.log.push(format!("r{} tx({}) nothing", r, n_edits));
            rep.count("transactions_without_ops");
            if w.reps[r].applied() != applied {
                rep.fail(&["C04"], "meta|empty-transaction-created-change", "a transaction without operations changed the history", json!({"log": w.log}));
            }
        }
    }
}

/// a manual transaction isolated with transaction_at(heads)
fn do_transaction_at(w: &mut World, rep: &mut Report, r: usize, rng: &mut Rng) {
    let hs = match pick_heads(w, r, rng, true) {
        Some(h) => h,
        None => return,
    };
    let applied = w.reps[r].applied();
    let heads_before = w.reps[r].heads();
    let actor = w.reps[r].actor();
    let n_edits = rng.range(1, 3);
    let created = match &mut w.reps[r].d {
        D::Man(m) => {
            let mut tx = match m.transaction_at(PatchLog::inactive(), &hs) {
                Ok(tx) => tx,
                Err(_) => return,
            };
            for _ in 0..n_edits {
                edit(&mut tx, rng, &mut w.doing);
            }
            tx.commit().0
        }
        D::Auto(_) => return,
    };
    w.log.push(format!("r{} transaction_at({} heads, {} edits) -> {}", r, hs.len(), n_edits, created.is_some()));
    if let Some(h) = created {
        record_created(w, rep, r, applied, heads_before, actor, Some(hs), h, "transaction_at");
    }
}

fn do_empty_change(w: &mut World, rep: &mut Report, r: usize) {
    let applied = w.reps[r].applied();
    let heads_before = w.reps[r].heads();
    let actor = w.reps[r].actor();
    let h = match &mut w.reps[r].d {
        // AutoCommit::empty_change calls transaction_args(None) also while isolated: the change is made
        // on the document's current heads and the isolation heads stay where they are
        D::Auto(a) => a.empty_change(CommitOptions::default()),
        D::Man(m) => m.empty_commit(CommitOptions::default()),
    };
    w.log.push(format!("r{} empty_change", r));
    record_created(w, rep, r, applied, heads_before, actor, None, h, "empty_change");
}

fn two<'a>(reps: &'a mut [Rep], a: usize, b: usize) -> (&'a mut Rep, &'a mut Rep) {
    if a < b {
        let (x, y) = reps.split_at_mut(b);
        (&mut x[a], &mut y[0])
    } else {
        let (x, y) = reps.split_at_mut(a);
        (&mut y[0], &mut x[b])
    }
}

fn do_merge(w: &mut World, rep: &mut Report, r: usize, o: usize) {
    // get_changes_added(other) = what other has applied and self has not, byte-identical
    let mine: HashSet<ChangeHash> = w.reps[r].applied().into_iter().collect();
    let theirs = w.reps[o].applied();
    let want: BTreeSet<ChangeHash> = theirs.iter().filter(|h| !mine.contains(h)).copied().collect();
    let added: Vec<Change> = {
        let (a, b) = two(&mut w.reps, r, o);
        let bi = b.inner().clone();
        a.inner().get_changes_added(&bi)
    };
    let got: BTreeSet<ChangeHash> = added.iter().map(|c| c.hash()).collect();
    if got != want || got.len() != added.len() {
        rep.fail(&["C10"], "meta|get_changes_added|set", "get_changes_added(other) is not exactly the changes other has and self has not", json!({"log": w.log}));
    }
    for c in &added {
        if let Some(k) = w.known.get(&c.hash()) {
            check_one_change(rep, c, &k.raw, "get_changes_added", &w.log);
        }
    }
    rep.count("get_changes_added_probes");
    let ok = {
        let (a, b) = two(&mut w.reps, r, o);
        match (&mut a.d, &mut b.d) {
            (D::Auto(x), D::Auto(y)) => x.merge(y).is_ok(),
            (D::Man(x), D::Man(y)) => x.merge(y).is_ok(),
            (D::Auto(x), D::Man(y)) => x.apply_changes(y.get_changes(&[])).is_ok(),
            (D::Man(x), D::Auto(y)) => x.apply_changes(y.get_changes(&[])).is_ok(),
        }
    };
    w.log.push(format!("r{} merge r{} -> {}", r, o, ok));
    if !ok {
        rep.fail(&["C01"], "meta|merge-failed", "merging a replica of the same history failed", json!({"log": w.log}));
    }
    rep.count("merges");
}

fn build_world(rng: &mut Rng, steps: usize, rep: &mut Report, w: &mut World) {
    let a0 = new_actor(w, rng);
    let first = if rng.chance(1, 3) {
        D::Man(Automerge::new().with_actor(a0.clone()))
    } else {
        D::Auto(AutoCommit::new().with_actor(a0.clone()))
    };
    w.reps.push(Rep { d: first, isolated: false, own_actors: vec![a0], head_sets: vec![] });
    do_transaction(w, rep, 0, rng, 1);
    note_heads(w, 0, "first transaction");
    for _ in 0..steps {
        let r = rng.below(w.reps.len() as u64) as usize;
        let is_auto = matches!(w.reps[r].d, D::Auto(_));
        let what: String;
        let step_kind = rng.below(100);
        w.doing = format!("r{} (isolated={}) step kind {}:", r, w.reps[r].isolated, step_kind);
        match step_kind {
            0..=39 => {
                do_transaction(w, rep, r, rng, 0);
                what = "transaction".into();
            }
            40..=47 => {
                do_empty_change(w, rep, r);
                what = "empty_change".into();
            }
            48..=57 => {
                if is_auto {
                    if let Some(hs) = pick_heads(w, r, rng, false) {
                        if let D::Auto(a) = &mut w.reps[r].d {
                            a.isolate(&hs);
                        }
                        w.reps[r].isolated = true;
                        w.log.push(format!("r{} isolate({} heads)", r, hs.len()));
                        rep.count("isolate_calls");
                    }
                    what = "isolate".into();
                } else {
                    do_transaction_at(w, rep, r, rng);
                    what = "transaction_at".into();
                }
            }
            58..=62 => {
                if let D::Auto(a) = &mut w.reps[r].d {
                    a.integrate();
                    w.log.push(format!("r{} integrate", r));
                }
                w.reps[r].isolated = false;
                what = "integrate".into();
            }
            63..=76 => {
                let o = rng.below(w.reps.len() as u64) as usize;
                if o != r {
                    do_merge(w, rep, r, o);
                    check_history(w, rep, r, rng, "after merge");
                }
                what = "merge".into();
            }
            77..=81 => {
                if w.reps.len() < 5 {
                    let a = new_actor(w, rng);
                    let d = match &mut w.reps[r].d {
                        D::Auto(x) => {
                            if rng.chance(1, 3) {
                                D::Man(x.document().fork().with_actor(a.clone()))
                            } else {
                                D::Auto(x.fork().with_actor(a.clone()))
                            }
                        }
                        D::Man(x) => D::Man(x.fork().with_actor(a.clone())),
                    };
                    let hs = w.reps[r].head_sets.clone();
                    w.reps.push(Rep { d, isolated: false, own_actors: vec![a], head_sets: hs });
                    let n = w.reps.len() - 1;
                    w.log.push(format!("r{} fork -> r{}", r, n));
                    rep.count("forks");
                    check_history(w, rep, n, rng, "after fork");
                    note_heads(w, n, "fork");
                }
                what = "fork".into();
            }
            82..=86 if w.reps[r].own_actors.len() >= 2 => {
                // back to an earlier own actor and commit at once: that actor's last change is an ancestor
                // of the heads but usually not a head, so it must be added to the deps
                let cur = w.reps[r].actor();
                let others: Vec<ActorId> = w.reps[r].own_actors.iter().filter(|a| **a != cur).cloned().collect();
                if !others.is_empty() {
                    let a = rng.pick(&others).clone();
                    w.reps[r].set_actor(a);
                    w.log.push(format!("r{} set_actor (back)", r));
                    rep.count("set_actor_back");
                    do_transaction(w, rep, r, rng, 2);
                }
                what = "set_actor back + transaction".into();
            }
            82..=88 => {
                // a new actor, or back to an actor this replica used before (its last change is then
                // usually not a head any more: the extra dependency of transaction_args)
                let a = if w.reps[r].own_actors.len() > 1 && rng.chance(2, 3) {
                    rng.pick(&w.reps[r].own_actors).clone()
                } else {
                    let a = new_actor(w, rng);
                    w.reps[r].own_actors.push(a.clone());
                    a
                };
                w.reps[r].set_actor(a);
                w.log.push(format!("r{} set_actor", r));
                rep.count("set_actor");
                what = "set_actor".into();
            }
            89..=93 => {
                // save + load in the middle (isolation does not survive a reload)
                let actor = w.reps[r].actor();
                let loaded = match &mut w.reps[r].d {
                    D::Auto(x) => {
                        let bytes = if rng.chance(1, 2) { x.save() } else { x.save_nocompress() };
                        guard(|| AutoCommit::load(&bytes).map(|d| D::Auto(d.with_actor(actor.clone()))))
                    }
                    D::Man(x) => {
                        let bytes = x.save();
                        guard(|| Automerge::load(&bytes).map(|d| D::Man(d.with_actor(actor.clone()))))
                    }
                };
                match loaded {
                    Ok(Ok(d)) => {
                        w.reps[r].d = d;
                        w.reps[r].isolated = false;
                        w.log.push(format!("r{} save+load", r));
                        rep.count("save_load");
                        check_history(w, rep, r, rng, "after save+load");
                    }
                    Ok(Err(e)) => rep.fail(&["C11", "C10"], "meta|load-failed", &format!("load(save) failed: {}", e), json!({"log": w.log})),
                    Err(p) => rep.fail(&["C11", "C15"], &format!("panic|load|{}", p.signature()), &format!("load(save) panicked: {}", p.message), json!({"log": w.log})),
                }
                what = "save+load".into();
            }
            _ => {
                // apply (most of) another replica's history in a shuffled order: some changes may be held
                let o = rng.below(w.reps.len() as u64) as usize;
                if o != r {
                    let mut cs: Vec<Change> = w.reps[o].inner().get_changes(&[]);
                    cs.retain(|_| rng.chance(4, 5));
                    rng.shuffle(&mut cs);
                    let ok = match &mut w.reps[r].d {
                        D::Auto(x) => x.apply_changes(cs).is_ok(),
                        D::Man(x) => x.apply_changes(cs).is_ok(),
                    };
                    w.log.push(format!("r{} apply_changes(part of r{}) -> {}", r, o, ok));
                    rep.count("partial_apply");
                    check_history(w, rep, r, rng, "after apply_changes");
                }
                what = "apply_changes".into();
            }
        }
        note_heads(w, r, &what);
        if rng.chance(1, 3) {
            probe_get_changes(w, rep, r, rng);
        }
    }
    for r in 0..w.reps.len() {
        check_history(w, rep, r, rng, "at the end");
        probe_get_changes(w, rep, r, rng);
        probe_get_changes(w, rep, r, rng);
    }
}

/// Regression probe for the defect repaired by fd4a60d8b (isolate_actor accepted an actor whose
/// latest change was an EMPTY change outside the isolation heads): a change, an empty change and a
/// transaction isolated at the first change, all by one actor.  The isolated change must be written
/// by the concurrency-level actor with seq 1, and get_changes([A3]) must return A2.
fn scenario_empty_then_isolated(rep: &mut Report) {
    let r = guard(|| {
        let a = ActorId::from(vec![1u8, 1]);
        let mut d = AutoCommit::new().with_actor(a.clone());
        d.put(ROOT, "k", 1).unwrap();
        let a1 = d.commit().unwrap();
        let a2 = d.empty_change(CommitOptions::default());
        d.isolate(&[a1]);
        d.put(ROOT, "k", 2).unwrap();
        let a3 = d.commit().unwrap();
        d.integrate();
        let c3 = d.get_change_by_hash(&a3).unwrap();
        let got: Vec<ChangeHash> = d.get_changes(&[a3]).iter().map(|c| c.hash()).collect();
        (a, a1, a2, c3.actor_id().clone(), c3.seq(), c3.deps().to_vec(), got)
    });
    match r {
        Ok((a, a1, a2, actor3, seq3, deps3, got)) => {
            rep.count("directed_scenarios");
            if actor3 == a || seq3 != 1 || deps3 != vec![a1] {
                rep.fail(&["C04", "C10"], "meta|regression|empty-then-isolated|actor",
                    &format!("put; commit (A1); empty_change (A2); isolate([A1]); put; commit: the isolated change has seq {} and is written by {} (expected: the concurrency-level actor, seq 1, deps [A1]) - the actor's changes no longer form a chain", seq3, if actor3 == a { "the document's actor" } else { "another actor" }),
                    json!({"scenario": "empty-then-isolated"}));
            }
            if got != vec![a2] {
                rep.fail(&["C10"], "meta|regression|empty-then-isolated|get_changes",
                    "put; commit (A1); empty_change (A2); isolate([A1]); put; commit (A3): get_changes([A3]) is not [A2]",
                    json!({"scenario": "empty-then-isolated", "get_changes": got.iter().map(|h| hex(&h.0)).collect::<Vec<_>>(), "a2": hex(&a2.0)}));
            }
        }
        Err(p) => rep.fail(&["C37", "C29"], &format!("panic|scenario|{}", p.signature()), &p.message, json!({"scenario": "empty-then-isolated"})),
    }
}

/// Hashes are transported as their rank among all hashes of the universe (1-based): the model uses
/// nothing but equality and order of hashes, both preserved; 256-bit literals are slow to parse.
struct Ranks(HashMap<ChangeHash, usize>);
impl Ranks {
    fn new(all: BTreeSet<ChangeHash>) -> Self {
        Ranks(all.into_iter().enumerate().map(|(i, h)| (h, i + 1)).collect())
    }
    fn one(&self, h: &ChangeHash) -> String {
        format!("{}", self.0[h])
    }
    fn list(&self, hs: &[ChangeHash]) -> String {
        coq_nlist(hs.iter().map(|h| self.0[h] as u128))
    }
}

fn coq_mc(rk: &Ranks, h: &ChangeHash, m: &Meta) -> String {
    format!("(mc {} {} {} {} {} {})", rk.one(h), coq_actor(&m.actor), m.seq, m.start, rk.list(&m.deps), m.nops)
}

pub fn run(rng: &mut Rng, tier: &str, out: &str) -> Report {
    let mut rep = Report::new("meta");
    let mut cw = CaseWriter::new(out, "meta", HEADER, 1);
    let thorough = tier == "thorough";
    let n_model = if thorough { 160 } else { 24 };
    let n_univ = if thorough { 1500 } else { 200 };
    let per_shard = if thorough { 8 } else { 4 };
    let mut group_defs: Vec<String> = vec![];
    let mut group_cases: Vec<(String, serde_json::Value)> = vec![];
    let mut sig_seen: HashMap<String, u32> = HashMap::new();
    scenario_empty_then_isolated(&mut rep);
    for ui in 0..n_univ {
        let steps = if thorough { rng.range(20, 90) } else { rng.range(15, 50) } as usize;
        let mut w = World { reps: vec![], known: HashMap::new(), events: vec![], log: vec![], next_actor: 0, doing: String::new() };
        let mut sub = Report::new("meta");
        let res = guard(|| build_world(rng, steps, &mut sub, &mut w));
        // merge the sub-report (kept separate so that a panic does not lose what was found before it)
        for (k, v) in sub.dist.iter() {
            rep.add(k, *v);
        }
        for f in sub.failures.drain(..) {
            // the same signature is kept three times at most, so that a recorded finding cannot crowd
            // a new failure out of the bounded list
            let sig = f["signature"].as_str().unwrap_or("").to_string();
            let n = sig_seen.entry(sig).or_insert(0u32);
            *n += 1;
            if *n <= 3 && rep.failures.len() < 200 {
                rep.failures.push(f);
            } else {
                rep.count("failures_not_listed_repeated_signature");
            }
        }
        if let Err(p) = res {
            rep.count("generator_panics");
            let psig = format!("panic|history|{}", p.signature());
            let n = sig_seen.entry(psig).or_insert(0u32);
            *n += 1;
            if *n > 3 {
                rep.count("failures_not_listed_repeated_signature");
                continue;
            }
            // a panic of an editing / merge / apply call is not a statement about C04 or C10
            rep.fail(&["C37", "C29"], &format!("panic|history|{}", p.signature()),
                &format!("a public call panicked while generating a history: {} at {}", p.message, p.location),
                json!({"log": w.log, "in_flight": w.doing, "universe": ui}));
            continue;
        }
        // ---- universe: every change created in this world, first-seen order ----
        let mut order: Vec<ChangeHash> = vec![];
        let mut index: HashMap<ChangeHash, usize> = HashMap::new();
        for e in &w.events {
            if let Ev::Commit { created, .. } = e {
                index.insert(*created, order.len());
                order.push(*created);
            }
        }
        let idx = |hs: &[ChangeHash]| -> Option<String> {
            let mut v = vec![];
            for h in hs {
                v.push(*index.get(h)? as u128);
            }
            Some(coq_nlist(v))
        };
        let mut all_hashes: BTreeSet<ChangeHash> = order.iter().copied().collect();
        for e in &w.events {
            match e {
                Ev::GetChanges { have, .. } => all_hashes.extend(have.iter().copied()),
                Ev::Commit { iso: Some(hs), .. } => all_hashes.extend(hs.iter().copied()),
                _ => {}
            }
        }
        for m in w.known.values() {
            all_hashes.extend(m.deps.iter().copied());
        }
        let rk = Ranks::new(all_hashes);
        let un = format!("u{}", ui);
        let def = format!("Definition {} : list change := {}.", un, coq_list(&order.iter().map(|h| coq_mc(&rk, h, &w.known[h])).collect::<Vec<_>>()));
        let mut cases: Vec<(String, serde_json::Value)> = vec![];
        let actors: HashSet<&ActorId> = w.known.values().map(|m| &m.actor).collect();
        let mut n_commits = 0;
        // the whole history is reproducible from seed and tier; a descriptor carries its tail only
        let short_log: Vec<&String> = w.log.iter().rev().take(12).rev().collect();
        for e in &w.events {
            match e {
                Ev::Commit { rep: r, applied, actor, iso, created, how } => {
                    n_commits += 1;
                    if let (Some(a), Some(ci)) = (idx(applied), index.get(created)) {
                        let iso_s = match iso {
                            Some(h) => format!("(Some {})", rk.list(h)),
                            None => "None".into(),
                        };
                        cases.push((
                            format!("chk_commit {} {} {} {} {}", un, a, coq_actor(actor), iso_s, ci),
                            json!({"kind": "commit", "props": ["C04"], "universe": ui, "replica": r, "how": how, "created": hex(&created.0), "log": short_log}),
                        ));
                    }
                }
                Ev::Heads { rep: r, applied, heads, after } => {
                    if let Some(a) = idx(applied) {
                        cases.push((
                            format!("chk_heads {} {} {}", un, a, rk.list(heads)),
                            json!({"kind": "heads", "props": ["C04"], "universe": ui, "replica": r, "after": after, "log": short_log}),
                        ));
                    }
                    // direct: heads = applied changes no applied change depends on
                    let deps: HashSet<ChangeHash> = applied.iter().filter_map(|h| w.known.get(h)).flat_map(|m| m.deps.iter().copied()).collect();
                    let want = sorted(applied.iter().filter(|h| !deps.contains(h)).copied().collect());
                    if *heads != want {
                        rep.fail(&["C04"], "meta|heads", &format!("after {}: get_heads is not the set of applied changes no applied change depends on", after), json!({"log": w.log, "universe": ui}));
                    }
                    rep.count("heads_checks");
                }
                Ev::GetChanges { rep: r, applied, have, result, chain_ok } => {
                    if let (Some(a), Some(rs)) = (idx(applied), idx(result)) {
                        let kind = if *chain_ok { "get_changes_spec" } else { "get_changes_spec_chain_broken" };
                        cases.push((
                            format!("chk_get_changes {} {} {} {}", un, a, rk.list(have), rs),
                            json!({"kind": kind, "props": ["C10"], "universe": ui, "replica": r, "log": short_log}),
                        ));
                        cases.push((
                            format!("chk_get_changes_impl {} {} {} {} && Bool.eqb (chain_ok_b (sel {} {})) {}", un, a, rk.list(have), rs, un, a, coq_bool(*chain_ok)),
                            json!({"kind": "get_changes_impl", "props": ["C10"], "universe": ui, "replica": r, "log": short_log}),
                        ));
                    }
                }
            }
        }
        rep.add("changes", order.len() as u64);
        rep.add("replicas", w.reps.len() as u64);
        let key = fnv(format!("{:?}", order).as_bytes());
        let nontrivial = actors.len() >= 2 && n_commits >= 5;
        rep.case(if nontrivial { Some(key) } else { None });
        if ui < 2 {
            rep.sample(json!({"replicas": w.reps.len(), "changes": order.len(), "actors": actors.len(), "log": w.log.iter().take(30).collect::<Vec<_>>()}));
        }
        if ui < n_model {
            group_defs.push(def);
            group_cases.extend(cases);
            if group_defs.len() >= per_shard {
                cw.push_group(&group_defs, std::mem::take(&mut group_cases));
                group_defs.clear();
            }
        } else {
            rep.count("direct_only_universes");
        }
    }
    if !group_defs.is_empty() {
        cw.push_group(&group_defs, std::mem::take(&mut group_cases));
    }
    rep.model_cases = cw.total as u64;
    cw.finish();
    rep
}
