// Family "patch": C08 (diff between head sets) and C09 (incremental patches keep a materialized view
// equal to the document).
//
// The implementation's patches are judged three ways:
//   * hydrate::Value::apply_patches (the library's own applier) on doc.hydrate(before) vs doc.hydrate(after);
//   * a Rust mirror of the Coq applier (Crdt/Patch.v apply_at: walks the path, checks the object ids along
//     it, applies the action) on a view read through the public read API (ids, conflict flags, counters,
//     text as units of the document's encoding) — every case;
//   * the proved Coq applier itself (`chk_apply` / `chk_chain` of Exec/PatchExec.v) on the same views and
//     patches rendered as Coq literals — the model cases.
// Marks are not part of the compared state.
use crate::fam_hist;
use crate::gen::{self, GenCfg};
use crate::model::*;
use crate::util::*;
use automerge::sync::SyncDoc;
use automerge::transaction::Transactable;
use automerge::{
    hydrate, AutoCommit, Automerge, Change, ChangeHash, LoadOptions, ObjId, ObjType, Patch, PatchAction,
    PatchLog, Prop, ReadDoc, ScalarValue, TextEncoding, Value, ROOT,
};
use serde_json::json;

const HEADER: &str = "From AM Require Import Base.Prelude Base.Order Crdt.Types Crdt.Interp Crdt.Local Crdt.Patch Exec.PatchExec.\nLocal Open Scope N_scope.\n";

// ------------------------------------------------------------------ views
#[derive(Clone, Debug)]
pub enum V {
    S(ScalarValue),
    M(ObjId, Vec<(String, V, bool)>),
    L(ObjId, Vec<(V, bool)>),
    T(ObjId, Vec<u32>),
}

fn units(enc: TextEncoding, s: &str) -> Vec<u32> {
    match enc {
        TextEncoding::Utf8CodeUnit => s.bytes().map(|b| b as u32).collect(),
        TextEncoding::Utf16CodeUnit => s.encode_utf16().map(|u| u as u32).collect(),
        _ => s.chars().map(|c| c as u32).collect(),
    }
}

fn enc_name(enc: TextEncoding) -> &'static str {
    match enc {
        TextEncoding::Utf8CodeUnit => "EncU8",
        TextEncoding::Utf16CodeUnit => "EncU16",
        _ => "EncCP",
    }
}

fn same_id(a: &ObjId, b: &ObjId) -> bool {
    a == b
}

/// the view of object `obj` at `heads` (None = current), read through map_range / list_range / text
pub fn read_view(doc: &Automerge, obj: &ObjId, ty: ObjType, heads: Option<&[ChangeHash]>, enc: TextEncoding, depth: usize) -> V {
    let child = |v: Value<'static>, id: ObjId| -> V {
        match v {
            Value::Scalar(s) => V::S(s.into_owned()),
            Value::Object(t) => {
                if depth > 40 {
                    V::S(ScalarValue::Null)
                } else {
                    read_view(doc, &id, t, heads, enc, depth + 1)
                }
            }
        }
    };
    match ty {
        ObjType::Map | ObjType::Table => {
            let mut items: Vec<(String, V, bool)> = match heads {
                None => doc.map_range(obj, ..).map(|i| (i.key.to_string(), i.value.clone().into_value(), i.conflict, i.id())).collect::<Vec<_>>(),
                Some(h) => doc.map_range_at(obj, .., h).map(|i| (i.key.to_string(), i.value.clone().into_value(), i.conflict, i.id())).collect::<Vec<_>>(),
            }
            .into_iter()
            .map(|(k, v, c, id)| (k, child(v, id), c))
            .collect();
            items.sort_by(|a, b| a.0.cmp(&b.0));
            V::M(obj.clone(), items)
        }
        ObjType::List => {
            let items: Vec<(V, bool)> = match heads {
                None => doc.list_range(obj, ..).map(|i| (i.value.clone().into_value(), i.conflict, i.id())).collect::<Vec<_>>(),
                Some(h) => doc.list_range_at(obj, .., h).map(|i| (i.value.clone().into_value(), i.conflict, i.id())).collect::<Vec<_>>(),
            }
            .into_iter()
            .map(|(v, c, id)| (child(v, id), c))
            .collect();
            V::L(obj.clone(), items)
        }
        ObjType::Text => {
            let s = match heads {
                None => doc.text(obj),
                Some(h) => doc.text_at(obj, h),
            }
            .unwrap_or_default();
            V::T(obj.clone(), units(enc, &s))
        }
    }
}

fn units_string(enc: TextEncoding, u: &[u32]) -> String {
    match enc {
        TextEncoding::Utf8CodeUnit => String::from_utf8_lossy(&u.iter().map(|x| *x as u8).collect::<Vec<_>>()).to_string(),
        TextEncoding::Utf16CodeUnit => String::from_utf16_lossy(&u.iter().map(|x| *x as u16).collect::<Vec<_>>()),
        _ => u.iter().map(|x| char::from_u32(*x).unwrap_or('\u{fffd}')).collect(),
    }
}

/// scalars: a counter by its current value (its Debug form also shows the initial value, which is not state),
/// floats by bit pattern
fn render_s(s: &ScalarValue) -> String {
    match s {
        ScalarValue::Counter(c) => format!("Counter({})", i64::from(c)),
        ScalarValue::F64(f) => format!("F64({:#x})", f.to_bits()),
        other => format!("{:?}", other),
    }
}
/// canonical string of a view WITHOUT ids — the same format as `render_h` of a hydrate value
fn render_v(enc: TextEncoding, v: &V) -> String {
    match v {
        V::S(s) => render_s(s),
        V::M(_, m) => format!("{{{}}}", m.iter().map(|(k, v, c)| format!("{:?}:{}{}", k, render_v(enc, v), if *c { "!" } else { "" })).collect::<Vec<_>>().join(",")),
        V::L(_, l) => format!("[{}]", l.iter().map(|(v, c)| format!("{}{}", render_v(enc, v), if *c { "!" } else { "" })).collect::<Vec<_>>().join(",")),
        V::T(_, u) => format!("T{:?}", units_string(enc, u)),
    }
}
fn render_h(v: &hydrate::Value) -> String {
    use hydrate::Value as H;
    match v {
        H::Scalar(s) => render_s(s),
        H::Map(m) => {
            let mut items: Vec<(&String, String)> = m.iter().map(|(k, mv)| (k, format!("{}{}", render_h(&mv.value), if mv.conflict { "!" } else { "" }))).collect();
            items.sort();
            format!("{{{}}}", items.iter().map(|(k, v)| format!("{:?}:{}", k, v)).collect::<Vec<_>>().join(","))
        }
        H::List(l) => format!("[{}]", l.iter().map(|lv| format!("{}{}", render_h(&lv.value), if lv.conflict { "!" } else { "" })).collect::<Vec<_>>().join(",")),
        H::Text(t) => format!("T{:?}", String::from(t)),
    }
}
/// canonical string WITH ids (what the model compares)
fn render_vid(v: &V) -> String {
    match v {
        V::S(s) => render_s(s),
        V::M(id, m) => format!("{}{{{}}}", coq_objid(id), m.iter().map(|(k, v, c)| format!("{:?}:{}{}", k, render_vid(v), if *c { "!" } else { "" })).collect::<Vec<_>>().join(",")),
        V::L(id, l) => format!("{}[{}]", coq_objid(id), l.iter().map(|(v, c)| format!("{}{}", render_vid(v), if *c { "!" } else { "" })).collect::<Vec<_>>().join(",")),
        V::T(id, u) => format!("{}T{:?}", coq_objid(id), u),
    }
}

fn coq_view(v: &V) -> String {
    match v {
        V::S(s) => format!("(VScalar {})", coq_scalar(s)),
        V::M(id, m) => format!(
            "(VMap {} {})",
            coq_objid(id),
            coq_list(&m.iter().map(|(k, v, c)| format!("({},({},{}))", coq_str(k), coq_view(v), coq_bool(*c))).collect::<Vec<_>>())
        ),
        V::L(id, l) => format!("(VList {} {})", coq_objid(id), coq_list(&l.iter().map(|(v, c)| format!("({},{})", coq_view(v), coq_bool(*c))).collect::<Vec<_>>())),
        V::T(id, u) => format!("(VText {} {})", coq_objid(id), coq_nlist(u.iter().map(|x| *x as u128))),
    }
}

struct VStats {
    objects: usize,
    conflicts: usize,
    counters: usize,
    text_units: usize,
}
fn vstats(v: &V, st: &mut VStats) {
    match v {
        V::S(ScalarValue::Counter(_)) => st.counters += 1,
        V::S(_) => {}
        V::M(_, m) => {
            st.objects += 1;
            for (_, c, f) in m {
                if *f {
                    st.conflicts += 1;
                }
                vstats(c, st);
            }
        }
        V::L(_, l) => {
            st.objects += 1;
            for (c, f) in l {
                if *f {
                    st.conflicts += 1;
                }
                vstats(c, st);
            }
        }
        V::T(_, u) => {
            st.objects += 1;
            st.text_units += u.len();
        }
    }
}
/// non-root objects of a view with their type
fn objects_of(v: &V, out: &mut Vec<(ObjId, ObjType)>, root: bool) {
    match v {
        V::S(_) => {}
        V::M(id, m) => {
            if !root {
                out.push((id.clone(), ObjType::Map));
            }
            for (_, c, _) in m {
                objects_of(c, out, false);
            }
        }
        V::L(id, l) => {
            if !root {
                out.push((id.clone(), ObjType::List));
            }
            for (c, _) in l {
                objects_of(c, out, false);
            }
        }
        V::T(id, _) => {
            if !root {
                out.push((id.clone(), ObjType::Text));
            }
        }
    }
}
/// children objects replaced by empty ones (for non-recursive diff_obj)
fn prune(v: &V) -> V {
    let empty = |c: &V| match c {
        V::S(s) => V::S(s.clone()),
        V::M(id, _) => V::M(id.clone(), vec![]),
        V::L(id, _) => V::L(id.clone(), vec![]),
        V::T(id, _) => V::T(id.clone(), vec![]),
    };
    match v {
        V::M(id, m) => V::M(id.clone(), m.iter().map(|(k, c, f)| (k.clone(), empty(c), *f)).collect()),
        V::L(id, l) => V::L(id.clone(), l.iter().map(|(c, f)| (empty(c), *f)).collect()),
        other => other.clone(),
    }
}

// ------------------------------------------------------------------ patches
#[derive(Clone, Debug)]
enum PV {
    S(ScalarValue),
    O(ObjType, ObjId),
}
#[derive(Clone, Debug)]
enum PA {
    PutMap(String, PV, bool),
    PutSeq(usize, PV, bool),
    Insert(usize, Vec<(PV, bool)>),
    Splice(usize, Vec<u32>),
    Inc(Prop, i64),
    Conflict(Prop),
    DelMap(String),
    DelSeq(usize, usize),
    Mark(Vec<(usize, usize, String)>),
}
#[derive(Clone, Debug)]
struct P {
    obj: ObjId,
    path: Vec<(ObjId, Prop)>,
    act: PA,
}

fn conv_pv(v: &Value<'_>, id: &ObjId) -> PV {
    match v {
        Value::Object(t) => PV::O(*t, id.clone()),
        Value::Scalar(s) => PV::S(s.as_ref().clone()),
    }
}
fn conv(p: &Patch, enc: TextEncoding) -> P {
    let act = match &p.action {
        PatchAction::PutMap { key, value, conflict } => PA::PutMap(key.clone(), conv_pv(&value.0, &value.1), *conflict),
        PatchAction::PutSeq { index, value, conflict } => PA::PutSeq(*index, conv_pv(&value.0, &value.1), *conflict),
        PatchAction::Insert { index, values } => PA::Insert(*index, values.iter().map(|(v, id, c)| (conv_pv(v, id), *c)).collect()),
        PatchAction::SpliceText { index, value, .. } => PA::Splice(*index, units(enc, &value.make_string())),
        PatchAction::Increment { prop, value } => PA::Inc(prop.clone(), *value),
        PatchAction::Conflict { prop } => PA::Conflict(prop.clone()),
        PatchAction::DeleteMap { key } => PA::DelMap(key.clone()),
        PatchAction::DeleteSeq { index, length } => PA::DelSeq(*index, *length),
        PatchAction::Mark { marks } => PA::Mark(marks.iter().map(|m| (m.start, m.end, m.name.to_string())).collect()),
    };
    P { obj: p.obj.clone(), path: p.path.clone(), act }
}

fn coq_prop(p: &Prop) -> String {
    match p {
        Prop::Map(k) => format!("(PMap {})", coq_str(k)),
        Prop::Seq(i) => format!("(PSeq {})", i),
    }
}
fn coq_pv(v: &PV) -> String {
    match v {
        PV::S(s) => format!("(PVS {})", coq_scalar(s)),
        PV::O(t, id) => format!("(PVO {} {})", coq_objtype(*t), coq_objid(id)),
    }
}
fn coq_p(p: &P) -> String {
    let act = match &p.act {
        PA::PutMap(k, v, c) => format!("(PutMap {} {} {})", coq_str(k), coq_pv(v), coq_bool(*c)),
        PA::PutSeq(i, v, c) => format!("(PutSeq {} {} {})", i, coq_pv(v), coq_bool(*c)),
        PA::Insert(i, vs) => format!("(Insert {} {})", i, coq_list(&vs.iter().map(|(v, c)| format!("({},{})", coq_pv(v), coq_bool(*c))).collect::<Vec<_>>())),
        PA::Splice(i, u) => format!("(SpliceText {} {})", i, coq_nlist(u.iter().map(|x| *x as u128))),
        PA::Inc(p, z) => format!("(Increment {} {})", coq_prop(p), coq_z(*z as i128)),
        PA::Conflict(p) => format!("(Conflict {})", coq_prop(p)),
        PA::DelMap(k) => format!("(DeleteMap {})", coq_str(k)),
        PA::DelSeq(i, n) => format!("(DeleteSeq {} {})", i, n),
        PA::Mark(ms) => format!("(MarkP {})", coq_list(&ms.iter().map(|(s, e, n)| format!("({},{},{})", s, e, coq_str(n))).collect::<Vec<_>>())),
    };
    format!(
        "(mkPatch {} {} {})",
        coq_objid(&p.obj),
        coq_list(&p.path.iter().map(|(o, pr)| format!("({},{})", coq_objid(o), coq_prop(pr))).collect::<Vec<_>>()),
        act
    )
}
fn coq_ps(ps: &[P]) -> String {
    coq_list(&ps.iter().map(coq_p).collect::<Vec<_>>())
}
fn kind_of(a: &PA) -> &'static str {
    match a {
        PA::PutMap(..) => "PutMap",
        PA::PutSeq(..) => "PutSeq",
        PA::Insert(..) => "Insert",
        PA::Splice(..) => "SpliceText",
        PA::Inc(..) => "Increment",
        PA::Conflict(..) => "Conflict",
        PA::DelMap(..) => "DeleteMap",
        PA::DelSeq(..) => "DeleteSeq",
        PA::Mark(..) => "Mark",
    }
}

// ------------------------------------------------------------------ the Rust mirror of Crdt/Patch.v apply_at
fn new_view(v: &PV) -> V {
    match v {
        PV::S(s) => V::S(s.clone()),
        PV::O(ObjType::Map, id) | PV::O(ObjType::Table, id) => V::M(id.clone(), vec![]),
        PV::O(ObjType::List, id) => V::L(id.clone(), vec![]),
        PV::O(ObjType::Text, id) => V::T(id.clone(), vec![]),
    }
}
fn pv_units(enc: TextEncoding, v: &PV) -> Vec<u32> {
    match v {
        PV::S(ScalarValue::Str(s)) => units(enc, s),
        _ => units(enc, "\u{fffc}"),
    }
}
fn view_id(v: &V) -> Option<&ObjId> {
    match v {
        V::S(_) => None,
        V::M(id, _) | V::L(id, _) | V::T(id, _) => Some(id),
    }
}
fn inc_entry(v: &mut V, z: i64) -> Result<(), String> {
    match v {
        V::S(ScalarValue::Counter(c)) => {
            let cur = i64::from(&*c);
            *v = V::S(ScalarValue::counter(cur.wrapping_add(z)));
            Ok(())
        }
        _ => Err("increment of a non-counter".into()),
    }
}
fn apply_action(enc: TextEncoding, v: &mut V, a: &PA) -> Result<(), String> {
    match v {
        V::S(_) => Err("action on a scalar".into()),
        V::M(_, m) => match a {
            PA::PutMap(k, pv, c) => {
                let e = (k.clone(), new_view(pv), *c);
                match m.binary_search_by(|x| x.0.as_str().cmp(k.as_str())) {
                    Ok(i) => m[i] = e,
                    Err(i) => m.insert(i, e),
                }
                Ok(())
            }
            PA::DelMap(k) => {
                m.retain(|x| &x.0 != k);
                Ok(())
            }
            PA::Inc(Prop::Map(k), z) => match m.iter_mut().find(|x| &x.0 == k) {
                Some(x) => inc_entry(&mut x.1, *z),
                None => Err(format!("Increment of absent key {:?}", k)),
            },
            PA::Conflict(Prop::Map(k)) => match m.iter_mut().find(|x| &x.0 == k) {
                Some(x) => {
                    x.2 = true;
                    Ok(())
                }
                None => Err(format!("Conflict on absent key {:?}", k)),
            },
            other => Err(format!("{} on a map", kind_of(other))),
        },
        V::L(_, l) => match a {
            PA::PutSeq(i, pv, c) => {
                if *i < l.len() {
                    l[*i] = (new_view(pv), *c);
                    Ok(())
                } else {
                    Err(format!("PutSeq index {} >= len {}", i, l.len()))
                }
            }
            PA::Insert(i, vs) => {
                if *i <= l.len() {
                    let items: Vec<(V, bool)> = vs.iter().map(|(pv, c)| (new_view(pv), *c)).collect();
                    l.splice(*i..*i, items);
                    Ok(())
                } else {
                    Err(format!("Insert index {} > len {}", i, l.len()))
                }
            }
            PA::DelSeq(i, n) => {
                if i + n <= l.len() {
                    l.drain(*i..*i + *n);
                    Ok(())
                } else {
                    Err(format!("DeleteSeq {}+{} > len {}", i, n, l.len()))
                }
            }
            PA::Inc(Prop::Seq(i), z) => match l.get_mut(*i) {
                Some(x) => inc_entry(&mut x.0, *z),
                None => Err(format!("Increment index {} out of range", i)),
            },
            PA::Conflict(Prop::Seq(i)) => match l.get_mut(*i) {
                Some(x) => {
                    x.1 = true;
                    Ok(())
                }
                None => Err(format!("Conflict index {} out of range", i)),
            },
            PA::Mark(_) => Ok(()),
            other => Err(format!("{} on a list", kind_of(other))),
        },
        V::T(_, u) => {
            let ins = |u: &mut Vec<u32>, i: usize, x: Vec<u32>| -> Result<(), String> {
                if i <= u.len() {
                    u.splice(i..i, x);
                    Ok(())
                } else {
                    Err(format!("text insert index {} > len {}", i, u.len()))
                }
            };
            let del = |u: &mut Vec<u32>, i: usize, n: usize| -> Result<(), String> {
                if i + n <= u.len() {
                    u.drain(i..i + n);
                    Ok(())
                } else {
                    Err(format!("text delete {}+{} > len {}", i, n, u.len()))
                }
            };
            match a {
                PA::Splice(i, x) => ins(u, *i, x.clone()),
                PA::Insert(i, vs) => ins(u, *i, vs.iter().flat_map(|(pv, _)| pv_units(enc, pv)).collect()),
                PA::PutSeq(i, pv, _) => {
                    del(u, *i, 1)?;
                    ins(u, *i, pv_units(enc, pv))
                }
                PA::DelSeq(i, n) => del(u, *i, *n),
                PA::Mark(_) => Ok(()),
                other => Err(format!("{} on a text", kind_of(other))),
            }
        }
    }
}
fn apply_at(enc: TextEncoding, v: &mut V, path: &[(ObjId, Prop)], obj: &ObjId, a: &PA) -> Result<(), String> {
    match path.split_first() {
        None => {
            if view_id(v).map(|i| same_id(i, obj)).unwrap_or(false) {
                apply_action(enc, v, a)
            } else {
                Err(format!("the path ends at {:?}, not at the patch's object {}", view_id(v).map(|i| i.to_string()), obj))
            }
        }
        Some(((pid, pr), rest)) => {
            if !view_id(v).map(|i| same_id(i, pid)).unwrap_or(false) {
                return Err(format!("path element names {} but the view has {:?} there", pid, view_id(v).map(|i| i.to_string())));
            }
            match (v, pr) {
                (V::M(_, m), Prop::Map(k)) => match m.iter_mut().find(|x| &x.0 == k) {
                    Some(x) => apply_at(enc, &mut x.1, rest, obj, a),
                    None => Err(format!("path key {:?} absent", k)),
                },
                (V::L(_, l), Prop::Seq(i)) => match l.get_mut(*i) {
                    Some(x) => apply_at(enc, &mut x.0, rest, obj, a),
                    None => Err(format!("path index {} out of range", i)),
                },
                (V::T(..), Prop::Seq(_)) => Ok(()),
                _ => Err("path prop does not fit the node".into()),
            }
        }
    }
}
fn apply_all(enc: TextEncoding, v: &mut V, ps: &[P]) -> Result<(), String> {
    for (n, p) in ps.iter().enumerate() {
        apply_at(enc, v, &p.path, &p.obj, &p.act).map_err(|e| format!("patch #{} ({} on {}): {}", n, kind_of(&p.act), p.obj, e))?;
    }
    Ok(())
}


// ------------------------------------------------------------------ structural class of a wrong result
/// first difference between the state reached and the state wanted: (class, object, prop)
fn first_diff(got: &V, want: &V) -> Option<(String, Option<ObjId>, Option<Prop>)> {
    fn shell(v: &V) -> String {
        match v {
            V::S(s) => render_s(s),
            V::M(id, _) => format!("M{}", coq_objid(id)),
            V::L(id, _) => format!("L{}", coq_objid(id)),
            V::T(id, _) => format!("T{}", coq_objid(id)),
        }
    }
    fn entry(kind: &str, obj: &ObjId, prop: Prop, g: (&V, bool), w: (&V, bool)) -> Option<(String, Option<ObjId>, Option<Prop>)> {
        if shell(g.0) != shell(w.0) {
            let what = match (g.0, w.0) {
                (V::S(_), V::S(_)) => "value",
                (V::S(_), _) | (_, V::S(_)) => "scalar-vs-object",
                _ => "object",
            };
            return Some((format!("{}|{}", kind, what), Some(obj.clone()), Some(prop)));
        }
        if g.1 != w.1 {
            return Some((format!("{}|flag-{}-want-{}", kind, g.1, w.1), Some(obj.clone()), Some(prop)));
        }
        first_diff(g.0, w.0)
    }
    match (got, want) {
        (V::S(a), V::S(b)) => if render_s(a) != render_s(b) { Some(("root|value".into(), None, None)) } else { None },
        (V::M(id, a), V::M(_, b)) => {
            for (k, v, f) in b {
                match a.iter().find(|x| &x.0 == k) {
                    None => return Some(("map|missing-key".into(), Some(id.clone()), Some(Prop::Map(k.clone())))),
                    Some(x) => {
                        if let Some(d) = entry("map", id, Prop::Map(k.clone()), (&x.1, x.2), (v, *f)) {
                            return Some(d);
                        }
                    }
                }
            }
            for (k, _, _) in a {
                if !b.iter().any(|x| &x.0 == k) {
                    return Some(("map|extra-key".into(), Some(id.clone()), Some(Prop::Map(k.clone()))));
                }
            }
            None
        }
        (V::L(id, a), V::L(_, b)) => {
            if a.len() != b.len() {
                return Some(("list|length".into(), Some(id.clone()), None));
            }
            for (i, (x, y)) in a.iter().zip(b.iter()).enumerate() {
                if let Some(d) = entry("list", id, Prop::Seq(i), (&x.0, x.1), (&y.0, y.1)) {
                    return Some(d);
                }
            }
            None
        }
        (V::T(id, a), V::T(_, b)) => if a != b { Some(("text|content".into(), Some(id.clone()), None)) } else { None },
        _ => Some(("kind".into(), None, None)),
    }
}
/// class of an applier error: the text after the patch position, numerals and quoted keys erased
fn not_applicable_class(e: &str) -> String {
    let tail = e.rsplit("): ").next().unwrap_or(e);
    let head = e.split(" on ").next().unwrap_or("").rsplit('(').next().unwrap_or("");
    let mut out = String::new();
    let mut in_q = false;
    for c in tail.chars() {
        if c == '"' {
            in_q = !in_q;
            continue;
        }
        if in_q || c.is_ascii_digit() {
            continue;
        }
        out.push(if c == ' ' { '_' } else { c });
    }
    format!("{}:{}", head, out)
}
/// class of the difference plus the kind of the last patch that addressed that register
fn classify(got: &V, want: &V, ps: &[P]) -> String {
    match first_diff(got, want) {
        None => "none".into(),
        Some((class, obj, prop)) => {
            let last = ps.iter().rev().find(|p| {
                obj.as_ref().map(|o| &p.obj == o).unwrap_or(false)
                    && match (&p.act, &prop) {
                        (PA::PutMap(k, _, _), Some(Prop::Map(q))) | (PA::DelMap(k), Some(Prop::Map(q))) => k == q,
                        (PA::Inc(a, _), Some(b)) | (PA::Conflict(a), Some(b)) => a == b,
                        (PA::PutSeq(i, _, _), Some(Prop::Seq(q))) => i == q,
                        (_, None) => true,
                        _ => false,
                    }
            });
            let by = match last {
                None => "no-patch".to_string(),
                Some(p) => match &p.act {
                    PA::PutMap(_, _, c) | PA::PutSeq(_, _, c) => format!("{}-conflict-{}", kind_of(&p.act), c),
                    other => kind_of(other).to_string(),
                },
            };
            format!("{}|{}", class, by)
        }
    }
}

// ------------------------------------------------------------------ edit programs (any Transactable, any encoding)
const TXT: [&str; 8] = ["x", "ab", "\u{e9}", "\u{6f22}", "\u{1F600}", "e\u{301}", "hello ", "\n"];
const PKEYS: [&str; 5] = ["a", "b", "k", "\u{e9}", "zz"];

fn has_counter<T: ReadDoc>(d: &T, obj: &ObjId, p: Prop) -> bool {
    d.get_all(obj, p).map(|vs| vs.iter().any(|(v, _)| matches!(v, Value::Scalar(s) if matches!(s.as_ref(), ScalarValue::Counter(_))))).unwrap_or(false)
}
fn small_scalar(rng: &mut Rng) -> ScalarValue {
    match rng.below(8) {
        0 | 1 => ScalarValue::counter(rng.below(9) as i64 - 2),
        2 => ScalarValue::Str(rng.pick(&TXT).to_string().into()),
        3 => ScalarValue::Int(rng.below(4) as i64),
        4 => ScalarValue::Null,
        5 => ScalarValue::Boolean(rng.chance(1, 2)),
        _ => gen::scalar(rng),
    }
}
/// one edit concentrated on few registers so that replicas conflict: root keys a/b/k, a list at "l",
/// a text at "t", a nested map at "m", objects inside the list; counters and increments
pub fn rand_edit<T: Transactable>(d: &mut T, rng: &mut Rng) -> Option<String> {
    let objs = gen::reachable(d);
    let (obj, ty) = rng.pick(&objs).clone();
    match ty {
        ObjType::Map | ObjType::Table => {
            let key = if obj == ROOT && rng.chance(1, 3) { *rng.pick(&["l", "t", "m"]) } else { *rng.pick(&PKEYS) };
            let existing: Vec<String> = d.keys(&obj).collect();
            match rng.below(12) {
                0 | 1 if !existing.is_empty() => {
                    let k = rng.pick(&existing).clone();
                    d.delete(&obj, k.as_str()).ok()?;
                    Some(format!("{} del {:?}", obj, k))
                }
                2 | 3 | 4 => {
                    for k in existing {
                        if has_counter(d, &obj, Prop::Map(k.clone())) {
                            let by = rng.below(7) as i64 - 2;
                            d.increment(&obj, k.as_str(), by).ok()?;
                            return Some(format!("{} inc {:?} {}", obj, k, by));
                        }
                    }
                    let v = ScalarValue::counter(rng.below(5) as i64);
                    d.put(&obj, key, v.clone()).ok()?;
                    Some(format!("{} put {:?} {:?}", obj, key, v))
                }
                5 | 6 | 7 => {
                    let t = match key {
                        "l" => ObjType::List,
                        "t" => ObjType::Text,
                        "m" => ObjType::Map,
                        _ => *rng.pick(&[ObjType::Map, ObjType::List, ObjType::Text]),
                    };
                    // mostly keep an existing object of that type (so that it fills up), sometimes overwrite it
                    if let Ok(Some((Value::Object(t0), _))) = d.get(&obj, key) {
                        if t0 == t && !rng.chance(1, 5) {
                            return None;
                        }
                    }
                    d.put_object(&obj, key, t).ok()?;
                    Some(format!("{} put_object {:?} {:?}", obj, key, t))
                }
                _ => {
                    let v = small_scalar(rng);
                    d.put(&obj, key, v.clone()).ok()?;
                    Some(format!("{} put {:?} {:?}", obj, key, v))
                }
            }
        }
        ObjType::List => {
            let len = d.length(&obj);
            match rng.below(12) {
                0 | 1 if len > 0 => {
                    let i = rng.below(len as u64) as usize;
                    d.delete(&obj, i).ok()?;
                    Some(format!("{} ldel {}", obj, i))
                }
                2 | 3 if len > 0 => {
                    let i = if rng.chance(1, 2) { 0 } else { rng.below(len as u64) as usize };
                    let v = small_scalar(rng);
                    d.put(&obj, i, v.clone()).ok()?;
                    Some(format!("{} lput {} {:?}", obj, i, v))
                }
                4 | 5 if len > 0 => {
                    for i in 0..len {
                        if has_counter(d, &obj, Prop::Seq(i)) {
                            d.increment(&obj, i, 2).ok()?;
                            return Some(format!("{} linc {}", obj, i));
                        }
                    }
                    None
                }
                6 => {
                    let i = rng.below(len as u64 + 1) as usize;
                    let t = *rng.pick(&[ObjType::Map, ObjType::List, ObjType::Text]);
                    d.insert_object(&obj, i, t).ok()?;
                    Some(format!("{} linsobj {} {:?}", obj, i, t))
                }
                7 if len > 0 => {
                    let i = rng.below(len as u64) as usize;
                    let t = *rng.pick(&[ObjType::Map, ObjType::List]);
                    d.put_object(&obj, i, t).ok()?;
                    Some(format!("{} lputobj {} {:?}", obj, i, t))
                }
                8 if len > 0 => {
                    let i = rng.below(len as u64) as usize;
                    let del = rng.below((len - i).min(3) as u64 + 1) as isize;
                    let n = rng.below(3) as usize;
                    let vals: Vec<ScalarValue> = (0..n).map(|_| small_scalar(rng)).collect();
                    d.splice(&obj, i, del, vals).ok()?;
                    Some(format!("{} lsplice {} {} {}", obj, i, del, n))
                }
                _ => {
                    let i = rng.below(len as u64 + 1) as usize;
                    let v = small_scalar(rng);
                    d.insert(&obj, i, v.clone()).ok()?;
                    Some(format!("{} lins {} {:?}", obj, i, v))
                }
            }
        }
        ObjType::Text => {
            let len = d.length(&obj);
            let pos = rng.below(len as u64 + 1) as usize;
            let del = if len > pos && rng.chance(1, 3) { rng.below((len - pos).min(4) as u64 + 1) as isize } else { 0 };
            let s = if rng.chance(1, 6) { "" } else { *rng.pick(&TXT) };
            if s.is_empty() && del == 0 {
                return None;
            }
            d.splice_text(&obj, pos, del, s).ok()?;
            Some(format!("{} tsplice {} {} {:?}", obj, pos, del, s))
        }
    }
}

fn pick_enc(rng: &mut Rng) -> TextEncoding {
    *rng.pick(&[TextEncoding::UnicodeCodePoint, TextEncoding::Utf8CodeUnit, TextEncoding::Utf16CodeUnit])
}

/// a multi-replica history in encoding `enc`: edits, commits, merges; records head sets
fn build_universe_enc(rng: &mut Rng, enc: TextEncoding, n_replicas: usize, steps: usize, log: &mut Vec<String>) -> (Vec<Change>, Vec<Vec<ChangeHash>>) {
    let mut reps: Vec<AutoCommit> = vec![];
    let mut base = AutoCommit::new_with_encoding(enc).with_actor(gen::actor(rng, 0));
    for _ in 0..rng.range(2, 8) {
        if let Some(d) = rand_edit(&mut base, rng) {
            log.push(format!("r0 {}", d));
        }
    }
    base.commit();
    reps.push(base);
    for i in 1..n_replicas {
        let f = reps[0].fork().with_actor(gen::actor(rng, i));
        reps.push(f);
    }
    let mut head_sets: Vec<Vec<ChangeHash>> = vec![reps[0].get_heads()];
    for _ in 0..steps {
        let r = rng.below(n_replicas as u64) as usize;
        match rng.below(100) {
            0..=64 => {
                if let Some(d) = rand_edit(&mut reps[r], rng) {
                    log.push(format!("r{} {}", r, d));
                }
            }
            65..=79 => {
                if reps[r].commit().is_some() {
                    log.push(format!("r{} commit", r));
                    let h = reps[r].get_heads();
                    head_sets.push(h);
                }
            }
            _ => {
                let o = rng.below(n_replicas as u64) as usize;
                if o != r {
                    let (a, b) = if r < o {
                        let (x, y) = reps.split_at_mut(o);
                        (&mut x[r], &mut y[0])
                    } else {
                        let (x, y) = reps.split_at_mut(r);
                        (&mut y[0], &mut x[o])
                    };
                    if a.merge(b).is_ok() {
                        log.push(format!("r{} merge r{}", r, o));
                        let h = a.get_heads();
                        head_sets.push(h);
                    }
                }
            }
        }
    }
    for r in reps.iter_mut() {
        r.commit();
        let h = r.get_heads();
        head_sets.push(h);
    }
    let mut all = Automerge::new_with_encoding(enc);
    for r in reps.iter_mut() {
        let cs = r.get_changes(&[]);
        all.apply_changes(cs).expect("union of replicas applies");
    }
    head_sets.push(all.get_heads());
    for h in head_sets.iter_mut() {
        h.sort();
    }
    head_sets.sort();
    head_sets.dedup();
    (all.get_changes(&[]), head_sets)
}

/// cases share no definitions: pack them into common shards (every coqc start loads the model once)
fn push_cases(cw: &mut CaseWriter, cases: Vec<(String, serde_json::Value)>) {
    for (t, d) in cases {
        cw.push(t, d);
    }
}

fn hexes(h: &[ChangeHash]) -> Vec<String> {
    h.iter().map(|x| hex(&x.0)).collect()
}

// ------------------------------------------------------------------ one judged patch list
struct Judge<'a> {
    rep: &'a mut Report,
    cases: Vec<(String, serde_json::Value)>,
    model: bool,
}
impl<'a> Judge<'a> {
    /// mirror applier (always) + Coq case (when `model`).  `shallow`: compare with children pruned.
    fn judge(&mut self, props: &[&str], kind: &str, enc: TextEncoding, v1: &V, ps: &[P], v2: &V, shallow: bool, replay: serde_json::Value) -> bool {
        for p in ps {
            self.rep.count(&format!("patch_{}", kind_of(&p.act)));
        }
        let mut v = v1.clone();
        let ok = match apply_all(enc, &mut v, ps) {
            Ok(()) => {
                let (a, b) = if shallow { (render_vid(&prune(&v)), render_vid(&prune(v2))) } else { (render_vid(&v), render_vid(v2)) };
                if a != b {
                    let class = if shallow { classify(&prune(&v), &prune(v2), ps) } else { classify(&v, v2, ps) };
                    self.rep.fail(props, &format!("patch|diff|state-differs|{}|{}", class, kind),
                        &format!("applying the emitted patches to the state before does not give the state after ({}): got {} want {}", kind, a, b),
                        json!({"kind": kind, "before": render_vid(v1), "after": render_vid(v2), "got": a, "patches": ps.iter().map(|p| format!("{:?}", p)).collect::<Vec<_>>(), "replay": replay}));
                    false
                } else {
                    true
                }
            }
            Err(e) => {
                self.rep.fail(props, &format!("patch|diff|not-applicable|{}|{}", not_applicable_class(&e), kind),
                    &format!("an emitted patch cannot be applied to the state before ({}): {}", kind, e),
                    json!({"kind": kind, "before": render_vid(v1), "after": render_vid(v2), "error": e, "patches": ps.iter().map(|p| format!("{:?}", p)).collect::<Vec<_>>(), "replay": replay}));
                false
            }
        };
        if self.model && !shallow {
            let chk = if kind == "diff" { "chk_apply" } else { "chk_apply_node" };
            // the proved applier must judge the patches as the mirror did: accept what it accepted, and reject
            // what it rejected (a rejection is already reported as a direct failure with its class)
            let term = format!("{} {} {} {} {}", chk, enc_name(enc), coq_view(v1), coq_ps(ps), coq_view(v2));
            self.cases.push((
                if ok { term } else { format!("negb ({})", term) },
                json!({"kind": if ok { kind.to_string() } else { format!("{}-rejected", kind) }, "props": props, "direct_ok": ok, "replay": replay}),
            ));
        }
        ok
    }
}

// ------------------------------------------------------------------ C08
fn run_c08(rng: &mut Rng, thorough: bool, rep: &mut Report, cw: &mut CaseWriter) {
    let n_univ = if thorough { 900 } else { 150 };
    let n_model = if thorough { 90 } else { 14 };
    for ui in 0..n_univ {
        let enc = [TextEncoding::UnicodeCodePoint, TextEncoding::Utf8CodeUnit, TextEncoding::Utf16CodeUnit][ui % 3];
        let mut log: Vec<String> = vec![];
        let nrep = rng.range(2, 3) as usize;
        let steps = if thorough { rng.range(15, 90) } else { rng.range(12, 50) } as usize;
        let use_hist = enc == TextEncoding::UnicodeCodePoint && ui % 2 == 0;
        let built = guard(|| {
            if use_hist {
                let cfg = GenCfg { focus: ui % 4 == 0, ..GenCfg::default() };
                let u = fam_hist::build_universe(rng, nrep, steps, &cfg, &mut log);
                (u.changes, u.head_sets)
            } else {
                build_universe_enc(rng, enc, nrep, steps, &mut log)
            }
        });
        let (changes, mut head_sets) = match built {
            Ok(x) => x,
            Err(p) => {
                rep.count("generator_panics");
                rep.fail(&["C03", "C37"], &format!("panic|edit|{}", p.signature()),
                    &format!("a public editing / merge call panicked while generating a history: {} at {}", p.message, p.location), json!({"log": log, "universe": ui}));
                continue;
            }
        };
        rep.count(if use_hist { "universes_hist" } else { "universes_own" });
        rep.count(&format!("universes_{}", enc_name(enc)));
        let mut all = Automerge::new_with_encoding(enc);
        all.apply_changes(changes.clone()).unwrap();
        let final_heads = {
            let mut h = all.get_heads();
            h.sort();
            h
        };
        for h in head_sets.iter_mut() {
            h.sort();
        }
        head_sets.sort();
        head_sets.dedup();
        rng.shuffle(&mut head_sets);
        head_sets.truncate(4);
        if !head_sets.contains(&final_heads) {
            head_sets.push(final_heads.clone());
        }
        if rng.chance(1, 3) {
            head_sets.push(vec![]); // the empty document
        }
        head_sets.truncate(5);
        let model = ui < n_model;
        let base_replay = json!({"universe": ui, "enc": enc_name(enc), "log": log});
        // states
        let mut views: Vec<V> = vec![];
        let mut hyds: Vec<hydrate::Value> = vec![];
        let mut reads_ok: Vec<bool> = vec![];
        let mut bad = false;
        for hs in &head_sets {
            let r = guard(|| (read_view(&all, &ROOT, ObjType::Map, Some(hs), enc, 0), all.hydrate(Some(hs))));
            match r {
                Ok((v, h)) => {
                    if render_v(enc, &v) != render_h(&h) {
                        rep.fail(&["C07", "C02"], "patch|reads-disagree|hydrate-vs-range-at", "hydrate(heads) differs from the state read through map_range_at / list_range_at / text_at",
                            json!({"heads": hexes(hs), "reads": render_v(enc, &v), "hydrate": render_h(&h), "replay": base_replay}));
                    }
                    reads_ok.push(render_v(enc, &v) == render_h(&h));
                    views.push(v);
                    hyds.push(h);
                }
                Err(p) => {
                    rep.fail(&["C07", "C37"], &format!("panic|hydrate|{}", p.signature()), &format!("reading a historical state panicked: {}", p.message), base_replay.clone());
                    bad = true;
                    break;
                }
            }
        }
        if bad {
            continue;
        }
        let mut st = VStats { objects: 0, conflicts: 0, counters: 0, text_units: 0 };
        for v in &views {
            vstats(v, &mut st);
        }
        rep.add("view_objects", st.objects as u64);
        rep.add("view_conflict_flags", st.conflicts as u64);
        rep.add("view_counters", st.counters as u64);
        rep.add("view_text_units", st.text_units as u64);
        let mut nested: Vec<(ObjId, ObjType)> = vec![];
        for v in &views {
            objects_of(v, &mut nested, true);
        }
        nested.sort_by(|a, b| a.0.cmp(&b.0));
        nested.dedup_by(|a, b| a.0 == b.0);
        rng.shuffle(&mut nested);
        nested.truncate(2);
        let mut jd = Judge { rep: &mut *rep, cases: vec![], model };
        let n = head_sets.len();
        let mut pairs = 0;
        for i in 0..n {
            for j in 0..n {
                if i == j {
                    continue;
                }
                let (h1, h2) = (&head_sets[i], &head_sets[j]);
                let replay = json!({"before": hexes(h1), "after": hexes(h2), "base": base_replay});
                let patches = match guard(|| all.diff(h1, h2)) {
                    Ok(p) => p,
                    Err(p) => {
                        jd.rep.fail(&["C08", "C37"], &format!("panic|diff|{}", p.signature()), &format!("diff panicked: {} at {}", p.message, p.location), replay);
                        continue;
                    }
                };
                pairs += 1;
                jd.rep.count("diff_pairs");
                // (b) mirror + model
                let ps: Vec<P> = patches.iter().map(|p| conv(p, enc)).collect();
                let nontrivial = !ps.is_empty();
                let ok = jd.judge(&["C08"], "diff", enc, &views[i], &ps, &views[j], false, replay.clone());
                // (a) the library's own applier on hydrate values (a rejection by the mirror is already reported)
                if ok && reads_ok[i] && reads_ok[j] {
                    let mut h = hyds[i].clone();
                    match guard(|| h.apply_patches(enc, patches.clone()).map(|_| h)) {
                        Ok(Ok(h)) => {
                            let (a, b) = (render_h(&h), render_h(&hyds[j]));
                            if a != b {
                                jd.rep.fail(&["C08"], "patch|diff|hydrate-state-differs", &format!("hydrate(H1) + diff(H1,H2) applied with hydrate::Value::apply_patches != hydrate(H2): got {} want {}", a, b),
                                    json!({"patches": patches.iter().map(|p| format!("{:?}", p)).collect::<Vec<_>>(), "replay": replay}));
                            }
                        }
                        Ok(Err(e)) => jd.rep.fail(&["C08"], "patch|diff|hydrate-apply-error", &format!("hydrate::Value::apply_patches rejected a patch of diff(H1,H2): {}", e),
                            json!({"patches": patches.iter().map(|p| format!("{:?}", p)).collect::<Vec<_>>(), "replay": replay})),
                        Err(p) => jd.rep.fail(&["C08", "C37"], &format!("panic|apply_patches|{}", p.signature()), &format!("hydrate::Value::apply_patches panicked on a diff: {}", p.message), replay.clone()),
                }
                }
                jd.rep.case(if nontrivial { Some(fnv(format!("{:?}{:?}{}", h1, h2, ui).as_bytes())) } else { None });
                // per-object diffs
                for (obj, ty) in &nested {
                    for recursive in [true, false] {
                        let r = guard(|| all.diff_obj(obj, h1, h2, recursive));
                        let patches = match r {
                            Ok(Ok(p)) => p,
                            Ok(Err(_)) => continue,
                            Err(p) => {
                                jd.rep.fail(&["C08", "C37"], &format!("panic|diff_obj|{}", p.signature()), &format!("diff_obj panicked: {}", p.message), replay.clone());
                                continue;
                            }
                        };
                        jd.rep.count("diff_obj_calls");
                        let mut vis = vec![];
                        objects_of(&views[j], &mut vis, true);
                        if !vis.iter().any(|(o, _)| o == obj) {
                            // not reachable in the after state: patches cannot be addressed and are absent
                            continue;
                        }
                        let sub1 = read_view(&all, obj, *ty, Some(h1), enc, 0);
                        let sub2 = read_view(&all, obj, *ty, Some(h2), enc, 0);
                        let mut rel: Vec<P> = vec![];
                        let mut foreign = false;
                        for p in &patches {
                            let mut q = conv(p, enc);
                            if q.obj == *obj {
                                q.path = vec![];
                            } else if let Some(k) = q.path.iter().position(|(o, _)| o == obj) {
                                q.path = q.path[k..].to_vec();
                            } else {
                                foreign = true;
                            }
                            if !recursive && q.obj != *obj {
                                // newly exposed children are materialized even by a non-recursive diff
                                jd.rep.count("diff_obj_flat_child_patches");
                            }
                            rel.push(q);
                        }
                        let rp = json!({"obj": obj.to_string(), "recursive": recursive, "pair": replay});
                        if foreign {
                            jd.rep.fail(&["C08"], "patch|diff_obj|foreign-patch", "diff_obj returned a patch for an object outside the requested one", rp.clone());
                            continue;
                        }
                        jd.rep.count("diff_obj_checked");
                        jd.judge(&["C08"], if recursive { "diff_obj" } else { "diff_obj_flat" }, enc, &sub1, &rel, &sub2, !recursive, rp);
                    }
                }
                if model && pairs >= 8 {
                    jd.model = false; // bound the number of model cases per universe
                }
            }
        }
        let cases = std::mem::take(&mut jd.cases);
        if model {
            push_cases(cw, cases);
        }
    }
}

// ------------------------------------------------------------------ C09
/// view and hydrate value kept ONLY through patches
struct Mat {
    enc: TextEncoding,
    v: V,
    h: hydrate::Value,
    h_ok: bool,
    skip_h_once: bool,
    v0: V,
    chain: Vec<(Vec<P>, V)>,
}
impl Mat {
    fn new(enc: TextEncoding) -> Self {
        let v = V::M(ROOT, vec![]);
        Mat { enc, v: v.clone(), h: hydrate::Value::map(), h_ok: true, skip_h_once: false, v0: v, chain: vec![] }
    }
    fn flush(&mut self, cw: &mut CaseWriter, model: bool, descr: &serde_json::Value) {
        if model && !self.chain.is_empty() {
            let steps: Vec<String> = self.chain.iter().map(|(ps, v)| format!("({},{})", coq_ps(ps), coq_view(v))).collect();
            push_cases(cw, vec![(format!("chk_chain {} {} {}", enc_name(self.enc), coq_view(&self.v0), coq_list(&steps)), descr.clone())]);
        }
        self.chain.clear();
        self.v0 = self.v.clone();
    }
    /// apply one batch; `want` is the document's state afterwards.  Returns false on a failure (and resyncs).
    fn step(&mut self, rep: &mut Report, cw: &mut CaseWriter, model: bool, what: &str, patches: &[Patch], want: &V, want_h: &hydrate::Value, log: &[String]) -> bool {
        let ps: Vec<P> = patches.iter().map(|p| conv(p, self.enc)).collect();
        for p in &ps {
            rep.count(&format!("patch_{}", kind_of(&p.act)));
        }
        rep.count(&format!("step_{}", what));
        rep.case(if ps.is_empty() { None } else { Some(fnv(format!("{:?}{}", ps, log.len()).as_bytes())) });
        let before = render_vid(&self.v);
        let replay = json!({"step": what, "enc": enc_name(self.enc), "before": before, "patches": ps.iter().map(|p| format!("{:?}", p)).collect::<Vec<_>>(), "log": log});
        let mut ok = true;
        match apply_all(self.enc, &mut self.v, &ps) {
            Ok(()) => {
                let (a, b) = (render_vid(&self.v), render_vid(want));
                if a != b {
                    let class = classify(&self.v, want, &ps);
                    rep.fail(&["C09"], &format!("patch|incremental|state-differs|{}|{}", class, what),
                        &format!("the view kept through patches differs from the document after {}: view {} doc {}", what, a, b), replay.clone());
                    ok = false;
                }
            }
            Err(e) => {
                rep.fail(&["C09"], &format!("patch|incremental|not-applicable|{}|{}", not_applicable_class(&e), what), &format!("a patch emitted by {} cannot be applied to the previous state: {}", what, e), replay.clone());
                ok = false;
            }
        }
        // the library's own applier
        if self.skip_h_once {
            self.skip_h_once = false;
            self.h = want_h.clone();
        } else if self.h_ok {
            let mut h = self.h.clone();
            match guard(|| h.apply_patches(self.enc, patches.to_vec()).map(|_| h)) {
                Ok(Ok(h)) => {
                    let (a, b) = (render_h(&h), render_h(want_h));
                    if a != b && ok {
                        rep.fail(&["C09"], &format!("patch|incremental|hydrate-state-differs|{}", what),
                            &format!("a hydrate::Value kept through apply_patches differs from doc.hydrate() after {}: {} vs {}", what, a, b), replay.clone());
                    }
                    self.h = h;
                }
                Ok(Err(e)) => {
                    if ok {
                        rep.fail(&["C09"], &format!("patch|incremental|hydrate-apply-error|{}", what), &format!("hydrate::Value::apply_patches rejected a patch emitted by {}: {}", what, e), replay.clone());
                    }
                }
                Err(p) => rep.fail(&["C09", "C37"], &format!("panic|apply_patches|{}", p.signature()), &format!("hydrate::Value::apply_patches panicked: {}", p.message), replay.clone()),
            }
            self.h = want_h.clone();
        }
        if ok {
            self.chain.push((ps, want.clone()));
            if self.chain.len() >= 6 {
                self.flush(cw, model, &json!({"kind": "chain", "props": ["C09"], "log": log}));
            }
        } else {
            // one failure must not cascade: close the chain before the failing batch, judge the failing batch on
            // its own in the model too, and continue from the document's state
            self.flush(cw, model, &json!({"kind": "chain", "props": ["C09"], "log": log}));
            if model {
                push_cases(cw, vec![(format!("negb (chk_chain {} {} {})", enc_name(self.enc), coq_view(&self.v0), coq_list(&[format!("({},{})", coq_ps(&ps), coq_view(want))])),
                    json!({"kind": format!("chain-step-rejected-{}", what), "props": ["C09"], "direct_ok": false, "log": log}))]);
            }
            self.v = want.clone();
            self.v0 = want.clone();
        }
        ok
    }
}

fn sync_autocommit(a: &mut AutoCommit, b: &mut AutoCommit) {
    let mut sa = automerge::sync::State::new();
    let mut sb = automerge::sync::State::new();
    for _ in 0..12 {
        let m1 = a.sync().generate_sync_message(&mut sa);
        let m2 = b.sync().generate_sync_message(&mut sb);
        if m1.is_none() && m2.is_none() {
            break;
        }
        if let Some(m) = m1 {
            let _ = b.sync().receive_sync_message(&mut sb, m);
        }
        if let Some(m) = m2 {
            let _ = a.sync().receive_sync_message(&mut sa, m);
        }
    }
}

/// AutoCommit + diff_incremental across local edits, commit, rollback, merge, apply_changes, load_incremental,
/// sync, isolate / integrate
fn chain_autocommit(rng: &mut Rng, thorough: bool, rep: &mut Report, cw: &mut CaseWriter, model: bool, ci: usize) {
    let enc = pick_enc(rng);
    let mut log: Vec<String> = vec![format!("autocommit chain {} enc {}", ci, enc_name(enc))];
    let mut doc = AutoCommit::new_with_encoding(enc).with_actor(gen::actor(rng, 0));
    let mut peer = doc.fork().with_actor(gen::actor(rng, 1));
    let mut mat = Mat::new(enc);
    let mut recorded: Vec<Vec<ChangeHash>> = vec![];
    let mut isolated = false;
    let nsteps = if thorough { rng.range(12, 40) } else { rng.range(8, 22) };
    // the diff cursor starts at the empty heads: the first diff_incremental materializes everything
    for si in 0..nsteps {
        let choice = rng.below(100);
        let what: &str;
        let r = guard(|| -> &'static str {
            match choice {
                0..=34 => {
                    for _ in 0..rng.range(1, 4) {
                        if let Some(d) = rand_edit(&mut doc, rng) {
                            log.push(format!("doc {}", d));
                        }
                    }
                    "local"
                }
                35..=42 => {
                    for _ in 0..rng.range(1, 3) {
                        if let Some(d) = rand_edit(&mut doc, rng) {
                            log.push(format!("doc {}", d));
                        }
                    }
                    doc.commit();
                    log.push("doc commit".into());
                    "commit"
                }
                43..=50 => {
                    doc.commit();
                    for _ in 0..rng.range(1, 3) {
                        if let Some(d) = rand_edit(&mut doc, rng) {
                            log.push(format!("doc (to be rolled back) {}", d));
                        }
                    }
                    let n = doc.rollback();
                    log.push(format!("doc rollback {}", n));
                    "rollback"
                }
                51..=62 => {
                    for _ in 0..rng.range(1, 4) {
                        if let Some(d) = rand_edit(&mut peer, rng) {
                            log.push(format!("peer {}", d));
                        }
                    }
                    peer.commit();
                    let _ = doc.merge(&mut peer);
                    log.push("doc merge peer".into());
                    "merge"
                }
                63..=70 => {
                    for _ in 0..rng.range(1, 4) {
                        if let Some(d) = rand_edit(&mut peer, rng) {
                            log.push(format!("peer {}", d));
                        }
                    }
                    peer.commit();
                    let cs = peer.get_changes(&[]);
                    let _ = doc.apply_changes(cs);
                    log.push("doc apply_changes(peer.get_changes([]))".into());
                    "apply_changes"
                }
                71..=77 => {
                    for _ in 0..rng.range(1, 4) {
                        if let Some(d) = rand_edit(&mut peer, rng) {
                            log.push(format!("peer {}", d));
                        }
                    }
                    let bytes = peer.save();
                    let _ = doc.load_incremental(&bytes);
                    log.push("doc load_incremental(peer.save())".into());
                    "load_incremental"
                }
                78..=84 => {
                    for _ in 0..rng.range(1, 4) {
                        if let Some(d) = rand_edit(&mut peer, rng) {
                            log.push(format!("peer {}", d));
                        }
                    }
                    peer.commit();
                    sync_autocommit(&mut doc, &mut peer);
                    log.push("doc <-sync-> peer".into());
                    "sync"
                }
                85..=89 => {
                    // the peer learns the document's changes, so that later edits are concurrent with fewer of them
                    let _ = peer.merge(&mut doc);
                    log.push("peer merge doc".into());
                    "peer_merge"
                }
                90..=95 if !recorded.is_empty() => {
                    let h = rng.pick(&recorded).clone();
                    doc.isolate(&h);
                    log.push(format!("doc isolate {:?}", hexes(&h)));
                    "isolate"
                }
                _ => {
                    doc.integrate();
                    log.push("doc integrate".into());
                    "integrate"
                }
            }
        });
        match r {
            Ok(w) => what = w,
            Err(p) => {
                let iso = log.iter().any(|l| l.contains("isolate") || l.contains("integrate"));
                let props: &[&str] = if iso { &["C29", "C37"] } else { &["C03", "C37"] };
                rep.fail(props, &format!("panic|autocommit-step|{}", p.signature()), &format!("a mutating call of an AutoCommit with an active patch log panicked: {} at {}", p.message, p.location), json!({"log": log, "step": si}));
                rep.count("chains_abandoned_panic");
                break;
            }
        }
        if what == "isolate" {
            isolated = true;
        }
        if what == "integrate" {
            isolated = false;
        }
        let res = guard(|| {
            let patches = doc.diff_incremental();
            let heads = doc.get_heads();
            let scope: Option<Vec<ChangeHash>> = if isolated { Some(heads.clone()) } else { None };
            let want = read_view(doc.document(), &ROOT, ObjType::Map, scope.as_deref(), enc, 0);
            let want_h = doc.document().hydrate(scope.as_deref());
            (patches, want, want_h, heads)
        });
        match res {
            Ok((patches, want, want_h, heads)) => {
                if render_v(enc, &want) != render_h(&want_h) {
                    // two reads of the same document disagree: not a matter of patches.  The range reads are taken
                    // as the document's state; the hydrate comparison is skipped for this step.
                    rep.fail(&["C02", "C29"], "patch|reads-disagree|hydrate-vs-range", "doc.hydrate() differs from the state read through map_range / list_range / text on the same document",
                        json!({"reads": render_v(enc, &want), "hydrate": render_h(&want_h), "isolated": isolated, "log": log}));
                    mat.skip_h_once = true;
                }
                mat.step(rep, cw, model, what, &patches, &want, &want_h, &log);
                if !heads.is_empty() && !recorded.contains(&heads) {
                    recorded.push(heads);
                }
            }
            Err(p) => {
                let iso = log.iter().any(|l| l.contains("isolate") || l.contains("integrate"));
                let props: &[&str] = if iso { &["C29", "C37"] } else { &["C09", "C37"] };
                rep.fail(props, &format!("panic|diff_incremental|{}", p.signature()), &format!("diff_incremental / reading the document panicked after {}: {} at {}", what, p.message, p.location), json!({"log": log, "step": si}));
                rep.count("chains_abandoned_panic");
                break;
            }
        }
    }
    mat.flush(cw, model, &json!({"kind": "chain", "props": ["C09"], "log": log}));
    rep.count("chains_autocommit");
}

/// Automerge + explicit PatchLog: transaction_log_patches (commit / rollback), apply_changes_log_patches,
/// merge_and_log_patches, load_incremental_log_patches, receive_sync_message_log_patches, load with a patch
/// log, current_state
fn chain_patchlog(rng: &mut Rng, thorough: bool, rep: &mut Report, cw: &mut CaseWriter, model: bool, ci: usize) {
    let enc = pick_enc(rng);
    let mut log: Vec<String> = vec![format!("patch-log chain {} enc {}", ci, enc_name(enc))];
    let mut doc = Automerge::new_with_encoding(enc).with_actor(gen::actor(rng, 0));
    let mut peer = doc.fork().with_actor(gen::actor(rng, 1));
    let mut mat = Mat::new(enc);
    let nsteps = if thorough { rng.range(10, 30) } else { rng.range(6, 16) };
    let peer_edits = |peer: &mut Automerge, rng: &mut Rng, log: &mut Vec<String>| {
        let mut tx = peer.transaction();
        for _ in 0..rng.range(1, 4) {
            if let Some(d) = rand_edit(&mut tx, rng) {
                log.push(format!("peer {}", d));
            }
        }
        tx.commit();
    };
    for si in 0..nsteps {
        let choice = rng.below(100);
        let r = guard(|| -> (&'static str, Vec<Patch>) {
            match choice {
                0..=34 => {
                    let mut tx = doc.transaction_log_patches(PatchLog::active()).expect("fresh patch log");
                    for _ in 0..rng.range(1, 4) {
                        if let Some(d) = rand_edit(&mut tx, rng) {
                            log.push(format!("doc {}", d));
                        }
                    }
                    let (_, mut pl) = tx.commit();
                    ("transaction", doc.make_patches(&mut pl))
                }
                35..=42 => {
                    let mut tx = doc.transaction_log_patches(PatchLog::active()).expect("fresh patch log");
                    for _ in 0..rng.range(1, 3) {
                        if let Some(d) = rand_edit(&mut tx, rng) {
                            log.push(format!("doc (to be rolled back) {}", d));
                        }
                    }
                    tx.rollback();
                    log.push("doc rollback".into());
                    ("tx_rollback", vec![])
                }
                43..=56 => {
                    peer_edits(&mut peer, rng, &mut log);
                    let cs = peer.get_changes(&[]);
                    let mut pl = PatchLog::active();
                    let _ = doc.apply_changes_log_patches(cs, &mut pl);
                    log.push("doc apply_changes_log_patches(peer.get_changes([]))".into());
                    ("apply_changes_log_patches", doc.make_patches(&mut pl))
                }
                57..=68 => {
                    peer_edits(&mut peer, rng, &mut log);
                    let mut pl = PatchLog::active();
                    let _ = doc.merge_and_log_patches(&mut peer, &mut pl);
                    log.push("doc merge_and_log_patches(peer)".into());
                    ("merge_and_log_patches", doc.make_patches(&mut pl))
                }
                69..=78 => {
                    peer_edits(&mut peer, rng, &mut log);
                    let bytes = peer.save();
                    let mut pl = PatchLog::active();
                    let _ = doc.load_incremental_log_patches(&bytes, &mut pl);
                    log.push("doc load_incremental_log_patches(peer.save())".into());
                    ("load_incremental_log_patches", doc.make_patches(&mut pl))
                }
                79..=90 => {
                    peer_edits(&mut peer, rng, &mut log);
                    let mut sa = automerge::sync::State::new();
                    let mut sb = automerge::sync::State::new();
                    let mut pl = PatchLog::active();
                    for _ in 0..12 {
                        let m1 = doc.generate_sync_message(&mut sa);
                        let m2 = peer.generate_sync_message(&mut sb);
                        if m1.is_none() && m2.is_none() {
                            break;
                        }
                        if let Some(m) = m1 {
                            let _ = peer.receive_sync_message(&mut sb, m);
                        }
                        if let Some(m) = m2 {
                            let _ = doc.receive_sync_message_log_patches(&mut sa, m, &mut pl);
                        }
                    }
                    log.push("doc <-sync-> peer (receive_sync_message_log_patches)".into());
                    ("receive_sync_message_log_patches", doc.make_patches(&mut pl))
                }
                _ => {
                    let _ = peer.merge(&mut doc);
                    log.push("peer merge doc".into());
                    ("peer_merge", vec![])
                }
            }
        });
        let (what, patches) = match r {
            Ok(x) => x,
            Err(p) => {
                rep.fail(&["C09", "C37"], &format!("panic|patchlog-step|{}", p.signature()), &format!("a mutating call with a PatchLog panicked: {} at {}", p.message, p.location), json!({"log": log, "step": si}));
                rep.count("chains_abandoned_panic");
                break;
            }
        };
        let res = guard(|| (read_view(&doc, &ROOT, ObjType::Map, None, enc, 0), doc.hydrate(None)));
        match res {
            Ok((want, want_h)) => {
                mat.step(rep, cw, model, what, &patches, &want, &want_h, &log);
            }
            Err(p) => {
                rep.fail(&["C09", "C37"], &format!("panic|read|{}", p.signature()), &format!("reading the document panicked: {}", p.message), json!({"log": log}));
                break;
            }
        }
    }
    mat.flush(cw, model, &json!({"kind": "chain", "props": ["C09"], "log": log}));
    // from nothing: current_state() and load with a patch log rebuild the whole state
    let fin = guard(|| {
        let want = read_view(&doc, &ROOT, ObjType::Map, None, enc, 0);
        let want_h = doc.hydrate(None);
        let cur = doc.current_state();
        let bytes = doc.save();
        let mut pl = PatchLog::active();
        let loaded = Automerge::load_with_options(&bytes, LoadOptions::new().text_encoding(enc).patch_log(&mut pl));
        let lp = loaded.map(|d| {
            let ps = d.make_patches(&mut pl);
            (ps, read_view(&d, &ROOT, ObjType::Map, None, enc, 0), d.hydrate(None))
        });
        (want, want_h, cur, lp)
    });
    match fin {
        Ok((want, want_h, cur, lp)) => {
            let mut m0 = Mat::new(enc);
            m0.step(rep, cw, model, "current_state", &cur, &want, &want_h, &log);
            m0.flush(cw, model, &json!({"kind": "chain-current_state", "props": ["C09"], "log": log}));
            match lp {
                Ok((ps, lv, lh)) => {
                    let mut m1 = Mat::new(enc);
                    m1.step(rep, cw, model, "load_with_patch_log", &ps, &lv, &lh, &log);
                    m1.flush(cw, model, &json!({"kind": "chain-load", "props": ["C09"], "log": log}));
                }
                Err(e) => rep.fail(&["C11", "C09"], "patch|load-failed", &format!("load_with_options(save()) with a patch log failed: {}", e), json!({"log": log})),
            }
        }
        Err(p) => rep.fail(&["C09", "C37"], &format!("panic|current_state|{}", p.signature()), &format!("current_state / load with a patch log panicked: {} at {}", p.message, p.location), json!({"log": log})),
    }
    rep.count("chains_patchlog");
}


// ------------------------------------------------------------------ scripted scenarios (run first on every check)
fn actor_of(b: &[u8]) -> automerge::ActorId {
    automerge::ActorId::from(b.to_vec())
}

fn scripted_diff(rep: &mut Report, cw: &mut CaseWriter, name: &str, doc: &Automerge, h1: &[ChangeHash], h2: &[ChangeHash], enc: TextEncoding) {
    let r = guard(|| {
        let v1 = read_view(doc, &ROOT, ObjType::Map, Some(h1), enc, 0);
        let v2 = read_view(doc, &ROOT, ObjType::Map, Some(h2), enc, 0);
        (v1, v2, doc.diff(h1, h2))
    });
    match r {
        Ok((v1, v2, patches)) => {
            let ps: Vec<P> = patches.iter().map(|p| conv(p, enc)).collect();
            let mut jd = Judge { rep: &mut *rep, cases: vec![], model: true };
            jd.judge(&["C08"], "diff", enc, &v1, &ps, &v2, false, json!({"scripted": name}));
            jd.rep.case(Some(fnv(name.as_bytes())));
            let cases = std::mem::take(&mut jd.cases);
            push_cases(cw, cases);
        }
        Err(p) => rep.fail(&["C08", "C37"], &format!("panic|diff|{}", p.signature()), &format!("scripted scenario {} panicked: {}", name, p.message), json!({"scripted": name})),
    }
    rep.count("scripted_scenarios");
}

fn scripted(rep: &mut Report, cw: &mut CaseWriter) {
    let enc = TextEncoding::UnicodeCodePoint;
    // S1 (diff): a counter is incremented between H1 and H2 and also gains a concurrent value that loses against it:
    // the register is conflicted at H2, diff emits only Increment
    {
        let mut a = AutoCommit::new_with_encoding(enc).with_actor(actor_of(&[0xAA]));
        let mut b = a.fork().with_actor(actor_of(&[0xBB]));
        b.put(ROOT, "c", ScalarValue::Null).unwrap(); // 1@bb
        b.commit();
        a.put(ROOT, "x", 1).unwrap(); // 1@aa
        a.put(ROOT, "c", ScalarValue::counter(3)).unwrap(); // 2@aa: greater than 1@bb, the counter wins
        a.commit();
        let h1 = a.get_heads();
        a.increment(ROOT, "c", 1).unwrap();
        a.commit();
        a.merge(&mut b).unwrap();
        let h2 = a.get_heads();
        scripted_diff(rep, cw, "S1: put c=Null by bb || (put c=counter 3 by aa = H1; inc c 1); diff(H1, merged)", a.document(), &h1, &h2, enc);
        scripted_diff(rep, cw, "S1r: the same pair, backwards", a.document(), &h2, &h1, enc);
    }
    // S2 (diff): a list element whose ops are, in id order, [new visible value, value deleted since H1, new winner]
    {
        let mut a = AutoCommit::new_with_encoding(enc).with_actor(actor_of(&[0xAA]));
        let l = a.put_object(ROOT, "l", ObjType::List).unwrap(); // 1@aa
        a.insert(&l, 0, "v0").unwrap(); // 2@aa
        a.commit();
        let mut b = a.fork().with_actor(actor_of(&[0x11]));
        a.put(&l, 0, ScalarValue::Null).unwrap(); // 3@aa
        a.commit();
        let h1 = a.get_heads();
        b.put(&l, 0, 3).unwrap(); // 3@11 < 3@aa
        b.commit();
        a.put(&l, 0, "new").unwrap(); // 4@aa, overwrites 3@aa
        a.commit();
        a.merge(&mut b).unwrap();
        let h2 = a.get_heads();
        scripted_diff(rep, cw, "S2: list [v0]; aa: put 0 Null = H1; 11: put 0 3 (concurrent, smaller id); aa: put 0 \"new\"; diff(H1, merged)", a.document(), &h1, &h2, enc);
        scripted_diff(rep, cw, "S2r: the same pair, backwards", a.document(), &h2, &h1, enc);
    }
    // S3 / S4 (incremental): a remote increment that supersedes the other values of a conflicted register
    for (name, peer_value_is_object) in [("S3: conflict [bytes, counter(winner)]; the peer, knowing both, increments", false), ("S4: conflict [counter, map(winner)]; the peer, knowing both, increments", true)] {
        let r = guard(|| {
            let mut log = vec![name.to_string()];
            let mut doc = Automerge::new_with_encoding(enc).with_actor(actor_of(&[0xE0]));
            let mut peer = doc.fork().with_actor(actor_of(&[0xD0]));
            let mut mat = Mat::new(enc);
            let mut steps: Vec<(&'static str, Vec<Patch>)> = vec![];
            {
                let mut tx = doc.transaction_log_patches(PatchLog::active()).unwrap();
                if peer_value_is_object {
                    tx.put_object(ROOT, "r", ObjType::Map).unwrap();
                } else {
                    tx.put(ROOT, "r", ScalarValue::counter(4)).unwrap();
                }
                let (_, mut pl) = tx.commit();
                steps.push(("transaction", doc.make_patches(&mut pl)));
            }
            let v_a = (read_view(&doc, &ROOT, ObjType::Map, None, enc, 0), doc.hydrate(None));
            {
                let mut tx = peer.transaction();
                if peer_value_is_object {
                    tx.put(ROOT, "r", ScalarValue::counter(4)).unwrap();
                } else {
                    tx.put(ROOT, "r", ScalarValue::Bytes(vec![])).unwrap();
                }
                tx.commit();
            }
            let mut pl = PatchLog::active();
            doc.merge_and_log_patches(&mut peer, &mut pl).unwrap();
            steps.push(("merge_and_log_patches", doc.make_patches(&mut pl)));
            let v_b = (read_view(&doc, &ROOT, ObjType::Map, None, enc, 0), doc.hydrate(None));
            peer.merge(&mut doc).unwrap();
            {
                let mut tx = peer.transaction();
                tx.increment(ROOT, "r", 1).unwrap();
                tx.commit();
            }
            let mut pl = PatchLog::active();
            doc.merge_and_log_patches(&mut peer, &mut pl).unwrap();
            steps.push(("merge_and_log_patches", doc.make_patches(&mut pl)));
            let v_c = (read_view(&doc, &ROOT, ObjType::Map, None, enc, 0), doc.hydrate(None));
            log.push("doc e0: put r; peer d0: put r (concurrent); doc merges peer; peer merges doc, increments r by 1; doc merges peer".into());
            (mat_steps(&mut mat, steps, vec![v_a, v_b, v_c]), log, mat)
        });
        match r {
            Ok((todo, log, mut mat)) => {
                for (what, patches, want, want_h) in todo {
                    mat.step(rep, cw, true, what, &patches, &want, &want_h, &log);
                }
                mat.flush(cw, true, &json!({"kind": "chain", "props": ["C09"], "log": log}));
            }
            Err(p) => rep.fail(&["C09", "C37"], &format!("panic|scripted|{}", p.signature()), &format!("scripted scenario {} panicked: {}", name, p.message), json!({"scripted": name})),
        }
        rep.count("scripted_scenarios");
    }
}

fn ac_step(rep: &mut Report, cw: &mut CaseWriter, mat: &mut Mat, doc: &mut AutoCommit, what: &str, log: &[String]) {
    let enc = mat.enc;
    let r = guard(|| {
        let patches = doc.diff_incremental();
        let want = read_view(doc.document(), &ROOT, ObjType::Map, None, enc, 0);
        let want_h = doc.document().hydrate(None);
        (patches, want, want_h)
    });
    match r {
        Ok((patches, want, want_h)) => {
            mat.step(rep, cw, true, what, &patches, &want, &want_h, log);
        }
        Err(p) => rep.fail(&["C09", "C37"], &format!("panic|scripted|{}", p.signature()), &format!("scripted scenario panicked: {}", p.message), json!({"log": log})),
    }
}

/// scripted scenarios S5..S9 (AutoCommit + diff_incremental)
fn scripted_autocommit(rep: &mut Report, cw: &mut CaseWriter) {
    let enc = TextEncoding::UnicodeCodePoint;
    let mk = || {
        let doc = AutoCommit::new_with_encoding(enc).with_actor(actor_of(&[0xE0]));
        let peer = AutoCommit::new_with_encoding(enc).with_actor(actor_of(&[0xD0]));
        (doc, peer, Mat::new(enc))
    };
    // S5: local increment of a register holding two conflicting counters
    {
        let (mut doc, mut peer, mut mat) = mk();
        let log = vec!["S5: doc e0: put c=counter(3); peer d0: put c=counter(1); doc merges peer; doc: increment c by 1".to_string()];
        let _ = guard(|| {
            doc.put(ROOT, "c", ScalarValue::counter(3)).unwrap();
            doc.commit();
            peer.put(ROOT, "c", ScalarValue::counter(1)).unwrap();
            peer.commit();
            doc.merge(&mut peer).unwrap();
        });
        ac_step(rep, cw, &mut mat, &mut doc, "merge", &log);
        let _ = guard(|| doc.increment(ROOT, "c", 1).unwrap());
        ac_step(rep, cw, &mut mat, &mut doc, "local", &log);
        mat.flush(cw, true, &json!({"kind": "chain", "props": ["C09"], "log": log}));
        rep.count("scripted_scenarios");
    }
    // S6: local put of the value the winner already has, on a conflicted register
    {
        let (mut doc, mut peer, mut mat) = mk();
        let log = vec!["S6: doc e0: put c=5; peer d0: put c=7; doc merges peer (winner 5, conflicted); doc: put c=5".to_string()];
        let _ = guard(|| {
            doc.put(ROOT, "c", 5).unwrap();
            doc.commit();
            peer.put(ROOT, "c", 7).unwrap();
            peer.commit();
            doc.merge(&mut peer).unwrap();
        });
        ac_step(rep, cw, &mut mat, &mut doc, "merge", &log);
        let _ = guard(|| doc.put(ROOT, "c", 5).unwrap());
        ac_step(rep, cw, &mut mat, &mut doc, "local", &log);
        mat.flush(cw, true, &json!({"kind": "chain", "props": ["C09"], "log": log}));
        rep.count("scripted_scenarios");
    }
    // S8: one received change increments list element 0 and inserts an element after it
    {
        let (mut doc, mut peer, mut mat) = mk();
        let log = vec!["S8: doc: l=[counter 2]; peer merges doc, increments l[0] by 2 and inserts Null at 1 in one change; doc merges peer".to_string()];
        let mut l = ROOT;
        let _ = guard(|| {
            l = doc.put_object(ROOT, "l", ObjType::List).unwrap();
            doc.insert(&l, 0, ScalarValue::counter(2)).unwrap();
            doc.commit();
        });
        ac_step(rep, cw, &mut mat, &mut doc, "commit", &log);
        let _ = guard(|| {
            peer.merge(&mut doc).unwrap();
            peer.increment(&l, 0, 2).unwrap();
            peer.insert(&l, 1, ScalarValue::Null).unwrap();
            peer.commit();
            doc.merge(&mut peer).unwrap();
        });
        ac_step(rep, cw, &mut mat, &mut doc, "merge", &log);
        mat.flush(cw, true, &json!({"kind": "chain", "props": ["C09"], "log": log}));
        rep.count("scripted_scenarios");
    }
    // S9: a counter with increments is exposed by the deletion of the value that won against it
    {
        let mut doc = AutoCommit::new_with_encoding(enc).with_actor(actor_of(&[0xD0]));
        let mut peer = AutoCommit::new_with_encoding(enc).with_actor(actor_of(&[0xE0]));
        let mut mat = Mat::new(enc);
        let log = vec!["S9: doc d0: put k=counter(1); increment k by 2; peer e0 (concurrent): put x, put y, put k=Null (greater id: wins); doc merges peer; peer: delete k; doc merges peer".to_string()];
        let _ = guard(|| {
            doc.put(ROOT, "k", ScalarValue::counter(1)).unwrap();
            doc.increment(ROOT, "k", 2).unwrap();
            doc.commit();
            peer.put(ROOT, "x", 0).unwrap();
            peer.put(ROOT, "y", 0).unwrap();
            peer.put(ROOT, "k", ScalarValue::Null).unwrap();
            peer.commit();
            doc.merge(&mut peer).unwrap();
        });
        ac_step(rep, cw, &mut mat, &mut doc, "merge", &log);
        let _ = guard(|| {
            peer.delete(ROOT, "k").unwrap();
            peer.commit();
            doc.merge(&mut peer).unwrap();
        });
        ac_step(rep, cw, &mut mat, &mut doc, "merge", &log);
        mat.flush(cw, true, &json!({"kind": "chain", "props": ["C09"], "log": log}));
        rep.count("scripted_scenarios");
    }
}

fn mat_steps(_m: &mut Mat, steps: Vec<(&'static str, Vec<Patch>)>, views: Vec<(V, hydrate::Value)>) -> Vec<(&'static str, Vec<Patch>, V, hydrate::Value)> {
    steps.into_iter().zip(views).map(|((w, p), (v, h))| (w, p, v, h)).collect()
}

pub fn run(rng: &mut Rng, tier: &str, out: &str) -> Report {
    let mut rep = Report::new("patch");
    let mut cw = CaseWriter::new(out, "patch", HEADER, if tier == "thorough" { 60 } else { 24 });
    let thorough = tier == "thorough";
    scripted(&mut rep, &mut cw);
    scripted_autocommit(&mut rep, &mut cw);
    let mut r8 = rng.fork();
    run_c08(&mut r8, thorough, &mut rep, &mut cw);
    let n_chains = if thorough { 1200 } else { 200 };
    let n_model = if thorough { 140 } else { 26 };
    let mut r9 = rng.fork();
    for ci in 0..n_chains {
        let model = ci < n_model;
        if ci % 2 == 0 {
            chain_autocommit(&mut r9, thorough, &mut rep, &mut cw, model, ci);
        } else {
            chain_patchlog(&mut r9, thorough, &mut rep, &mut cw, model, ci);
        }
    }
    rep.model_cases = cw.total as u64;
    cw.finish();
    rep
}
