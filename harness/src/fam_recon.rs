// Family "recon": string migration on load (C40), reconciliation and bulk construction (C27),
// serde export (C32), CLI JSON import / export (C33).  One family, four sub-streams; every failure and
// every model case is tagged with the property it belongs to.
//
// mig  (C40): documents with strings in maps, lists, nested and deleted objects, conflicted registers
//             (string / string, string / int, string / object, string / counter), deleted strings, text objects;
//             saved, loaded plainly and loaded with StringMigration::ConvertToText.  Direct: the property
//             itself, register by register.  Model: chk_migrate (Crdt/Migrate.v) — the ops of the added
//             change and the observation after it.
use crate::gen;
use crate::model::{coq_actor, coq_objid, coq_objtype, coq_op, coq_scalar, coq_str, object_ids};
use crate::util::*;
use automerge::transaction::Transactable;
use automerge::{
    ActorId, AutoCommit, Automerge, Change, LoadOptions, ObjId, ObjType, ReadDoc, ScalarValue, StringMigration, TextEncoding, Value, ROOT,
};
use serde_json::json;
use unicode_segmentation::UnicodeSegmentation;

const HEADER: &str = "From AM Require Import Base.Prelude Base.Order Crdt.Types Crdt.Interp Crdt.Local Crdt.Migrate Crdt.Update Crdt.Render Exec.EditExec Exec.ReconExec.\nLocal Open Scope N_scope.\n";

// ------------------------------------------------------------------ shared helpers
pub fn enc_width(enc: TextEncoding, s: &str) -> usize {
    match enc {
        TextEncoding::UnicodeCodePoint => s.chars().count(),
        TextEncoding::Utf8CodeUnit => s.len(),
        TextEncoding::Utf16CodeUnit => s.encode_utf16().count(),
        TextEncoding::GraphemeCluster => s.graphemes(true).count(),
    }
}

fn enc_name(e: TextEncoding) -> &'static str {
    match e {
        TextEncoding::UnicodeCodePoint => "codepoint",
        TextEncoding::Utf8CodeUnit => "utf8",
        TextEncoding::Utf16CodeUnit => "utf16",
        TextEncoding::GraphemeCluster => "grapheme",
    }
}

fn coq_enc(enc: TextEncoding) -> &'static str {
    match enc {
        TextEncoding::UnicodeCodePoint => "EncCP",
        TextEncoding::Utf8CodeUnit => "EncU8",
        TextEncoding::Utf16CodeUnit => "EncU16",
        TextEncoding::GraphemeCluster => "EncCP",
    }
}

fn exid_key(id: &ObjId) -> (u64, Vec<u8>) {
    match id {
        ObjId::Root => (0, vec![]),
        ObjId::Id(c, a, _) => (*c, a.to_bytes().to_vec()),
    }
}

fn coq_vobs(v: &Value<'_>) -> String {
    match v {
        Value::Object(t) => format!("(VO {})", coq_objtype(*t)),
        Value::Scalar(s) => match s.as_ref() {
            ScalarValue::Counter(c) => format!("(VC {})", coq_z(i64::from(c) as i128)),
            other => format!("(VS {})", coq_scalar(other)),
        },
    }
}

fn coq_register(vals: &[(Value<'_>, ObjId)]) -> String {
    let mut vals: Vec<&(Value<'_>, ObjId)> = vals.iter().collect();
    vals.sort_by(|a, b| exid_key(&a.1).cmp(&exid_key(&b.1)));
    let items: Vec<String> = vals.iter().map(|(v, id)| format!("({},{})", coq_objid(id), coq_vobs(v))).collect();
    coq_list(&items)
}

/// width of a text element whose register is `vals` (the value with the greatest id wins)
fn reg_width(enc: TextEncoding, vals: &[(Value<'_>, ObjId)]) -> usize {
    let w = vals.iter().max_by_key(|x| exid_key(&x.1));
    match w {
        Some((Value::Scalar(s), _)) => match s.as_ref() {
            ScalarValue::Str(s) => enc_width(enc, s),
            _ => enc_width(enc, "\u{fffc}"),
        },
        Some(_) => enc_width(enc, "\u{fffc}"),
        None => 0,
    }
}

/// the registers of one object: (key or element number, values ascending by id); sequences are walked
/// element by element (an element of a text spans `width` index units)
#[derive(Clone, Debug, PartialEq)]
enum RKey {
    K(String),
    I(usize), // index passed to get_all
}
type Reg = Vec<(String, ObjId)>; // (rendered value, id) ascending by id

fn render_value(v: &Value<'_>) -> String {
    match v {
        Value::Object(t) => format!("obj:{:?}", t),
        Value::Scalar(s) => match s.as_ref() {
            ScalarValue::F64(f) => format!("f64:{}", f.to_bits()),
            other => format!("{:?}", other),
        },
    }
}

struct ObjRegs {
    ty: ObjType,
    regs: Vec<(RKey, Vec<(Value<'static>, ObjId)>)>,
}

fn read_obj<D: ReadDoc>(doc: &D, id: &ObjId, enc: TextEncoding) -> Result<Option<ObjRegs>, String> {
    let ty = match doc.object_type(id) {
        Ok(t) => t,
        Err(_) => return Ok(None),
    };
    let mut regs = vec![];
    if ty.is_sequence() {
        let len = doc.length(id);
        let mut i = 0usize;
        while i < len {
            let vals = doc.get_all(id, i).map_err(|e| format!("get_all({:?},{}) failed: {}", id, i, e))?;
            if vals.is_empty() {
                return Err(format!("get_all({:?},{}) is empty below length {}", id, i, len));
            }
            let w = if ty == ObjType::Text { reg_width(enc, &vals) } else { 1 };
            if w == 0 {
                return Err(format!("get_all({:?},{}) returned a zero-width element", id, i));
            }
            let mut vals: Vec<(Value<'static>, ObjId)> = vals.into_iter().map(|(v, i)| (v.into_owned(), i)).collect();
            vals.sort_by(|a, b| exid_key(&a.1).cmp(&exid_key(&b.1)));
            regs.push((RKey::I(i), vals));
            i += w;
        }
        if i != len {
            return Err(format!("walking {:?} by element widths ends at {} but length is {}", id, i, len));
        }
    } else {
        let keys: Vec<String> = doc.keys(id).collect();
        for k in keys {
            let vals = doc.get_all(id, k.as_str()).map_err(|e| format!("get_all({:?},{:?}) failed: {}", id, k, e))?;
            let mut vals: Vec<(Value<'static>, ObjId)> = vals.into_iter().map(|(v, i)| (v.into_owned(), i)).collect();
            vals.sort_by(|a, b| exid_key(&a.1).cmp(&exid_key(&b.1)));
            regs.push((RKey::K(k), vals));
        }
    }
    Ok(Some(ObjRegs { ty, regs }))
}

fn coq_obj(id: &ObjId, o: &ObjRegs) -> String {
    let entries = if o.ty.is_sequence() {
        format!("(EL {})", coq_list(&o.regs.iter().map(|(_, v)| coq_register(v)).collect::<Vec<_>>()))
    } else {
        format!(
            "(EM {})",
            coq_list(
                &o.regs
                    .iter()
                    .map(|(k, v)| match k {
                        RKey::K(k) => format!("({},{})", coq_str(k), coq_register(v)),
                        RKey::I(_) => unreachable!(),
                    })
                    .collect::<Vec<_>>()
            )
        )
    };
    format!("(mkO {} {} {})", coq_objid(id), coq_objtype(o.ty), entries)
}

fn read_all<D: ReadDoc>(doc: &D, cands: &[(ObjId, ObjType)], enc: TextEncoding) -> Result<Vec<(ObjId, ObjRegs)>, String> {
    let mut out = vec![];
    for (id, _) in cands {
        if let Some(o) = read_obj(doc, id, enc)? {
            out.push((id.clone(), o));
        }
    }
    Ok(out)
}

fn coq_obs(o: &[(ObjId, ObjRegs)]) -> String {
    coq_list(&o.iter().map(|(id, r)| coq_obj(id, r)).collect::<Vec<_>>())
}

fn coq_change_small(c: &Change, idx: usize) -> String {
    let e = c.decode();
    format!("(mkChange {} {} {} {} [] {})", idx + 1, coq_actor(&e.actor_id), e.seq, e.start_op.get(), coq_ops_of(c))
}

fn coq_ops_of(c: &Change) -> String {
    let e = c.decode();
    let start = e.start_op.get();
    let ops: Vec<String> = e.operations.iter().enumerate().map(|(i, op)| coq_op(op, start + i as u64, &e.actor_id)).collect();
    coq_list(&ops)
}

fn is_str(v: &Value<'_>) -> Option<String> {
    match v {
        Value::Scalar(s) => match s.as_ref() {
            ScalarValue::Str(s) => Some(s.to_string()),
            _ => None,
        },
        _ => None,
    }
}

/// several documents per Coq shard (loading the libraries costs more than evaluating a case)
struct Group {
    defs: Vec<String>,
    cases: Vec<(String, serde_json::Value)>,
    docs: usize,
    limit: usize,
}
impl Group {
    fn new(limit: usize) -> Self {
        Group { defs: vec![], cases: vec![], docs: 0, limit }
    }
    fn add(&mut self, cw: &mut CaseWriter, defs: Vec<String>, cases: Vec<(String, serde_json::Value)>) {
        self.defs.extend(defs);
        self.cases.extend(cases);
        self.docs += 1;
        if self.docs >= self.limit {
            self.flush(cw);
        }
    }
    fn flush(&mut self, cw: &mut CaseWriter) {
        if !self.cases.is_empty() {
            cw.push_group(&self.defs, std::mem::take(&mut self.cases));
        }
        self.defs.clear();
        self.cases.clear();
        self.docs = 0;
    }
}

// ------------------------------------------------------------------ C40: string migration
const MKEYS: [&str; 5] = ["a", "b", "s", "\u{e9}", "k1"];

fn mig_scalar(rng: &mut Rng) -> ScalarValue {
    match rng.below(10) {
        0..=5 => ScalarValue::Str(rng.pick(&gen::STRS).to_string().into()),
        6 => ScalarValue::Int(rng.below(9) as i64),
        7 => ScalarValue::counter(rng.below(9) as i64),
        _ => gen::scalar(rng),
    }
}

/// one edit of the string-heavy profile
fn mig_edit(doc: &mut AutoCommit, rng: &mut Rng, log: &mut Vec<String>) {
    let objs = gen::reachable(doc);
    let (obj, ty) = rng.pick(&objs).clone();
    match ty {
        ObjType::Map | ObjType::Table => {
            let key = rng.pick(&MKEYS).to_string();
            match rng.below(12) {
                0 => {
                    let _ = doc.delete(&obj, key.as_str());
                    log.push(format!("del {} {}", obj, key));
                }
                1 | 2 => {
                    let t = gen::objtype(rng);
                    let _ = doc.put_object(&obj, key.as_str(), t);
                    log.push(format!("put_object {} {} {:?}", obj, key, t));
                }
                3 => {
                    if doc.increment(&obj, key.as_str(), 2).is_ok() {
                        log.push(format!("inc {} {}", obj, key));
                    }
                }
                _ => {
                    let v = mig_scalar(rng);
                    let _ = doc.put(&obj, key.as_str(), v.clone());
                    log.push(format!("put {} {} {:?}", obj, key, v));
                }
            }
        }
        ObjType::List => {
            let len = doc.length(&obj);
            match rng.below(12) {
                0 | 1 if len > 0 => {
                    let i = rng.below(len as u64) as usize;
                    let _ = doc.delete(&obj, i);
                    log.push(format!("ldel {} {}", obj, i));
                }
                2 | 3 | 4 if len > 0 => {
                    let i = if rng.chance(1, 2) { 0 } else { rng.below(len as u64) as usize };
                    let v = mig_scalar(rng);
                    let _ = doc.put(&obj, i, v.clone());
                    log.push(format!("lput {} {} {:?}", obj, i, v));
                }
                5 => {
                    let i = rng.below(len as u64 + 1) as usize;
                    let t = gen::objtype(rng);
                    let _ = doc.insert_object(&obj, i, t);
                    log.push(format!("linsobj {} {} {:?}", obj, i, t));
                }
                6 if len > 0 => {
                    let i = rng.below(len as u64) as usize;
                    let t = gen::objtype(rng);
                    let _ = doc.put_object(&obj, i, t);
                    log.push(format!("lputobj {} {} {:?}", obj, i, t));
                }
                _ => {
                    let i = rng.below(len as u64 + 1) as usize;
                    let v = mig_scalar(rng);
                    let _ = doc.insert(&obj, i, v.clone());
                    log.push(format!("lins {} {} {:?}", obj, i, v));
                }
            }
        }
        ObjType::Text => {
            let len = doc.length(&obj);
            let pos = rng.below(len as u64 + 1) as usize;
            let s = *rng.pick(&gen::STRS);
            let _ = doc.splice_text(&obj, pos, 0, s);
            log.push(format!("tsplice {} {} {:?}", obj, pos, s));
        }
    }
}

struct MigDoc {
    bytes: Vec<u8>,
    log: Vec<String>,
    replicas: usize,
}

fn mig_document(rng: &mut Rng, enc: TextEncoding, thorough: bool, no_strings: bool) -> MigDoc {
    let nrep = rng.range(1, 3) as usize;
    let mut log = vec![format!("encoding {} replicas {}", enc_name(enc), nrep)];
    let mut reps: Vec<AutoCommit> = vec![];
    let mut base = AutoCommit::new_with_encoding(enc).with_actor(gen::actor(rng, 0));
    if no_strings {
        // a document without any string scalar: numbers, objects, text
        let l = base.put_object(ROOT, "l", ObjType::List).unwrap();
        for k in 0..rng.range(0, 3) {
            base.insert(&l, k as usize, ScalarValue::Int(k as i64)).unwrap();
        }
        let t = base.put_object(ROOT, "t", ObjType::Text).unwrap();
        base.splice_text(&t, 0, 0, *rng.pick(&gen::STRS)).unwrap();
        base.put(ROOT, "n", ScalarValue::counter(3)).unwrap();
        base.commit();
        log.push("no-strings document".into());
        return MigDoc { bytes: base.save(), log, replicas: 1 };
    }
    let l = base.put_object(ROOT, "l", ObjType::List).unwrap();
    for k in 0..rng.range(1, 3) {
        base.insert(&l, k as usize, mig_scalar(rng)).unwrap();
    }
    base.put(ROOT, "a", mig_scalar(rng)).unwrap();
    let m = base.put_object(ROOT, "m", ObjType::Map).unwrap();
    base.put(&m, "s", mig_scalar(rng)).unwrap();
    if rng.chance(1, 2) {
        let t = base.put_object(ROOT, "t", ObjType::Text).unwrap();
        base.splice_text(&t, 0, 0, *rng.pick(&gen::STRS)).unwrap();
    }
    base.commit();
    log.push("setup: l, a, m.s (t)".into());
    reps.push(base);
    for i in 1..nrep {
        let f = reps[0].fork().with_actor(gen::actor(rng, i));
        reps.push(f);
    }
    let rounds = if thorough { rng.range(2, 5) } else { rng.range(1, 3) } as usize;
    for _ in 0..rounds {
        for r in 0..nrep {
            let n = rng.range(1, if thorough { 7 } else { 5 }) as usize;
            for _ in 0..n {
                log.push(format!("r{}:", r));
                mig_edit(&mut reps[r], rng, &mut log);
            }
            reps[r].commit();
        }
        // merge everybody into everybody (the conflicts are now visible to later edits)
        if rng.chance(2, 3) {
            for a in 0..nrep {
                for b in 0..nrep {
                    if a != b {
                        let mut other = reps[b].clone();
                        let _ = reps[a].merge(&mut other);
                    }
                }
            }
            log.push("merge all".into());
        }
    }
    for b in 1..nrep {
        let mut other = reps[b].clone();
        let _ = reps[0].merge(&mut other);
    }
    log.push("final merge into r0".into());
    MigDoc { bytes: reps[0].save(), log, replicas: nrep }
}

fn load_plain(bytes: &[u8], enc: TextEncoding) -> Result<Automerge, String> {
    Automerge::load_with_options(bytes, LoadOptions::new().text_encoding(enc)).map_err(|e| format!("{}", e))
}
fn load_migrating(bytes: &[u8], enc: TextEncoding) -> Result<Automerge, String> {
    Automerge::load_with_options(bytes, LoadOptions::new().text_encoding(enc).migrate_strings(StringMigration::ConvertToText)).map_err(|e| format!("{}", e))
}

fn mig_case(rng: &mut Rng, rep: &mut Report, cw: &mut CaseWriter, grp: &mut Group, pi: usize, enc: TextEncoding, thorough: bool) {
    let no_strings = rng.chance(1, 10);
    let d = mig_document(rng, enc, thorough, no_strings);
    let replay = json!({"stream": "mig", "program": pi, "encoding": enc_name(enc), "log": d.log, "doc_hex": hex(&d.bytes)});
    rep.count("mig:documents");
    rep.count(&format!("mig:encoding:{}", enc_name(enc)));
    let plain = match guard(|| load_plain(&d.bytes, enc)) {
        Ok(Ok(p)) => p,
        Ok(Err(e)) => {
            rep.fail(&["C40", "C11"], "recon|mig|plain-load-failed", &e, replay);
            return;
        }
        Err(p) => {
            rep.fail(&["C40", "C11"], &format!("panic|recon|mig|plain-load|{}", p.signature()), &p.message, replay);
            return;
        }
    };
    let mig = match guard(|| load_migrating(&d.bytes, enc)) {
        Ok(Ok(p)) => p,
        Ok(Err(e)) => {
            rep.fail(&["C40"], "recon|mig|migrating-load-failed", &format!("load with ConvertToText failed: {}", e), replay);
            return;
        }
        Err(p) => {
            rep.fail(&["C40"], &format!("panic|recon|mig|load|{}", p.signature()), &format!("load with ConvertToText panicked: {} at {}", p.message, p.location), replay);
            return;
        }
    };
    let ch_plain = plain.get_changes(&[]);
    let ch_mig = mig.get_changes(&[]);
    let known: std::collections::HashSet<_> = ch_plain.iter().map(|c| c.hash()).collect();
    let added: Vec<&Change> = ch_mig.iter().filter(|c| !known.contains(&c.hash())).collect();
    if ch_mig.len() != ch_plain.len() + added.len() {
        rep.fail(&["C40"], "recon|mig|changes-lost", "the migrating load does not hold every change of the plain load", replay.clone());
        return;
    }
    let cands_plain = object_ids(&ch_plain);
    let cands_mig = object_ids(&ch_mig);
    let before = match read_all(&plain, &cands_plain, enc) {
        Ok(o) => o,
        Err(e) => {
            rep.fail(&["C40"], "recon|mig|read-failed", &e, replay);
            return;
        }
    };
    let after = match read_all(&mig, &cands_mig, enc) {
        Ok(o) => o,
        Err(e) => {
            rep.fail(&["C40"], "recon|mig|read-failed-after", &e, replay);
            return;
        }
    };
    let reach: std::collections::HashSet<ObjId> = gen::reachable(&plain).into_iter().map(|x| x.0).collect();
    // ---- the property, register by register
    let mut n_str_regs = 0usize;
    let mut n_str_reachable = 0usize;
    let mut n_conflicted_str = 0usize;
    let mut n_mixed = 0usize;
    let mut bad: Option<(String, String)> = None;
    for (id, o) in &before {
        let o2 = match after.iter().find(|x| &x.0 == id) {
            Some(x) => &x.1,
            None => {
                bad = Some(("object-lost".into(), format!("object {} is unknown after the migrating load", id)));
                break;
            }
        };
        if o2.ty != o.ty {
            bad = Some(("object-type".into(), format!("object {} changed its type", id)));
            break;
        }
        let keys1: Vec<&RKey> = o.regs.iter().map(|r| &r.0).collect();
        let keys2: Vec<&RKey> = o2.regs.iter().map(|r| &r.0).collect();
        if keys1 != keys2 {
            bad = Some((format!("keys|{:?}", o.ty), format!("object {} ({:?}) has other keys / another length after the migrating load: {:?} vs {:?}", id, o.ty, keys1, keys2)));
            break;
        }
        for ((k, vals), (_, vals2)) in o.regs.iter().zip(o2.regs.iter()) {
            let strs: Vec<(String, &ObjId)> = vals.iter().filter_map(|(v, i)| is_str(v).map(|s| (s, i))).collect();
            let container = matches!(o.ty, ObjType::Map | ObjType::List);
            if container && !strs.is_empty() {
                n_str_regs += 1;
                if reach.contains(id) {
                    n_str_reachable += 1;
                }
                if strs.len() > 1 {
                    n_conflicted_str += 1;
                }
                if strs.len() < vals.len() {
                    n_mixed += 1;
                    let sib = vals.iter().find(|(v, _)| is_str(v).is_none()).map(|(v, _)| match v {
                        Value::Object(_) => "object",
                        Value::Scalar(s) if matches!(s.as_ref(), ScalarValue::Counter(_)) => "counter",
                        _ => "scalar",
                    });
                    rep.count(&format!("mig:string_with_sibling:{}", sib.unwrap_or("?")));
                }
                let want = strs.iter().max_by_key(|x| exid_key(x.1)).unwrap().0.clone();
                let ok = vals2.len() == 1
                    && matches!(vals2[0].0, Value::Object(ObjType::Text))
                    && mig.text(&vals2[0].1).map(|t| t == want).unwrap_or(false);
                if !ok {
                    let got: Vec<String> = vals2.iter().map(|(v, i)| format!("{}@{}{}", render_value(v), i, if matches!(v, Value::Object(ObjType::Text)) { format!("={:?}", mig.text(i).ok()) } else { String::new() })).collect();
                    bad = Some((format!("text-not-highest-string|{:?}", o.ty), format!("register {:?} of {} held strings {:?}; after migration it holds {:?}, expected one text {:?}", k, id, strs.iter().map(|x| &x.0).collect::<Vec<_>>(), got, want)));
                    break;
                }
            } else {
                // no visible string here (or a text object): the register keeps its values
                let a: Vec<(String, &ObjId)> = vals.iter().map(|(v, i)| (render_value(v), i)).collect();
                let b: Vec<(String, &ObjId)> = vals2.iter().map(|(v, i)| (render_value(v), i)).collect();
                if a != b {
                    bad = Some((format!("untouched-register-changed|{:?}", o.ty), format!("register {:?} of {} ({:?}) had no visible string but changed: {:?} -> {:?}", k, id, o.ty, a, b)));
                    break;
                }
            }
        }
        if bad.is_some() {
            break;
        }
        if o.ty == ObjType::Text && plain.text(id).ok() != mig.text(id).ok() {
            bad = Some(("text-object-changed".into(), format!("text object {} reads differently after the migrating load", id)));
            break;
        }
    }
    if let Some((sig, what)) = bad {
        rep.fail(&["C40"], &format!("recon|mig|{}", sig), &what, replay.clone());
    }
    // no map key or list element has a visible string left (every object the migrated document knows)
    for (id, o) in &after {
        if !matches!(o.ty, ObjType::Map | ObjType::List) {
            continue;
        }
        if let Some((k, _)) = o.regs.iter().find(|(_, vals)| vals.iter().any(|(v, _)| is_str(v).is_some())) {
            rep.fail(&["C40"], &format!("recon|mig|string-left|{:?}", o.ty), &format!("after the migrating load register {:?} of {} still has a visible string", k, id), replay.clone());
            break;
        }
    }
    // added change: none without strings, exactly one otherwise
    if n_str_regs == 0 {
        rep.count("mig:no_visible_string");
        if !added.is_empty() || mig.get_heads() != plain.get_heads() {
            rep.fail(&["C40"], "recon|mig|change-added-without-strings", "the document has no visible string but the migrating load added a change", replay.clone());
        }
    } else {
        rep.count("mig:with_strings");
        if added.len() != 1 {
            rep.fail(&["C40"], "recon|mig|added-change-count", &format!("{} changes added for {} string registers", added.len(), n_str_regs), replay.clone());
        }
        if n_str_reachable == 0 {
            // every visible string sits in an object that is itself no longer reachable from the root: the code
            // converts those too (visibility is per register of any object), so a change is added although
            // hydrate shows no string.  Counted, not a failure: the theorems read "visible" per register.
            rep.count("mig:strings_only_in_unreachable_objects");
        }
    }
    rep.add("mig:string_registers", n_str_regs as u64);
    rep.add("mig:conflicted_string_registers", n_conflicted_str as u64);
    rep.add("mig:string_registers_with_other_siblings", n_mixed as u64);
    // save / load of the migrated document shows the same registers
    {
        let bytes = mig.save();
        match guard(|| load_plain(&bytes, enc).and_then(|l| read_all(&l, &cands_mig, enc).map(|o| coq_obs(&o)))) {
            Ok(Ok(s)) => {
                if s != coq_obs(&after) {
                    rep.fail(&["C40", "C11"], "recon|mig|reload-differs", "the migrated document and its saved-and-reloaded copy differ", replay.clone());
                }
            }
            Ok(Err(e)) => rep.fail(&["C40", "C11"], "recon|mig|reload-failed", &e, replay.clone()),
            Err(p) => rep.fail(&["C40", "C11"], &format!("panic|recon|mig|reload|{}", p.signature()), &p.message, replay.clone()),
        }
    }
    let key = fnv(&d.bytes);
    rep.case(if n_str_regs >= 1 && d.replicas >= 1 { Some(key) } else { None });
    if pi < 2 {
        rep.sample(json!({"stream": "mig", "program": pi, "log": d.log.iter().take(20).collect::<Vec<_>>(), "string_registers": n_str_regs}));
    }
    // ---- model case
    if enc == TextEncoding::GraphemeCluster {
        rep.count("mig:direct_only");
        return;
    }
    let mut defs = vec![];
    let mut names = vec![];
    for (i, c) in ch_plain.iter().enumerate() {
        defs.push(format!("Definition m{}_ch{} : change := {}.", pi, i, coq_change_small(c, i)));
        names.push(format!("m{}_ch{}", pi, i));
    }
    let added_ops = added.first().map(|c| coq_ops_of(c)).unwrap_or_else(|| "[]".into());
    let actor = added.first().map(|c| c.actor_id().clone()).unwrap_or_else(|| mig.get_actor().clone());
    let term = format!("chk_migrate {} {} {} {} {}", coq_enc(enc), coq_list(&names), coq_actor(&actor), added_ops, coq_obs(&after));
    grp.add(cw, defs, vec![(term, json!({"kind": "migrate", "props": ["C40"], "program": pi, "log": d.log, "doc_hex": hex(&d.bytes)}))]);
    rep.model_cases += 1;
}

// ------------------------------------------------------------------ C27: reconciliation and bulk construction
use automerge::hydrate;
use automerge::marks::{MarkSet, UpdateSpansConfig};
use automerge::{legacy, Span};
use std::collections::HashMap;

const GRAPHEMES: [&str; 12] = ["a", "b", "c", " ", "\n", "\u{e9}", "\u{6f22}", "\u{1F600}", "e\u{301}", "\u{1F468}\u{200D}\u{1F469}", "z", "q\u{308}\u{323}"];

fn rand_text(rng: &mut Rng, max: u64) -> String {
    let n = rng.below(max + 1);
    (0..n).map(|_| *rng.pick(&GRAPHEMES)).collect::<Vec<_>>().concat()
}

/// a text near `old`: runs deleted, inserted, replaced, duplicated (grapheme-wise), or something unrelated
fn mutate_text(rng: &mut Rng, old: &str) -> String {
    let mut g: Vec<String> = old.graphemes(true).map(|x| x.to_string()).collect();
    match rng.below(10) {
        0 => return String::new(),
        1 => return rand_text(rng, 10),
        2 => return old.to_string(),
        _ => {}
    }
    let edits = rng.range(1, 4);
    for _ in 0..edits {
        let pos = rng.below(g.len() as u64 + 1) as usize;
        match rng.below(4) {
            0 if pos < g.len() => {
                let k = rng.range(1, 3).min((g.len() - pos) as u64) as usize;
                g.drain(pos..pos + k);
            }
            1 => {
                let k = rng.range(1, 3);
                for _ in 0..k {
                    g.insert(pos, rng.pick(&GRAPHEMES).to_string());
                }
            }
            2 if pos < g.len() => g[pos] = rng.pick(&GRAPHEMES).to_string(),
            _ => {
                if pos < g.len() {
                    let x = g[pos].clone();
                    g.insert(pos, x);
                }
            }
        }
    }
    g.concat()
}

#[derive(Debug, Clone)]
enum Hook {
    Equal(usize, usize, usize),
    Delete(usize, usize, usize),
    Insert(usize, usize, usize),
}
impl Hook {
    fn coq(&self) -> String {
        match self {
            Hook::Equal(a, b, c) => format!("(HEqual {}%nat {}%nat {}%nat)", a, b, c),
            Hook::Delete(a, b, c) => format!("(HDelete {}%nat {}%nat {}%nat)", a, b, c),
            Hook::Insert(a, b, c) => format!("(HInsert {}%nat {}%nat {}%nat)", a, b, c),
        }
    }
}

/// the edit script a change applied to a text whose visible elements were `old` (element id, content): the ops
/// are replayed on the element sequence (a delete hides its element, an insert lands right after its reference
/// element), then old and the resulting sequence are aligned: kept runs, deleted runs, inserted runs
fn derive_script(old: &[((u64, Vec<u8>), String)], c: &Change) -> Result<(Vec<Hook>, Vec<String>), String> {
    let e = c.decode();
    let start = e.start_op.get();
    let actor = e.actor_id.to_bytes().to_vec();
    // (id, content, index in old, hidden)
    let mut cur: Vec<((u64, Vec<u8>), String, Option<usize>, bool)> = old.iter().enumerate().map(|(i, x)| (x.0.clone(), x.1.clone(), Some(i), false)).collect();
    for (i, op) in e.operations.iter().enumerate() {
        match (&op.action, &op.key, op.insert) {
            (legacy::OpType::Delete, legacy::Key::Seq(legacy::ElementId::Id(id)), false) => {
                let k = (id.counter(), id.actor().to_bytes().to_vec());
                match cur.iter_mut().find(|x| x.0 == k) {
                    Some(x) if !x.3 => x.3 = true,
                    Some(_) => return Err(format!("op {} deletes an element twice", i)),
                    None => return Err(format!("op {} deletes an element that was not visible", i)),
                }
            }
            (legacy::OpType::Put(ScalarValue::Str(sv)), legacy::Key::Seq(r), true) => {
                let at = match r {
                    legacy::ElementId::Head => 0,
                    legacy::ElementId::Id(id) => {
                        let k = (id.counter(), id.actor().to_bytes().to_vec());
                        match cur.iter().position(|x| x.0 == k) {
                            Some(p) => p + 1,
                            None => return Err(format!("op {} inserts after an element that was not visible", i)),
                        }
                    }
                };
                cur.insert(at, ((start + i as u64, actor.clone()), sv.to_string(), None, false));
            }
            other => return Err(format!("op {} of the update_text change is neither a delete nor a string insert: {:?}", i, other.0)),
        }
    }
    let mut hooks: Vec<Hook> = vec![];
    let mut new: Vec<String> = vec![];
    let mut oi = 0usize;
    let push = |hooks: &mut Vec<Hook>, h: Hook| {
        // coalesce runs of the same kind
        match (hooks.last_mut(), &h) {
            (Some(Hook::Equal(_, _, n)), Hook::Equal(_, _, m)) => *n += m,
            (Some(Hook::Delete(_, n, _)), Hook::Delete(_, m, _)) => *n += m,
            (Some(Hook::Insert(_, _, n)), Hook::Insert(_, _, m)) => *n += m,
            _ => hooks.push(h),
        }
    };
    for x in &cur {
        match (x.2, x.3) {
            (Some(p), hidden) => {
                if p != oi {
                    return Err(format!("old element {} appears out of order (expected {})", p, oi));
                }
                if hidden {
                    push(&mut hooks, Hook::Delete(oi, 1, new.len()));
                } else {
                    push(&mut hooks, Hook::Equal(oi, new.len(), 1));
                    new.push(x.1.clone());
                }
                oi += 1;
            }
            (None, false) => {
                push(&mut hooks, Hook::Insert(oi, new.len(), 1));
                new.push(x.1.clone());
            }
            (None, true) => return Err("an element inserted by the change was deleted by it".to_string()),
        }
    }
    if oi != old.len() {
        return Err("old elements lost".to_string());
    }
    Ok((hooks, new))
}

fn coq_units(us: &[String]) -> String {
    coq_list(&us.iter().map(|u| coq_str(u)).collect::<Vec<_>>())
}

fn upd_text_case(rng: &mut Rng, rep: &mut Report, cases: &mut Vec<(String, serde_json::Value)>, pi: usize, enc: TextEncoding) {
    let mut doc = AutoCommit::new_with_encoding(enc).with_actor(gen::actor(rng, 0));
    let t = doc.put_object(ROOT, "t", ObjType::Text).unwrap();
    let mut log = vec![format!("encoding {}", enc_name(enc))];
    // some history first (tombstones, several insert runs)
    let first = rand_text(rng, 8);
    doc.splice_text(&t, 0, 0, &first).unwrap();
    log.push(format!("splice_text 0 0 {:?}", first));
    if rng.chance(1, 2) {
        let cur = doc.text(&t).unwrap();
        let nxt = mutate_text(rng, &cur);
        let _ = doc.update_text(&t, &nxt);
        log.push(format!("update_text {:?}", nxt));
    }
    doc.commit();
    let old = doc.text(&t).unwrap();
    let new = mutate_text(rng, &old);
    log.push(format!("old {:?} new {:?}", old, new));
    let replay = json!({"stream": "update_text", "program": pi, "encoding": enc_name(enc), "log": log});
    // the visible elements before
    let before = match read_obj(&doc, &t, enc) {
        Ok(Some(o)) => o,
        _ => {
            rep.fail(&["C27"], "recon|update_text|read-failed", "cannot read the text before the update", replay);
            return;
        }
    };
    let old_elems: Vec<((u64, Vec<u8>), String)> = before
        .regs
        .iter()
        .map(|(_, vals)| {
            let (v, id) = vals.last().unwrap();
            (exid_key(id), is_str(v).unwrap_or_else(|| "\u{fffc}".into()))
        })
        .collect();
    rep.count("update_text:calls");
    rep.count(&format!("update_text:encoding:{}", enc_name(enc)));
    let r = guard(|| doc.update_text(&t, &new));
    match r {
        Ok(Ok(())) => {}
        Ok(Err(e)) => {
            rep.fail(&["C27"], "recon|update_text|error", &format!("update_text failed: {}", e), replay);
            return;
        }
        Err(p) => {
            rep.fail(&["C27", "C37"], &format!("panic|recon|update_text|{}", p.signature()), &format!("update_text panicked: {} at {}", p.message, p.location), replay);
            return;
        }
    }
    let got = doc.text(&t).unwrap_or_default();
    if got != new {
        rep.fail(&["C27"], &format!("recon|update_text|not-reached|{}", enc_name(enc)), &format!("after update_text the text is {:?}, expected {:?} (was {:?})", got, new, old), replay.clone());
    }
    if doc.length(&t) != enc_width(enc, &new) && enc != TextEncoding::GraphemeCluster {
        rep.fail(&["C27", "C24"], "recon|update_text|length", "length differs from the width of the new text", replay.clone());
    }
    let h = doc.commit();
    let bytes = doc.save();
    match guard(|| load_plain(&bytes, enc).map(|l| l.text(&t).unwrap_or_default())) {
        Ok(Ok(s)) if s == new => {}
        Ok(Ok(s)) => rep.fail(&["C27", "C11"], "recon|update_text|reload-differs", &format!("reloaded text {:?}", s), replay.clone()),
        Ok(Err(e)) => rep.fail(&["C27", "C11"], "recon|update_text|reload-failed", &e, replay.clone()),
        Err(p) => rep.fail(&["C27", "C11"], &format!("panic|recon|update_text|reload|{}", p.signature()), &p.message, replay.clone()),
    }
    rep.case(if old != new { Some(fnv(format!("{:?}{:?}{}", old, new, enc_name(enc)).as_bytes())) } else { None });
    if enc == TextEncoding::GraphemeCluster {
        return;
    }
    // the script the implementation followed, recovered from the committed ops
    let (hooks, new_units) = match h.and_then(|h| doc.get_change_by_hash(&h)) {
        Some(c) => match derive_script(&old_elems, &c) {
            Ok(x) => x,
            Err(e) => {
                rep.fail(&["C27"], "recon|update_text|ops-do-not-tile", &format!("the ops of the update_text change are not an in-order edit script: {}", e), replay);
                return;
            }
        },
        None => {
            // no op: old == new
            let units: Vec<String> = old_elems.iter().map(|x| x.1.clone()).collect();
            (if units.is_empty() { vec![] } else { vec![Hook::Equal(0, 0, units.len())] }, units)
        }
    };
    rep.add("update_text:hooks", hooks.len() as u64);
    let old_units: Vec<String> = old_elems.iter().map(|x| x.1.clone()).collect();
    let term = format!(
        "chk_script {} {} {} {} {}",
        coq_enc(enc),
        coq_units(&old_units),
        coq_units(&new_units),
        coq_list(&hooks.iter().map(|h| h.coq()).collect::<Vec<_>>()),
        coq_str(&got)
    );
    cases.push((term, json!({"kind": "update_text", "props": ["C27"], "program": pi, "log": replay["log"]})));
    rep.model_cases += 1;
}

// ---- hydrate values
fn hscalar(rng: &mut Rng) -> ScalarValue {
    loop {
        let v = gen::scalar(rng);
        if let ScalarValue::F64(f) = &v {
            if f.is_nan() {
                continue;
            }
        }
        return v;
    }
}

fn gen_hval(rng: &mut Rng, depth: usize, enc: TextEncoding, object_only: bool) -> hydrate::Value {
    let k = if depth == 0 { if object_only { 6 } else { 0 } } else { rng.below(10) };
    match k {
        0..=3 if !object_only => hydrate::Value::Scalar(hscalar(rng)),
        4 | 5 | 0 | 1 => {
            let n = rng.below(4) as usize;
            let mut m: HashMap<String, hydrate::Value> = HashMap::new();
            for _ in 0..n {
                m.insert(rng.pick(&gen::KEYS).to_string(), gen_hval(rng, depth.saturating_sub(1), enc, false));
            }
            hydrate::Value::Map(hydrate::Map::from(m))
        }
        6 | 7 | 2 => {
            let n = rng.below(5) as usize;
            let v: Vec<hydrate::Value> = (0..n).map(|_| gen_hval(rng, depth.saturating_sub(1), enc, false)).collect();
            hydrate::Value::List(hydrate::List::from(v))
        }
        _ => hydrate::Value::Text(hydrate::Text::new(enc, rand_text(rng, 6))),
    }
}

/// a value near `v`: maps lose / gain / change keys, lists grow / shrink / change items, texts are edited;
/// nested objects of the same type are mutated in place (so update_object recurses)
fn mutate_hval(rng: &mut Rng, v: &hydrate::Value, depth: usize, enc: TextEncoding) -> hydrate::Value {
    match v {
        hydrate::Value::Map(m) => {
            let mut out: HashMap<String, hydrate::Value> = HashMap::new();
            let mut keys: Vec<(&String, &hydrate::MapValue)> = m.iter().collect();
            keys.sort_by(|a, b| a.0.cmp(b.0));
            for (k, mv) in keys {
                match rng.below(6) {
                    0 => {}
                    1 => {
                        out.insert(k.clone(), gen_hval(rng, depth.saturating_sub(1), enc, false));
                    }
                    2 => {
                        out.insert(k.clone(), mv.value.clone());
                    }
                    _ => {
                        out.insert(k.clone(), mutate_hval(rng, &mv.value, depth.saturating_sub(1), enc));
                    }
                }
            }
            for _ in 0..rng.below(3) {
                out.insert(rng.pick(&gen::KEYS).to_string(), gen_hval(rng, depth.saturating_sub(1), enc, false));
            }
            hydrate::Value::Map(hydrate::Map::from(out))
        }
        hydrate::Value::List(l) => {
            let mut out: Vec<hydrate::Value> = vec![];
            for lv in l.iter() {
                match rng.below(5) {
                    0 => out.push(gen_hval(rng, depth.saturating_sub(1), enc, false)),
                    1 => out.push(lv.value.clone()),
                    _ => out.push(mutate_hval(rng, &lv.value, depth.saturating_sub(1), enc)),
                }
            }
            match rng.below(5) {
                0 | 1 => {
                    let keep = rng.below(out.len() as u64 + 1) as usize;
                    out.truncate(keep);
                }
                2 | 3 => {
                    for _ in 0..rng.range(1, 3) {
                        out.push(gen_hval(rng, depth.saturating_sub(1), enc, false));
                    }
                }
                _ => {
                    rng.shuffle(&mut out);
                }
            }
            hydrate::Value::List(hydrate::List::from(out))
        }
        hydrate::Value::Text(t) => {
            let s: String = t.into();
            hydrate::Value::Text(hydrate::Text::new(enc, mutate_text(rng, &s)))
        }
        hydrate::Value::Scalar(_) => gen_hval(rng, depth.saturating_sub(1), enc, false),
    }
}

/// canonical rendering without conflict flags, floats by bit pattern, map keys sorted
fn render_h(v: &hydrate::Value) -> String {
    render_hx(v, false)
}

/// the same with the sign of a float zero dropped: put(k, -0.0) on a register showing 0.0 is a no-op by design
/// (OpsFound::resolve_action compares values with f64 ==), so update_object reaches its target up to that sign
fn render_hz(v: &hydrate::Value) -> String {
    render_hx(v, true)
}

fn render_hx(v: &hydrate::Value, zero_sign: bool) -> String {
    match v {
        hydrate::Value::Scalar(s) => match s {
            ScalarValue::F64(f) => format!("f64:{}", if zero_sign && *f == 0.0 { 0 } else { f.to_bits() }),
            other => format!("{:?}", other),
        },
        hydrate::Value::Map(m) => {
            let mut items: Vec<(&String, String)> = m.iter().map(|(k, mv)| (k, render_hx(&mv.value, zero_sign))).collect();
            items.sort();
            format!("{{{}}}", items.iter().map(|(k, v)| format!("{:?}:{}", k, v)).collect::<Vec<_>>().join(","))
        }
        hydrate::Value::List(l) => format!("[{}]", l.iter().map(|lv| render_hx(&lv.value, zero_sign)).collect::<Vec<_>>().join(",")),
        hydrate::Value::Text(t) => {
            let s: String = t.into();
            format!("T{:?}", s)
        }
    }
}

/// the same value built call by call
fn build_value<T: Transactable>(t: &mut T, parent: &ObjId, prop: automerge::Prop, insert: bool, v: &hydrate::Value) -> Result<(), automerge::AutomergeError> {
    let make = |t: &mut T, ty: ObjType| -> Result<ObjId, automerge::AutomergeError> {
        match (&prop, insert) {
            (automerge::Prop::Seq(i), true) => t.insert_object(parent, *i, ty),
            _ => t.put_object(parent, prop.clone(), ty),
        }
    };
    match v {
        hydrate::Value::Scalar(s) => match (&prop, insert) {
            (automerge::Prop::Seq(i), true) => t.insert(parent, *i, s.clone()),
            _ => t.put(parent, prop.clone(), s.clone()),
        },
        hydrate::Value::Map(m) => {
            let id = make(t, ObjType::Map)?;
            build_map(t, &id, m)
        }
        hydrate::Value::List(l) => {
            let id = make(t, ObjType::List)?;
            for (i, lv) in l.iter().enumerate() {
                build_value(t, &id, automerge::Prop::Seq(i), true, &lv.value)?;
            }
            Ok(())
        }
        hydrate::Value::Text(x) => {
            let id = make(t, ObjType::Text)?;
            let s: String = x.into();
            t.splice_text(&id, 0, 0, &s)
        }
    }
}

fn build_map<T: Transactable>(t: &mut T, id: &ObjId, m: &hydrate::Map) -> Result<(), automerge::AutomergeError> {
    let mut keys: Vec<(&String, &hydrate::MapValue)> = m.iter().collect();
    keys.sort_by(|a, b| a.0.cmp(b.0));
    for (k, mv) in keys {
        build_value(t, id, automerge::Prop::Map(k.clone()), false, &mv.value)?;
    }
    Ok(())
}

fn hydrate_of(doc: &Automerge) -> String {
    render_h(&doc.hydrate(None))
}

fn reload_hydrate(doc: &Automerge, enc: TextEncoding) -> Result<String, String> {
    let bytes = doc.save();
    load_plain(&bytes, enc).map(|l| hydrate_of(&l))
}

fn as_map(v: &hydrate::Value) -> &hydrate::Map {
    match v {
        hydrate::Value::Map(m) => m,
        _ => unreachable!(),
    }
}

fn upd_object_case(rng: &mut Rng, rep: &mut Report, pi: usize, enc: TextEncoding, thorough: bool) {
    let depth = if thorough { 4 } else { 3 };
    let a = loop {
        let v = gen_hval(rng, depth, enc, true);
        if matches!(v, hydrate::Value::Map(_)) {
            break v;
        }
    };
    let b = mutate_hval(rng, &a, depth, enc);
    let mut doc = AutoCommit::new_with_encoding(enc).with_actor(gen::actor(rng, 0));
    let replay = json!({"stream": "update_object", "program": pi, "encoding": enc_name(enc), "from": render_h(&a), "to": render_h(&b)});
    if let Err(e) = build_map(&mut doc, &ROOT, as_map(&a)) {
        rep.fail(&["C27"], "recon|update_object|setup", &format!("{}", e), replay);
        return;
    }
    doc.commit();
    // sometimes a second replica wrote the same keys concurrently (conflicted registers)
    let conflicts = rng.chance(1, 3);
    if conflicts {
        let mut other = doc.fork().with_actor(gen::actor(rng, 1));
        let keys: Vec<String> = doc.keys(ROOT).collect();
        for k in keys.iter().take(2) {
            let _ = other.put(ROOT, k.as_str(), hscalar(rng));
            let _ = doc.put(ROOT, k.as_str(), hscalar(rng));
        }
        other.commit();
        doc.commit();
        let _ = doc.merge(&mut other);
        rep.count("update_object:with_conflicts");
    }
    rep.count("update_object:calls");
    let shape = match (&a, &b) {
        (hydrate::Value::Map(x), hydrate::Value::Map(y)) => {
            let (nx, ny) = (x.iter().count(), y.iter().count());
            if ny > nx { "map-grows" } else if ny < nx { "map-shrinks" } else { "map-same-size" }
        }
        _ => "other",
    };
    rep.count(&format!("update_object:{}", shape));
    match guard(|| doc.update_object(ROOT, &b)) {
        Ok(Ok(())) => {}
        Ok(Err(e)) => {
            rep.fail(&["C27"], "recon|update_object|error", &format!("update_object failed: {}", e), replay);
            return;
        }
        Err(p) => {
            rep.fail(&["C27", "C37"], &format!("panic|recon|update_object|{}", p.signature()), &format!("update_object panicked: {} at {}", p.message, p.location), replay);
            return;
        }
    }
    doc.commit();
    let got = render_hz(&doc.document().hydrate(None));
    let want = render_hz(&b);
    if got != want {
        rep.fail(&["C27"], &format!("recon|update_object|not-reached|{}", shape), &format!("after update_object the document is {} , expected {}", got, want), replay.clone());
    }
    match guard(|| load_plain(&doc.save(), enc).map(|l| render_hz(&l.hydrate(None)))) {
        Ok(Ok(s)) if s == got => {}
        Ok(Ok(s)) => rep.fail(&["C27", "C11"], "recon|update_object|reload-differs", &format!("reloaded: {}", s), replay.clone()),
        Ok(Err(e)) => rep.fail(&["C27", "C11"], "recon|update_object|reload-failed", &e, replay.clone()),
        Err(p) => rep.fail(&["C27", "C11"], &format!("panic|recon|update_object|reload|{}", p.signature()), &p.message, replay.clone()),
    }
    // a nested list on its own: grow / shrink / reorder through update_object(list, ..)
    {
        let items: Vec<hydrate::Value> = (0..rng.below(7)).map(|_| gen_hval(rng, 1, enc, false)).collect();
        let l0 = hydrate::Value::List(hydrate::List::from(items));
        let l1 = mutate_hval(rng, &l0, 2, enc);
        let mut d2 = AutoCommit::new_with_encoding(enc).with_actor(gen::actor(rng, 2));
        if build_value(&mut d2, &ROOT, automerge::Prop::Map("l".into()), false, &l0).is_ok() {
            let lid = d2.get(ROOT, "l").unwrap().unwrap().1;
            let (n0, n1) = match (&l0, &l1) {
                (hydrate::Value::List(x), hydrate::Value::List(y)) => (x.len(), y.len()),
                _ => (0, 0),
            };
            let shape = if n1 > n0 { "list-grows" } else if n1 < n0 { "list-shrinks" } else { "list-same-length" };
            rep.count(&format!("update_object:{}", shape));
            let rp = json!({"stream": "update_object", "program": pi, "from": render_h(&l0), "to": render_h(&l1)});
            match guard(|| d2.update_object(&lid, &l1)) {
                Ok(Ok(())) => {
                    let got = render_hz(&d2.document().hydrate(None));
                    let want = format!("{{\"l\":{}}}", render_hz(&l1));
                    if got != want {
                        rep.fail(&["C27"], &format!("recon|update_object|not-reached|{}", shape), &format!("after update_object(list) the document is {} , expected {}", got, want), rp);
                    }
                }
                Ok(Err(e)) => rep.fail(&["C27"], "recon|update_object|error", &format!("update_object(list) failed: {}", e), rp),
                Err(p) => rep.fail(&["C27", "C37"], &format!("panic|recon|update_object|{}", p.signature()), &p.message, rp),
            }
        }
    }
    rep.case(if render_hz(&a) != want { Some(fnv(format!("{}{}", render_h(&a), want).as_bytes())) } else { None });
}

fn bulk_case(rng: &mut Rng, rep: &mut Report, pi: usize, enc: TextEncoding, thorough: bool) {
    let depth = if thorough { 4 } else { 3 };
    let which = rng.below(5);
    let names = ["init_from_hydrate", "init_root_from_hydrate", "batch_create_object:map-key", "batch_create_object:list", "splice-nested"];
    let name = names[which as usize];
    rep.count(&format!("bulk:{}", name));
    let actor = gen::actor(rng, 0);
    let mut bulk = Automerge::new_with_encoding(enc).with_actor(actor.clone());
    let mut step = Automerge::new_with_encoding(enc).with_actor(actor);
    let v = loop {
        let v = gen_hval(rng, depth, enc, true);
        if which >= 2 || matches!(v, hydrate::Value::Map(_)) {
            break v;
        }
    };
    let replay = json!({"stream": "bulk", "api": name, "program": pi, "encoding": enc_name(enc), "value": render_h(&v)});
    let want: String;
    let r: Result<Result<(), String>, PanicInfo> = match which {
        0 => {
            want = render_h(&v);
            guard(|| {
                bulk.init_from_hydrate(as_map(&v)).map_err(|e| format!("{}", e))?;
                let mut tx = step.transaction();
                build_map(&mut tx, &ROOT, as_map(&v)).map_err(|e| format!("stepwise: {}", e))?;
                tx.commit();
                Ok(())
            })
        }
        1 => {
            want = render_h(&v);
            guard(|| {
                let mut tx = bulk.transaction();
                tx.init_root_from_hydrate(as_map(&v)).map_err(|e| format!("{}", e))?;
                tx.commit();
                let mut tx = step.transaction();
                build_map(&mut tx, &ROOT, as_map(&v)).map_err(|e| format!("stepwise: {}", e))?;
                tx.commit();
                Ok(())
            })
        }
        2 => {
            want = format!("{{\"k\":{}}}", render_h(&v));
            let overwrite = rng.chance(1, 2);
            guard(|| {
                for d in [&mut bulk, &mut step] {
                    if overwrite {
                        let mut tx = d.transaction();
                        tx.put(ROOT, "k", 1).map_err(|e| format!("{}", e))?;
                        tx.commit();
                    }
                }
                let mut tx = bulk.transaction();
                tx.batch_create_object(ROOT, "k", &v, false).map_err(|e| format!("{}", e))?;
                tx.commit();
                let mut tx = step.transaction();
                build_value(&mut tx, &ROOT, automerge::Prop::Map("k".into()), false, &v).map_err(|e| format!("stepwise: {}", e))?;
                tx.commit();
                Ok(())
            })
        }
        3 => {
            let n = rng.range(1, 3) as usize;
            let idx = rng.below(n as u64 + 1) as usize;
            let insert = idx == n || rng.chance(1, 2);
            let mut items: Vec<String> = (0..n).map(|i| format!("Int({})", i)).collect();
            if insert {
                items.insert(idx, render_h(&v));
            } else {
                items[idx] = render_h(&v);
            }
            want = format!("{{\"l\":[{}]}}", items.join(","));
            guard(|| {
                let mut lids = vec![];
                for d in [&mut bulk, &mut step] {
                    let mut tx = d.transaction();
                    let l = tx.put_object(ROOT, "l", ObjType::List).map_err(|e| format!("{}", e))?;
                    for i in 0..n {
                        tx.insert(&l, i, i as i64).map_err(|e| format!("{}", e))?;
                    }
                    tx.commit();
                    lids.push(l);
                }
                let mut tx = bulk.transaction();
                tx.batch_create_object(&lids[0], idx, &v, insert).map_err(|e| format!("{}", e))?;
                tx.commit();
                let mut tx = step.transaction();
                build_value(&mut tx, &lids[1], automerge::Prop::Seq(idx), insert, &v).map_err(|e| format!("stepwise: {}", e))?;
                tx.commit();
                Ok(())
            })
        }
        _ => {
            let n = rng.range(0, 3) as usize;
            let pos = rng.below(n as u64 + 1) as usize;
            let del = rng.below((n - pos) as u64 + 1) as usize;
            let vals: Vec<hydrate::Value> = (0..rng.range(1, 3)).map(|_| gen_hval(rng, depth - 1, enc, false)).collect();
            let mut items: Vec<String> = (0..n).map(|i| format!("Int({})", i)).collect();
            items.splice(pos..pos + del, vals.iter().map(render_h));
            want = format!("{{\"l\":[{}]}}", items.join(","));
            guard(|| {
                let mut lids = vec![];
                for d in [&mut bulk, &mut step] {
                    let mut tx = d.transaction();
                    let l = tx.put_object(ROOT, "l", ObjType::List).map_err(|e| format!("{}", e))?;
                    for i in 0..n {
                        tx.insert(&l, i, i as i64).map_err(|e| format!("{}", e))?;
                    }
                    tx.commit();
                    lids.push(l);
                }
                let mut tx = bulk.transaction();
                tx.splice(&lids[0], pos, del as isize, vals.iter().cloned()).map_err(|e| format!("{}", e))?;
                tx.commit();
                let mut tx = step.transaction();
                for _ in 0..del {
                    tx.delete(&lids[1], pos).map_err(|e| format!("stepwise: {}", e))?;
                }
                for (k, x) in vals.iter().enumerate() {
                    build_value(&mut tx, &lids[1], automerge::Prop::Seq(pos + k), true, x).map_err(|e| format!("stepwise: {}", e))?;
                }
                tx.commit();
                Ok(())
            })
        }
    };
    match r {
        Ok(Ok(())) => {}
        Ok(Err(e)) => {
            rep.fail(&["C27"], &format!("recon|bulk|error|{}", name), &e, replay);
            return;
        }
        Err(p) => {
            rep.fail(&["C27", "C37"], &format!("panic|recon|bulk|{}|{}", name, p.signature()), &format!("{} panicked: {} at {}", name, p.message, p.location), replay);
            return;
        }
    }
    let hb = hydrate_of(&bulk);
    let hs = hydrate_of(&step);
    if hb != want {
        rep.fail(&["C27"], &format!("recon|bulk|not-the-value|{}", name), &format!("{} created {} , expected {}", name, hb, want), replay.clone());
    }
    if hb != hs {
        rep.fail(&["C27"], &format!("recon|bulk|differs-from-stepwise|{}", name), &format!("{} created {} , call by call gives {}", name, hb, hs), replay.clone());
    }
    match guard(|| (reload_hydrate(&bulk, enc), reload_hydrate(&step, enc))) {
        Ok((Ok(x), Ok(y))) => {
            if x != hb || y != hs {
                rep.fail(&["C27", "C11"], &format!("recon|bulk|reload-differs|{}", name), &format!("after save/load: bulk {} stepwise {}", x, y), replay.clone());
            }
        }
        Ok((x, y)) => rep.fail(&["C27", "C11"], &format!("recon|bulk|reload-failed|{}", name), &format!("{:?} {:?}", x.err(), y.err()), replay.clone()),
        Err(p) => rep.fail(&["C27", "C11"], &format!("panic|recon|bulk|reload|{}", p.signature()), &p.message, replay.clone()),
    }
    rep.case(Some(fnv(format!("{}{}", name, want).as_bytes())));
}

// ---- update_spans
#[derive(Clone, Debug, PartialEq)]
enum NSpan {
    Text(String, Vec<(String, String)>),
    Block(String),
}

fn norm_spans<I: IntoIterator<Item = Span>>(spans: I) -> Vec<NSpan> {
    let mut out: Vec<NSpan> = vec![];
    for s in spans {
        match s {
            Span::Text { text, marks } => {
                if text.is_empty() {
                    continue;
                }
                let mut ms: Vec<(String, String)> = marks.map(|m| m.iter().map(|(k, v)| (k.to_string(), format!("{:?}", v))).collect()).unwrap_or_default();
                ms.sort();
                if let Some(NSpan::Text(t, m0)) = out.last_mut() {
                    if *m0 == ms {
                        t.push_str(&text);
                        continue;
                    }
                }
                out.push(NSpan::Text(text, ms));
            }
            Span::Block(m) => out.push(NSpan::Block(render_h(&hydrate::Value::Map(m)))),
        }
    }
    out
}

fn gen_spans(rng: &mut Rng, enc: TextEncoding, blocks: bool) -> Vec<Span> {
    let n = rng.below(6);
    let mut out = vec![];
    for _ in 0..n {
        if blocks && rng.chance(1, 4) {
            let mut m: HashMap<String, hydrate::Value> = HashMap::new();
            m.insert("type".into(), hydrate::Value::Scalar(ScalarValue::Str((*rng.pick(&["p", "h1", "li"])).into())));
            if rng.chance(1, 2) {
                m.insert("parents".into(), hydrate::Value::List(hydrate::List::from(vec![hydrate::Value::Scalar(ScalarValue::Str("ul".into()))])));
            }
            let _ = enc;
            out.push(Span::Block(hydrate::Map::from(m)));
        } else {
            let text = loop {
                let t = rand_text(rng, 4);
                if !t.is_empty() {
                    break t;
                }
            };
            let marks = match rng.below(4) {
                0 => Some(std::sync::Arc::new(MarkSet::from_iter(vec![("bold".to_string(), ScalarValue::Boolean(true))]))),
                1 => Some(std::sync::Arc::new(MarkSet::from_iter(vec![("link".to_string(), ScalarValue::Str((*rng.pick(&["u", "v"])).into()))]))),
                2 => Some(std::sync::Arc::new(MarkSet::from_iter(vec![("bold".to_string(), ScalarValue::Boolean(true)), ("i".to_string(), ScalarValue::Int(1))]))),
                _ => None,
            };
            out.push(Span::Text { text, marks });
        }
    }
    out
}

/// two hand-built inputs (the smallest members of the two classes in which update_spans misses its target)
fn spans_probes(rep: &mut Report) {
    // A: a grapheme cluster of two code points in the old text is deleted with delete(obj, idx): one element only
    {
        let mut doc = AutoCommit::new_with_encoding(TextEncoding::UnicodeCodePoint).with_actor(ActorId::from(vec![1u8]));
        let t = doc.put_object(ROOT, "t", ObjType::Text).unwrap();
        doc.splice_text(&t, 0, 0, "e\u{301}").unwrap();
        let r = guard(|| doc.update_spans(&t, UpdateSpansConfig::default(), Vec::<Span>::new()));
        let got = doc.text(&t).unwrap_or_default();
        rep.count("update_spans:probe");
        if !matches!(r, Ok(Ok(()))) || !got.is_empty() {
            rep.fail(&["C27"], "recon|update_spans|not-reached|old-text-has-multi-codepoint-grapheme",
                &format!("text \"e\\u{{301}}\" (code point encoding); update_spans(t, default, []) leaves {:?} (result {:?})", got, r.map(|x| x.map_err(|e| e.to_string())).map_err(|p| p.message)),
                json!({"stream": "update_spans", "probe": "A"}));
        }
    }
    // B: UTF-8 indexes: a block marker occupies width("\u{fffc}") = 3 units, update_spans counts 1
    {
        let mut doc = AutoCommit::new_with_encoding(TextEncoding::Utf8CodeUnit).with_actor(ActorId::from(vec![1u8]));
        let t = doc.put_object(ROOT, "t", ObjType::Text).unwrap();
        let mut m: HashMap<String, hydrate::Value> = HashMap::new();
        m.insert("type".into(), hydrate::Value::Scalar(ScalarValue::Str("p".into())));
        let spans = vec![
            Span::Block(hydrate::Map::from(m)),
            Span::Text { text: "ab".into(), marks: Some(std::sync::Arc::new(MarkSet::from_iter(vec![("bold".to_string(), ScalarValue::Boolean(true))]))) },
            Span::Text { text: "cd".into(), marks: None },
        ];
        let want = norm_spans(spans.clone());
        let r = guard(|| doc.update_spans(&t, UpdateSpansConfig::default(), spans));
        let got = doc.spans(&t).map(norm_spans).unwrap_or_default();
        rep.count("update_spans:probe");
        if !matches!(r, Ok(Ok(()))) || got != want {
            rep.fail(&["C27"], "recon|update_spans|not-reached|utf8-with-blocks",
                &format!("UTF-8 encoding, empty text; update_spans(t, default, [block p, \"ab\" bold, \"cd\"]) gives {:?} (length {}), expected {:?}", got, doc.length(&t), want),
                json!({"stream": "update_spans", "probe": "B"}));
        }
    }
}

fn upd_spans_case(rng: &mut Rng, rep: &mut Report, pi: usize, enc: TextEncoding) {
    let blocks = rng.chance(1, 2);
    let mut doc = AutoCommit::new_with_encoding(enc).with_actor(gen::actor(rng, 0));
    let t = doc.put_object(ROOT, "t", ObjType::Text).unwrap();
    let first = gen_spans(rng, enc, blocks);
    let second = gen_spans(rng, enc, blocks);
    rep.count("update_spans:calls");
    if blocks {
        rep.count("update_spans:with_blocks");
    }
    for (round, spans) in [first, second].into_iter().enumerate() {
        let want = norm_spans(spans.clone());
        let replay = json!({"stream": "update_spans", "program": pi, "round": round, "encoding": enc_name(enc), "target": format!("{:?}", want), "before": format!("{:?}", doc.spans(&t).map(norm_spans).ok())});
        // structural class of the input (known-finding signatures are keyed by it)
        let before_spans: Vec<Span> = doc.spans(&t).map(|s| s.collect()).unwrap_or_default();
        let multi_cp = enc != TextEncoding::GraphemeCluster
            && before_spans.iter().any(|s| matches!(s, Span::Text { text, .. } if text.graphemes(true).any(|g| g.chars().count() > 1)));
        let has_block = before_spans.iter().chain(spans.iter()).any(|s| matches!(s, Span::Block(_)));
        let class = if multi_cp {
            "old-text-has-multi-codepoint-grapheme".to_string()
        } else if has_block && enc == TextEncoding::Utf8CodeUnit {
            "utf8-with-blocks".to_string()
        } else {
            format!("other|{}|{}", enc_name(enc), if has_block { "blocks" } else { "text" })
        };
        rep.count(&format!("update_spans:class:{}", class.split('|').next().unwrap()));
        match guard(|| doc.update_spans(&t, UpdateSpansConfig::default(), spans.clone())) {
            Ok(Ok(())) => {}
            Ok(Err(e)) => {
                rep.fail(&["C27"], &format!("recon|update_spans|error|{}", class), &format!("update_spans failed: {}", e), replay);
                return;
            }
            Err(p) => {
                rep.fail(&["C27", "C37"], &format!("panic|recon|update_spans|{}", p.signature()), &format!("update_spans panicked: {} at {}", p.message, p.location), replay);
                return;
            }
        }
        doc.commit();
        let got = match doc.spans(&t) {
            Ok(s) => norm_spans(s),
            Err(e) => {
                rep.fail(&["C27"], "recon|update_spans|read-failed", &format!("{}", e), replay);
                return;
            }
        };
        if got != want {
            rep.fail(&["C27"], &format!("recon|update_spans|not-reached|{}", class), &format!("after update_spans the spans are {:?}, expected {:?}", got, want), replay.clone());
            return;
        }
        let bytes = doc.save();
        match guard(|| load_plain(&bytes, enc).and_then(|l| l.spans(&t).map(norm_spans).map_err(|e| format!("{}", e)))) {
            Ok(Ok(s)) if s == want => {}
            Ok(Ok(s)) => rep.fail(&["C27", "C11"], "recon|update_spans|reload-differs", &format!("reloaded spans {:?}", s), replay.clone()),
            Ok(Err(e)) => rep.fail(&["C27", "C11"], "recon|update_spans|reload-failed", &e, replay.clone()),
            Err(p) => rep.fail(&["C27", "C11"], &format!("panic|recon|update_spans|reload|{}", p.signature()), &p.message, replay.clone()),
        }
        rep.case(Some(fnv(format!("{:?}{}", want, round).as_bytes())));
    }
}

// ------------------------------------------------------------------ C32: serde export
mod tser {
    // a serde Serializer that records what it is given as a tree and checks every announced length
    use serde::ser::{self, Serialize};
    use std::cell::RefCell;

    #[derive(Debug, Clone, PartialEq)]
    pub enum T {
        Null,
        Bool(bool),
        I64(i64),
        U64(u64),
        F64(u64),
        Str(String),
        Seq(Option<usize>, Vec<T>),
        Map(Option<usize>, Vec<(T, T)>),
        Struct(Vec<(String, T)>),
        Other(String),
    }

    thread_local! {
        pub static LEN_VIOLATIONS: RefCell<Vec<String>> = RefCell::new(vec![]);
        pub static ANNOUNCED: RefCell<(u64, u64)> = RefCell::new((0, 0)); // (containers with Some(len), with None)
    }
    fn note(announced: Option<usize>) {
        ANNOUNCED.with(|a| {
            let mut a = a.borrow_mut();
            if announced.is_some() {
                a.0 += 1
            } else {
                a.1 += 1
            }
        });
    }
    fn check(kind: &str, announced: Option<usize>, got: usize) {
        if let Some(n) = announced {
            if n != got {
                LEN_VIOLATIONS.with(|v| v.borrow_mut().push(format!("{} announced {} entries, received {}", kind, n, got)));
            }
        }
    }

    #[derive(Debug)]
    pub struct E(pub String);
    impl std::fmt::Display for E {
        fn fmt(&self, f: &mut std::fmt::Formatter<'_>) -> std::fmt::Result {
            write!(f, "{}", self.0)
        }
    }
    impl std::error::Error for E {}
    impl ser::Error for E {
        fn custom<M: std::fmt::Display>(m: M) -> Self {
            E(m.to_string())
        }
    }

    pub struct S;
    pub struct SeqS(Option<usize>, Vec<T>, &'static str);
    pub struct MapS(Option<usize>, Vec<(T, T)>, Option<T>);
    pub struct StructS(usize, Vec<(String, T)>);

    pub fn to_tree<V: Serialize + ?Sized>(v: &V) -> Result<T, E> {
        v.serialize(S)
    }

    impl ser::Serializer for S {
        type Ok = T;
        type Error = E;
        type SerializeSeq = SeqS;
        type SerializeTuple = SeqS;
        type SerializeTupleStruct = SeqS;
        type SerializeTupleVariant = SeqS;
        type SerializeMap = MapS;
        type SerializeStruct = StructS;
        type SerializeStructVariant = StructS;
        fn serialize_bool(self, v: bool) -> Result<T, E> { Ok(T::Bool(v)) }
        fn serialize_i8(self, v: i8) -> Result<T, E> { Ok(T::I64(v as i64)) }
        fn serialize_i16(self, v: i16) -> Result<T, E> { Ok(T::I64(v as i64)) }
        fn serialize_i32(self, v: i32) -> Result<T, E> { Ok(T::I64(v as i64)) }
        fn serialize_i64(self, v: i64) -> Result<T, E> { Ok(T::I64(v)) }
        fn serialize_u8(self, v: u8) -> Result<T, E> { Ok(T::U64(v as u64)) }
        fn serialize_u16(self, v: u16) -> Result<T, E> { Ok(T::U64(v as u64)) }
        fn serialize_u32(self, v: u32) -> Result<T, E> { Ok(T::U64(v as u64)) }
        fn serialize_u64(self, v: u64) -> Result<T, E> { Ok(T::U64(v)) }
        fn serialize_f32(self, v: f32) -> Result<T, E> { Ok(T::F64((v as f64).to_bits())) }
        fn serialize_f64(self, v: f64) -> Result<T, E> { Ok(T::F64(v.to_bits())) }
        fn serialize_char(self, v: char) -> Result<T, E> { Ok(T::Str(v.to_string())) }
        fn serialize_str(self, v: &str) -> Result<T, E> { Ok(T::Str(v.to_string())) }
        fn serialize_bytes(self, v: &[u8]) -> Result<T, E> { Ok(T::Seq(Some(v.len()), v.iter().map(|b| T::U64(*b as u64)).collect())) }
        fn serialize_none(self) -> Result<T, E> { Ok(T::Null) }
        fn serialize_some<V: Serialize + ?Sized>(self, v: &V) -> Result<T, E> { v.serialize(S) }
        fn serialize_unit(self) -> Result<T, E> { Ok(T::Null) }
        fn serialize_unit_struct(self, _n: &'static str) -> Result<T, E> { Ok(T::Null) }
        fn serialize_unit_variant(self, _n: &'static str, _i: u32, v: &'static str) -> Result<T, E> { Ok(T::Other(format!("unit-variant {}", v))) }
        fn serialize_newtype_struct<V: Serialize + ?Sized>(self, _n: &'static str, v: &V) -> Result<T, E> { v.serialize(S) }
        fn serialize_newtype_variant<V: Serialize + ?Sized>(self, _n: &'static str, _i: u32, var: &'static str, v: &V) -> Result<T, E> {
            Ok(T::Struct(vec![(var.to_string(), v.serialize(S)?)]))
        }
        fn serialize_seq(self, len: Option<usize>) -> Result<SeqS, E> { note(len); Ok(SeqS(len, vec![], "sequence")) }
        fn serialize_tuple(self, len: usize) -> Result<SeqS, E> { Ok(SeqS(Some(len), vec![], "tuple")) }
        fn serialize_tuple_struct(self, _n: &'static str, len: usize) -> Result<SeqS, E> { Ok(SeqS(Some(len), vec![], "tuple struct")) }
        fn serialize_tuple_variant(self, _n: &'static str, _i: u32, _v: &'static str, len: usize) -> Result<SeqS, E> { Ok(SeqS(Some(len), vec![], "tuple variant")) }
        fn serialize_map(self, len: Option<usize>) -> Result<MapS, E> { note(len); Ok(MapS(len, vec![], None)) }
        fn serialize_struct(self, _n: &'static str, len: usize) -> Result<StructS, E> { Ok(StructS(len, vec![])) }
        fn serialize_struct_variant(self, _n: &'static str, _i: u32, _v: &'static str, len: usize) -> Result<StructS, E> { Ok(StructS(len, vec![])) }
    }
    impl ser::SerializeSeq for SeqS {
        type Ok = T;
        type Error = E;
        fn serialize_element<V: Serialize + ?Sized>(&mut self, v: &V) -> Result<(), E> { self.1.push(v.serialize(S)?); Ok(()) }
        fn end(self) -> Result<T, E> { check(self.2, self.0, self.1.len()); Ok(T::Seq(self.0, self.1)) }
    }
    impl ser::SerializeTuple for SeqS {
        type Ok = T;
        type Error = E;
        fn serialize_element<V: Serialize + ?Sized>(&mut self, v: &V) -> Result<(), E> { self.1.push(v.serialize(S)?); Ok(()) }
        fn end(self) -> Result<T, E> { check(self.2, self.0, self.1.len()); Ok(T::Seq(self.0, self.1)) }
    }
    impl ser::SerializeTupleStruct for SeqS {
        type Ok = T;
        type Error = E;
        fn serialize_field<V: Serialize + ?Sized>(&mut self, v: &V) -> Result<(), E> { self.1.push(v.serialize(S)?); Ok(()) }
        fn end(self) -> Result<T, E> { check(self.2, self.0, self.1.len()); Ok(T::Seq(self.0, self.1)) }
    }
    impl ser::SerializeTupleVariant for SeqS {
        type Ok = T;
        type Error = E;
        fn serialize_field<V: Serialize + ?Sized>(&mut self, v: &V) -> Result<(), E> { self.1.push(v.serialize(S)?); Ok(()) }
        fn end(self) -> Result<T, E> { check(self.2, self.0, self.1.len()); Ok(T::Seq(self.0, self.1)) }
    }
    impl ser::SerializeMap for MapS {
        type Ok = T;
        type Error = E;
        fn serialize_key<V: Serialize + ?Sized>(&mut self, k: &V) -> Result<(), E> { self.2 = Some(k.serialize(S)?); Ok(()) }
        fn serialize_value<V: Serialize + ?Sized>(&mut self, v: &V) -> Result<(), E> {
            let k = self.2.take().ok_or_else(|| E("value without key".into()))?;
            self.1.push((k, v.serialize(S)?));
            Ok(())
        }
        fn end(self) -> Result<T, E> { check("map", self.0, self.1.len()); Ok(T::Map(self.0, self.1)) }
    }
    impl ser::SerializeStruct for StructS {
        type Ok = T;
        type Error = E;
        fn serialize_field<V: Serialize + ?Sized>(&mut self, k: &'static str, v: &V) -> Result<(), E> { self.1.push((k.to_string(), v.serialize(S)?)); Ok(()) }
        fn end(self) -> Result<T, E> { check("struct", Some(self.0), self.1.len()); Ok(T::Struct(self.1)) }
    }
    impl ser::SerializeStructVariant for StructS {
        type Ok = T;
        type Error = E;
        fn serialize_field<V: Serialize + ?Sized>(&mut self, k: &'static str, v: &V) -> Result<(), E> { self.1.push((k.to_string(), v.serialize(S)?)); Ok(()) }
        fn end(self) -> Result<T, E> { check("struct", Some(self.0), self.1.len()); Ok(T::Struct(self.1)) }
    }
}
use tser::T;

/// the current state as the tree the export has to produce: winners only (greatest op id), text as a string,
/// counters and timestamps as integers, bytes as a sequence of numbers
fn expected_tree<D: ReadDoc>(doc: &D, obj: &ObjId, ty: ObjType, depth: usize) -> Result<T, String> {
    if depth > 40 {
        return Err("too deep".into());
    }
    let val = |v: &Value<'_>, id: &ObjId| -> Result<T, String> {
        match v {
            Value::Object(t) => expected_tree(doc, id, *t, depth + 1),
            Value::Scalar(s) => Ok(match s.as_ref() {
                ScalarValue::Null => T::Null,
                ScalarValue::Boolean(b) => T::Bool(*b),
                ScalarValue::Int(i) => T::I64(*i),
                ScalarValue::Uint(u) => T::U64(*u),
                ScalarValue::F64(f) => T::F64(f.to_bits()),
                ScalarValue::Str(s) => T::Str(s.to_string()),
                ScalarValue::Bytes(b) => T::Seq(Some(b.len()), b.iter().map(|x| T::U64(*x as u64)).collect()),
                ScalarValue::Counter(c) => T::I64(i64::from(c)),
                ScalarValue::Timestamp(t) => T::I64(*t),
                ScalarValue::Unknown { type_code, bytes } => T::Struct(vec![
                    ("type_code".into(), T::U64(*type_code as u64)),
                    ("bytes".into(), T::Seq(Some(bytes.len()), bytes.iter().map(|x| T::U64(*x as u64)).collect())),
                ]),
            }),
        }
    };
    match ty {
        ObjType::Text => doc.text(obj).map(T::Str).map_err(|e| e.to_string()),
        ObjType::List => {
            let mut items = vec![];
            for i in 0..doc.length(obj) {
                let vals = doc.get_all(obj, i).map_err(|e| e.to_string())?;
                let (v, id) = vals.iter().max_by_key(|x| exid_key(&x.1)).ok_or("empty register below length")?;
                items.push(val(v, id)?);
            }
            Ok(T::Seq(None, items))
        }
        ObjType::Map | ObjType::Table => {
            let mut ents = vec![];
            for k in doc.keys(obj) {
                let vals = doc.get_all(obj, k.as_str()).map_err(|e| e.to_string())?;
                let (v, id) = vals.iter().max_by_key(|x| exid_key(&x.1)).ok_or("key without value")?;
                ents.push((T::Str(k.clone()), val(v, id)?));
            }
            Ok(T::Map(Some(ents.len()), ents))
        }
    }
}

fn coq_jt(t: &T) -> Option<String> {
    let ann = |a: &Option<usize>| match a {
        Some(n) => format!("(Some {}%nat)", n),
        None => "None".to_string(),
    };
    Some(match t {
        T::Null => "JNull".into(),
        T::Bool(b) => format!("(JBool {})", coq_bool(*b)),
        T::I64(i) => format!("(JI64 {})", coq_z(*i as i128)),
        T::U64(u) => format!("(JU64 {})", u),
        T::F64(b) => format!("(JF64 {})", b),
        T::Str(s) => format!("(JStr {})", coq_str(s)),
        T::Seq(a, v) => format!("(JSeq {} {})", ann(a), coq_list(&v.iter().map(coq_jt).collect::<Option<Vec<_>>>()?)),
        T::Map(a, m) => {
            let mut items = vec![];
            for (k, v) in m {
                match k {
                    T::Str(k) => items.push(format!("({},{})", coq_str(k), coq_jt(v)?)),
                    _ => return None,
                }
            }
            format!("(JMap {} {})", ann(a), coq_list(&items))
        }
        T::Struct(f) => match f.as_slice() {
            [(a, T::U64(t)), (b, T::Seq(_, bytes))] if a == "type_code" && b == "bytes" => {
                let bs: Option<Vec<u128>> = bytes.iter().map(|x| match x { T::U64(u) => Some(*u as u128), _ => None }).collect();
                format!("(JUnknown {} {})", t, coq_nlist(bs?))
            }
            _ => return None,
        },
        T::Other(_) => return None,
    })
}

fn tree_to_json(t: &T) -> serde_json::Value {
    match t {
        T::Null => serde_json::Value::Null,
        T::Bool(b) => json!(b),
        T::I64(i) => json!(i),
        T::U64(u) => json!(u),
        T::F64(b) => serde_json::Number::from_f64(f64::from_bits(*b)).map(serde_json::Value::Number).unwrap_or(serde_json::Value::Null),
        T::Str(s) => json!(s),
        T::Seq(_, v) => serde_json::Value::Array(v.iter().map(tree_to_json).collect()),
        T::Map(_, m) => serde_json::Value::Object(m.iter().map(|(k, v)| (match k { T::Str(s) => s.clone(), o => format!("{:?}", o) }, tree_to_json(v))).collect()),
        T::Struct(m) => serde_json::Value::Object(m.iter().map(|(k, v)| (k.clone(), tree_to_json(v))).collect()),
        T::Other(s) => json!(s),
    }
}

/// JSON values compared by kind and value (floats by bit pattern)
fn json_same(a: &serde_json::Value, b: &serde_json::Value) -> bool {
    use serde_json::Value as J;
    match (a, b) {
        (J::Null, J::Null) => true,
        (J::Bool(x), J::Bool(y)) => x == y,
        (J::String(x), J::String(y)) => x == y,
        (J::Number(x), J::Number(y)) => {
            if x.is_i64() || y.is_i64() {
                x.is_i64() && y.is_i64() && x.as_i64() == y.as_i64()
            } else if x.is_u64() || y.is_u64() {
                x.is_u64() && y.is_u64() && x.as_u64() == y.as_u64()
            } else {
                x.as_f64().map(f64::to_bits) == y.as_f64().map(f64::to_bits)
            }
        }
        (J::Array(x), J::Array(y)) => x.len() == y.len() && x.iter().zip(y.iter()).all(|(p, q)| json_same(p, q)),
        (J::Object(x), J::Object(y)) => x.len() == y.len() && x.iter().all(|(k, v)| y.get(k).map(|w| json_same(v, w)).unwrap_or(false)),
        _ => false,
    }
}

fn serde_case(rng: &mut Rng, rep: &mut Report, cw: &mut CaseWriter, grp: &mut Group, model: bool, pi: usize, enc: TextEncoding, thorough: bool) {
    // the string-heavy multi-replica documents of the migration stream, plus values of every scalar kind
    let d = mig_document(rng, enc, thorough, false);
    let mut doc = match load_plain(&d.bytes, enc) {
        Ok(x) => x,
        Err(_) => return,
    };
    {
        let mut tx = doc.transaction();
        let m = tx.put_object(ROOT, "kinds", ObjType::Map).unwrap();
        for (i, v) in [
            ScalarValue::Bytes(rng.bytes(3)), ScalarValue::counter(7), ScalarValue::Timestamp(-5), ScalarValue::Uint(u64::MAX),
            ScalarValue::Int(i64::MIN), ScalarValue::F64(f64::from_bits(0x400921fb54442d18)), ScalarValue::Null, ScalarValue::Boolean(true),
        ].into_iter().enumerate() {
            tx.put(&m, format!("k{}", i), v).unwrap();
        }
        let l = tx.put_object(&m, "nested", ObjType::List).unwrap();
        let inner = tx.insert_object(&l, 0, ObjType::Map).unwrap();
        tx.put(&inner, "deep", "x").unwrap();
        tx.insert(&l, 1, ScalarValue::Bytes(vec![])).unwrap();
        tx.commit();
    }
    let replay = json!({"stream": "serde", "program": pi, "encoding": enc_name(enc), "log": d.log, "doc_hex": hex(&doc.save())});
    rep.count("serde:documents");
    let want = match expected_tree(&doc, &ROOT, ObjType::Map, 0) {
        Ok(t) => t,
        Err(e) => {
            rep.fail(&["C32"], "recon|serde|read-failed", &e, replay);
            return;
        }
    };
    tser::LEN_VIOLATIONS.with(|v| v.borrow_mut().clear());
    let got = match guard(|| tser::to_tree(&automerge::AutoSerde::from(&doc))) {
        Ok(Ok(t)) => t,
        Ok(Err(e)) => {
            rep.fail(&["C32"], "recon|serde|serialize-error", &e.0, replay);
            return;
        }
        Err(p) => {
            rep.fail(&["C32", "C37"], &format!("panic|recon|serde|{}", p.signature()), &format!("serializing AutoSerde panicked: {} at {}", p.message, p.location), replay);
            return;
        }
    };
    let viol: Vec<String> = tser::LEN_VIOLATIONS.with(|v| v.borrow().clone());
    if !viol.is_empty() {
        rep.fail(&["C32"], "recon|serde|announced-length", &format!("a container announced a wrong length: {}", viol.join("; ")), replay.clone());
    }
    if got != want {
        rep.fail(&["C32"], "recon|serde|tree-differs", &format!("AutoSerde produced {:?} , the current state is {:?}", got, want).chars().take(1500).collect::<String>(), replay.clone());
    }
    match guard(|| serde_json::to_value(automerge::AutoSerde::from(&doc))) {
        Ok(Ok(j)) => {
            if !json_same(&j, &tree_to_json(&want)) {
                rep.fail(&["C32"], "recon|serde|json-differs", &format!("serde_json export {} , expected {}", j, tree_to_json(&want)).chars().take(1500).collect::<String>(), replay.clone());
            }
        }
        Ok(Err(e)) => rep.fail(&["C32"], "recon|serde|json-error", &e.to_string(), replay.clone()),
        Err(p) => rep.fail(&["C32", "C37"], &format!("panic|recon|serde|json|{}", p.signature()), &p.message, replay.clone()),
    }
    // the same through AutoCommit (another ReadDoc)
    {
        let ac = AutoCommit::load_with_options(&doc.save(), LoadOptions::new().text_encoding(enc));
        if let Ok(ac) = ac {
            if let Ok(Ok(t)) = guard(|| tser::to_tree(&automerge::AutoSerde::from(&ac))) {
                if t != want {
                    rep.fail(&["C32"], "recon|serde|autocommit-differs", "AutoSerde over AutoCommit differs from the current state", replay.clone());
                }
            }
        }
    }
    fn count(t: &T, maps: &mut u64, seqs: &mut u64) {
        match t {
            T::Map(_, m) => {
                *maps += 1;
                m.iter().for_each(|(_, v)| count(v, maps, seqs))
            }
            T::Seq(_, s) => {
                *seqs += 1;
                s.iter().for_each(|v| count(v, maps, seqs))
            }
            T::Struct(m) => m.iter().for_each(|(_, v)| count(v, maps, seqs)),
            _ => {}
        }
    }
    let (mut m, mut q) = (0, 0);
    count(&want, &mut m, &mut q);
    rep.add("serde:maps", m);
    rep.add("serde:sequences", q);
    rep.case(if m >= 3 { Some(fnv(format!("{:?}", want).as_bytes())) } else { None });
    if pi < 1 {
        rep.sample(json!({"stream": "serde", "tree": format!("{:?}", want).chars().take(400).collect::<String>()}));
    }
    // model case: the tree the serializer received against the model's rendering of the document's ops
    if model {
        if let Some(lit) = coq_jt(&got) {
            let changes = doc.get_changes(&[]);
            let mut defs = vec![];
            let mut names = vec![];
            for (i, c) in changes.iter().enumerate() {
                defs.push(format!("Definition s{}_ch{} : change := {}.", pi, i, coq_change_small(c, i)));
                names.push(format!("s{}_ch{}", pi, i));
            }
            let term = format!("chk_render {} {}", coq_list(&names), lit);
            grp.add(cw, defs, vec![(term, json!({"kind": "render", "props": ["C32"], "program": pi, "log": replay["log"], "doc_hex": replay["doc_hex"]}))]);
            rep.model_cases += 1;
        }
    }
}

// ------------------------------------------------------------------ C33: CLI JSON import / export
fn cli_binary(rep: &mut Report) -> Option<std::path::PathBuf> {
    // $W/target/debug/amv -> $W/target/cli
    let exe = std::env::current_exe().ok()?;
    let target = exe.parent()?.parent()?.to_path_buf();
    let dir = target.join("cli");
    let out = std::process::Command::new("cargo")
        .args(["build", "--offline", "-p", "automerge-cli", "--manifest-path", "/repo/rust/Cargo.toml", "--target-dir"])
        .arg(&dir)
        .env("CARGO_NET_OFFLINE", "true")
        .env_remove("RUSTFLAGS")
        .env_remove("CARGO_TARGET_DIR")
        .output();
    let bin = dir.join("debug").join("automerge");
    match out {
        Ok(o) if o.status.success() && bin.exists() => Some(bin),
        Ok(o) => {
            rep.fail(&["C33"], "recon|cli|build-failed", &String::from_utf8_lossy(&o.stderr).chars().rev().take(600).collect::<String>().chars().rev().collect::<String>(), json!({}));
            None
        }
        Err(e) => {
            rep.fail(&["C33"], "recon|cli|build-failed", &e.to_string(), json!({}));
            None
        }
    }
}

fn run_cli(bin: &std::path::Path, cmd: &str, input: &[u8]) -> Result<Vec<u8>, String> {
    use std::io::Write;
    let mut child = std::process::Command::new(bin)
        .arg(cmd)
        .stdin(std::process::Stdio::piped())
        .stdout(std::process::Stdio::piped())
        .stderr(std::process::Stdio::piped())
        .spawn()
        .map_err(|e| e.to_string())?;
    {
        let mut stdin = child.stdin.take().ok_or("no stdin")?;
        stdin.write_all(input).map_err(|e| e.to_string())?;
    }
    let out = child.wait_with_output().map_err(|e| e.to_string())?;
    if !out.status.success() {
        let err = String::from_utf8_lossy(&out.stderr);
        let line = err.lines().find(|l| l.contains("panicked") || l.contains("Error")).unwrap_or("").to_string();
        return Err(format!("`automerge {}` exited with {:?}: {}", cmd, out.status.code(), line.chars().take(300).collect::<String>()));
    }
    Ok(out.stdout)
}

const JSTRS: [&str; 10] = ["", "x", "hello world", "\u{e9}", "\u{6f22}\u{5b57}", "\u{1F600}", "e\u{301}", "quote\" back\\ slash/ \n\t", "\u{0}\u{1f}", "a\u{1F468}\u{200D}\u{1F469}b"];

fn gen_number(rng: &mut Rng) -> (serde_json::Value, &'static str) {
    match rng.below(10) {
        0 => (json!(*rng.pick(&[0i64, 1, -1, 42, i64::MAX, i64::MIN, i64::MAX - 1, i64::MIN + 1, 1 << 53, -(1 << 53)])), "i64-edge"),
        1 => (json!(rng.next() as i64), "i64-random"),
        2 => (json!(*rng.pick(&[u64::MAX, u64::MAX - 1, (i64::MAX as u64) + 1, 1u64 << 63])), "u64-above-i64"),
        3 => (json!(rng.next() | (1u64 << 63)), "u64-above-i64"),
        4 | 5 | 6 => loop {
            let f = f64::from_bits(rng.next());
            if f.is_finite() {
                break (json!(f), "f64-random-bits");
            }
        },
        7 => (json!(*rng.pick(&[0.0f64, -0.0, 1.5, 0.1, 1e300, 5e-324, f64::MAX, f64::MIN_POSITIVE, 1e22, 1e23, 9007199254740993.0, 0.3])), "f64-edge"),
        8 => (json!((rng.below(2000) as f64 - 1000.0) / 8.0), "f64-small"),
        _ => (json!(rng.below(100) as i64 - 50), "i64-small"),
    }
}

fn gen_json(rng: &mut Rng, depth: usize, rep: &mut Report) -> serde_json::Value {
    let k = if depth == 0 { rng.below(5) } else { rng.below(9) };
    match k {
        0 => serde_json::Value::Null,
        1 => json!(rng.chance(1, 2)),
        2 | 3 => {
            let (v, kind) = gen_number(rng);
            rep.count(&format!("cli:number:{}", kind));
            v
        }
        4 => json!(*rng.pick(&JSTRS)),
        5 | 6 => {
            let n = rng.below(4);
            serde_json::Value::Array((0..n).map(|_| gen_json(rng, depth - 1, rep)).collect())
        }
        _ => gen_json_obj(rng, depth - 1, rep),
    }
}

fn gen_json_obj(rng: &mut Rng, depth: usize, rep: &mut Report) -> serde_json::Value {
    let n = rng.below(5);
    let mut m = serde_json::Map::new();
    for _ in 0..n {
        let key = match rng.below(8) {
            0 => rng.pick(&JSTRS).to_string(),
            _ => rng.pick(&gen::KEYS).to_string(),
        };
        m.insert(key, gen_json(rng, depth, rep));
    }
    serde_json::Value::Object(m)
}

fn cli_stream(rng: &mut Rng, rep: &mut Report, thorough: bool) {
    let bin = match cli_binary(rep) {
        Some(b) => b,
        None => return,
    };
    let n = if thorough { 300 } else { 80 };
    for pi in 0..n {
        let j = gen_json_obj(rng, 4, rep);
        let text = serde_json::to_string(&j).unwrap();
        let replay = json!({"stream": "cli", "program": pi, "json": text});
        rep.count("cli:documents");
        let bytes = match run_cli(&bin, "import", text.as_bytes()) {
            Ok(b) => b,
            Err(e) => {
                rep.fail(&["C33"], &format!("recon|cli|import-failed|{}", if e.contains("panicked") { "panic" } else { "error" }), &e, replay);
                continue;
            }
        };
        let out = match run_cli(&bin, "export", &bytes) {
            Ok(b) => b,
            Err(e) => {
                rep.fail(&["C33"], &format!("recon|cli|export-failed|{}", if e.contains("panicked") { "panic" } else { "error" }), &e, replay);
                continue;
            }
        };
        let back: serde_json::Value = match serde_json::from_slice(&out) {
            Ok(v) => v,
            Err(e) => {
                rep.fail(&["C33"], "recon|cli|export-not-json", &e.to_string(), replay);
                continue;
            }
        };
        if !json_same(&j, &back) {
            // what kind of value differs
            fn first_diff(a: &serde_json::Value, b: &serde_json::Value, path: String) -> Option<(String, String)> {
                use serde_json::Value as J;
                match (a, b) {
                    (J::Array(x), J::Array(y)) if x.len() == y.len() => x.iter().zip(y.iter()).enumerate().find_map(|(i, (p, q))| first_diff(p, q, format!("{}[{}]", path, i))),
                    (J::Object(x), J::Object(y)) if x.len() == y.len() && x.keys().all(|k| y.contains_key(k)) => x.iter().find_map(|(k, v)| first_diff(v, &y[k], format!("{}.{:?}", path, k))),
                    _ if json_same(a, b) => None,
                    (J::Number(x), J::Number(_)) => Some((if x.is_f64() { "float".into() } else { "integer".into() }, format!("{}: {} -> {}", path, a, b))),
                    _ => Some(("structure".into(), format!("{}: {} -> {}", path, a, b).chars().take(300).collect())),
                }
            }
            let (kind, what) = first_diff(&j, &back, "$".into()).unwrap_or(("?".into(), "?".into()));
            rep.fail(&["C33"], &format!("recon|cli|roundtrip-differs|{}", kind), &format!("import | export changed the value at {}", what), replay);
        }
        // the saved document, read back by the library, exports the same value (C32 on CLI-made documents)
        if let Ok(doc) = Automerge::load(&bytes) {
            if let Ok(Ok(v)) = guard(|| serde_json::to_value(automerge::AutoSerde::from(&doc))) {
                if !json_same(&v, &back) {
                    rep.fail(&["C33", "C32"], "recon|cli|library-export-differs", "the library's AutoSerde export of the imported document differs from `automerge export`", json!({"program": pi, "json": text}));
                }
            }
        }
        fn depth(v: &serde_json::Value) -> usize {
            match v {
                serde_json::Value::Array(a) => 1 + a.iter().map(depth).max().unwrap_or(0),
                serde_json::Value::Object(o) => 1 + o.values().map(depth).max().unwrap_or(0),
                _ => 0,
            }
        }
        rep.case(if depth(&j) >= 2 { Some(fnv(text.as_bytes())) } else { None });
        if pi < 1 {
            rep.sample(json!({"stream": "cli", "json": text.chars().take(300).collect::<String>()}));
        }
    }
}

// ------------------------------------------------------------------ entry
pub fn run(rng: &mut Rng, tier: &str, out: &str) -> Report {
    let thorough = tier == "thorough";
    let mut rep = Report::new("recon");
    let mut cw = CaseWriter::new(out, "recon", HEADER, 1);
    let encs = [TextEncoding::UnicodeCodePoint, TextEncoding::Utf8CodeUnit, TextEncoding::Utf16CodeUnit, TextEncoding::GraphemeCluster];
    // ---- C40
    {
        let mut r = rng.fork();
        let n = if thorough { 320 } else { 64 };
        let mut grp = Group::new(if thorough { 12 } else { 6 });
        for pi in 0..n {
            let enc = encs[pi % 4];
            mig_case(&mut r, &mut rep, &mut cw, &mut grp, pi, enc, thorough);
        }
        grp.flush(&mut cw);
        // hand-built: the only string sits in a map that was deleted from the root
        {
            let mut d = AutoCommit::new().with_actor(ActorId::from(vec![7u8]));
            let m = d.put_object(ROOT, "m", ObjType::Map).unwrap();
            d.put(&m, "s", "x").unwrap();
            d.delete(ROOT, "m").unwrap();
            d.commit();
            let bytes = d.save();
            if let (Ok(p), Ok(g)) = (load_plain(&bytes, TextEncoding::UnicodeCodePoint), load_migrating(&bytes, TextEncoding::UnicodeCodePoint)) {
                let added = g.get_changes(&[]).len() - p.get_changes(&[]).len();
                rep.add("mig:probe_deleted_parent:changes_added", added as u64);
                let still = matches!(g.get(&m, "s"), Ok(Some((Value::Scalar(_), _))));
                if still {
                    rep.fail(&["C40"], "recon|mig|string-left|deleted-parent", "a string inside a deleted map is still a string scalar after the migrating load", json!({"probe": "deleted-parent"}));
                }
            }
        }
    }
    // ---- C27
    {
        let mut r = rng.fork();
        let n = if thorough { 1600 } else { 240 };
        let mut cases: Vec<(String, serde_json::Value)> = vec![];
        for pi in 0..n {
            upd_text_case(&mut r, &mut rep, &mut cases, pi, encs[pi % 4]);
            if cases.len() >= 120 {
                cw.push_group(&[], std::mem::take(&mut cases));
            }
        }
        cw.push_group(&[], std::mem::take(&mut cases));
        spans_probes(&mut rep);
        let n = if thorough { 600 } else { 120 };
        for pi in 0..n {
            upd_object_case(&mut r, &mut rep, pi, encs[pi % 4], thorough);
            bulk_case(&mut r, &mut rep, pi, encs[pi % 4], thorough);
            upd_spans_case(&mut r, &mut rep, pi, encs[pi % 4]);
        }
    }
    // ---- C32
    {
        let mut r = rng.fork();
        let n = if thorough { 300 } else { 60 };
        let mut grp = Group::new(if thorough { 10 } else { 6 });
        let nmodel = if thorough { 120 } else { 24 };
        for pi in 0..n {
            serde_case(&mut r, &mut rep, &mut cw, &mut grp, pi < nmodel, pi, encs[pi % 4], thorough);
        }
        grp.flush(&mut cw);
        let (some, none) = tser::ANNOUNCED.with(|a| *a.borrow());
        rep.add("serde:containers_announcing_a_length", some);
        rep.add("serde:containers_without_length", none);
    }
    // ---- C33
    {
        let mut r = rng.fork();
        cli_stream(&mut r, &mut rep, thorough);
    }
    cw.finish();
    rep
}
