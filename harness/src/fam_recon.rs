// Family "recon": string migration on load (C40), reconciliation and bulk construction (C27),
// serde export (C32), CLI JSON import / export (C33).  One family, four sub-streams; every failure and
// every model case is tagged with the property it belongs to.
//
// mig  (C40): documents with strings in maps, lists, nested and deleted objects, conflicted registers
//             (string / string, string / int, string / object, string / counter), deleted strings, text objects;
//             saved, loaded plainly and loaded with StringMigration::ConvertToText.  Direct: the property
//             itself, register by register.  Model: chk_migrate (Crdt/Migrate.v) — the ops of the added
//             change and the observation after it.
use crate::gen;
use crate::model::{coq_actor, coq_objid, coq_objtype, coq_op, coq_scalar, coq_str, object_ids};
use crate::util::*;
use automerge::transaction::Transactable;
use automerge::{
    ActorId, AutoCommit, Automerge, Change, LoadOptions, ObjId, ObjType, ReadDoc, ScalarValue, StringMigration, TextEncoding, Value, ROOT,
};
use serde_json::json;
use unicode_segmentation::UnicodeSegmentation;

const HEADER: &str = "From AM Require Import Base.Prelude Base.Order Crdt.Types Crdt.Interp Crdt.Local Crdt.Migrate Exec.EditExec Exec.ReconExec.\nLocal Open Scope N_scope.\n";

// ------------------------------------------------------------------ shared helpers
pub fn enc_width(enc: TextEncoding, s: &str) -> usize {
    match enc {
        TextEncoding::UnicodeCodePoint => s.chars().count(),
        TextEncoding::Utf8CodeUnit => s.len(),
        TextEncoding::Utf16CodeUnit => s.encode_utf16().count(),
        TextEncoding::GraphemeCluster => s.graphemes(true).count(),
    }
}

fn enc_name(e: TextEncoding) -> &'static str {
    match e {
        TextEncoding::UnicodeCodePoint => "codepoint",
        TextEncoding::Utf8CodeUnit => "utf8",
        TextEncoding::Utf16CodeUnit => "utf16",
        TextEncoding::GraphemeCluster => "grapheme",
    }
}

fn coq_enc(enc: TextEncoding) -> &'static str {
    match enc {
        TextEncoding::UnicodeCodePoint => "EncCP",
        TextEncoding::Utf8CodeUnit => "EncU8",
        TextEncoding::Utf16CodeUnit => "EncU16",
        TextEncoding::GraphemeCluster => "EncCP",
    }
}

fn exid_key(id: &ObjId) -> (u64, Vec<u8>) {
    match id {
        ObjId::Root => (0, vec![]),
        ObjId::Id(c, a, _) => (*c, a.to_bytes().to_vec()),
    }
}

fn coq_vobs(v: &Value<'_>) -> String {
    match v {
        Value::Object(t) => format!("(VO {})", coq_objtype(*t)),
        Value::Scalar(s) => match s.as_ref() {
            ScalarValue::Counter(c) => format!("(VC {})", coq_z(i64::from(c) as i128)),
            other => format!("(VS {})", coq_scalar(other)),
        },
    }
}

fn coq_register(vals: &[(Value<'_>, ObjId)]) -> String {
    let mut vals: Vec<&(Value<'_>, ObjId)> = vals.iter().collect();
    vals.sort_by(|a, b| exid_key(&a.1).cmp(&exid_key(&b.1)));
    let items: Vec<String> = vals.iter().map(|(v, id)| format!("({},{})", coq_objid(id), coq_vobs(v))).collect();
    coq_list(&items)
}

/// width of a text element whose register is `vals` (the value with the greatest id wins)
fn reg_width(enc: TextEncoding, vals: &[(Value<'_>, ObjId)]) -> usize {
    let w = vals.iter().max_by_key(|x| exid_key(&x.1));
    match w {
        Some((Value::Scalar(s), _)) => match s.as_ref() {
            ScalarValue::Str(s) => enc_width(enc, s),
            _ => enc_width(enc, "\u{fffc}"),
        },
        Some(_) => enc_width(enc, "\u{fffc}"),
        None => 0,
    }
}

/// the registers of one object: (key or element number, values ascending by id); sequences are walked
/// element by element (an element of a text spans `width` index units)
#[derive(Clone, Debug, PartialEq)]
enum RKey {
    K(String),
    I(usize), // index passed to get_all
}
type Reg = Vec<(String, ObjId)>; // (rendered value, id) ascending by id

fn render_value(v: &Value<'_>) -> String {
    match v {
        Value::Object(t) => format!("obj:{:?}", t),
        Value::Scalar(s) => match s.as_ref() {
            ScalarValue::F64(f) => format!("f64:{}", f.to_bits()),
            other => format!("{:?}", other),
        },
    }
}

struct ObjRegs {
    ty: ObjType,
    regs: Vec<(RKey, Vec<(Value<'static>, ObjId)>)>,
}

fn read_obj<D: ReadDoc>(doc: &D, id: &ObjId, enc: TextEncoding) -> Result<Option<ObjRegs>, String> {
    let ty = match doc.object_type(id) {
        Ok(t) => t,
        Err(_) => return Ok(None),
    };
    let mut regs = vec![];
    if ty.is_sequence() {
        let len = doc.length(id);
        let mut i = 0usize;
        while i < len {
            let vals = doc.get_all(id, i).map_err(|e| format!("get_all({:?},{}) failed: {}", id, i, e))?;
            if vals.is_empty() {
                return Err(format!("get_all({:?},{}) is empty below length {}", id, i, len));
            }
            let w = if ty == ObjType::Text { reg_width(enc, &vals) } else { 1 };
            if w == 0 {
                return Err(format!("get_all({:?},{}) returned a zero-width element", id, i));
            }
            let mut vals: Vec<(Value<'static>, ObjId)> = vals.into_iter().map(|(v, i)| (v.into_owned(), i)).collect();
            vals.sort_by(|a, b| exid_key(&a.1).cmp(&exid_key(&b.1)));
            regs.push((RKey::I(i), vals));
            i += w;
        }
        if i != len {
            return Err(format!("walking {:?} by element widths ends at {} but length is {}", id, i, len));
        }
    } else {
        let keys: Vec<String> = doc.keys(id).collect();
        for k in keys {
            let vals = doc.get_all(id, k.as_str()).map_err(|e| format!("get_all({:?},{:?}) failed: {}", id, k, e))?;
            let mut vals: Vec<(Value<'static>, ObjId)> = vals.into_iter().map(|(v, i)| (v.into_owned(), i)).collect();
            vals.sort_by(|a, b| exid_key(&a.1).cmp(&exid_key(&b.1)));
            regs.push((RKey::K(k), vals));
        }
    }
    Ok(Some(ObjRegs { ty, regs }))
}

fn coq_obj(id: &ObjId, o: &ObjRegs) -> String {
    let entries = if o.ty.is_sequence() {
        format!("(EL {})", coq_list(&o.regs.iter().map(|(_, v)| coq_register(v)).collect::<Vec<_>>()))
    } else {
        format!(
            "(EM {})",
            coq_list(
                &o.regs
                    .iter()
                    .map(|(k, v)| match k {
                        RKey::K(k) => format!("({},{})", coq_str(k), coq_register(v)),
                        RKey::I(_) => unreachable!(),
                    })
                    .collect::<Vec<_>>()
            )
        )
    };
    format!("(mkO {} {} {})", coq_objid(id), coq_objtype(o.ty), entries)
}

fn read_all<D: ReadDoc>(doc: &D, cands: &[(ObjId, ObjType)], enc: TextEncoding) -> Result<Vec<(ObjId, ObjRegs)>, String> {
    let mut out = vec![];
    for (id, _) in cands {
        if let Some(o) = read_obj(doc, id, enc)? {
            out.push((id.clone(), o));
        }
    }
    Ok(out)
}

fn coq_obs(o: &[(ObjId, ObjRegs)]) -> String {
    coq_list(&o.iter().map(|(id, r)| coq_obj(id, r)).collect::<Vec<_>>())
}

fn coq_change_small(c: &Change, idx: usize) -> String {
    let e = c.decode();
    format!("(mkChange {} {} {} {} [] {})", idx + 1, coq_actor(&e.actor_id), e.seq, e.start_op.get(), coq_ops_of(c))
}

fn coq_ops_of(c: &Change) -> String {
    let e = c.decode();
    let start = e.start_op.get();
    let ops: Vec<String> = e.operations.iter().enumerate().map(|(i, op)| coq_op(op, start + i as u64, &e.actor_id)).collect();
    coq_list(&ops)
}

fn is_str(v: &Value<'_>) -> Option<String> {
    match v {
        Value::Scalar(s) => match s.as_ref() {
            ScalarValue::Str(s) => Some(s.to_string()),
            _ => None,
        },
        _ => None,
    }
}

/// several documents per Coq shard (loading the libraries costs more than evaluating a case)
struct Group {
    defs: Vec<String>,
    cases: Vec<(String, serde_json::Value)>,
    docs: usize,
    limit: usize,
}
impl Group {
    fn new(limit: usize) -> Self {
        Group { defs: vec![], cases: vec![], docs: 0, limit }
    }
    fn add(&mut self, cw: &mut CaseWriter, defs: Vec<String>, cases: Vec<(String, serde_json::Value)>) {
        self.defs.extend(defs);
        self.cases.extend(cases);
        self.docs += 1;
        if self.docs >= self.limit {
            self.flush(cw);
        }
    }
    fn flush(&mut self, cw: &mut CaseWriter) {
        if !self.cases.is_empty() {
            cw.push_group(&self.defs, std::mem::take(&mut self.cases));
        }
        self.defs.clear();
        self.cases.clear();
        self.docs = 0;
    }
}

// ------------------------------------------------------------------ C40: string migration
const MKEYS: [&str; 5] = ["a", "b", "s", "\u{e9}", "k1"];

fn mig_scalar(rng: &mut Rng) -> ScalarValue {
    match rng.below(10) {
        0..=5 => ScalarValue::Str(rng.pick(&gen::STRS).to_string().into()),
        6 => ScalarValue::Int(rng.below(9) as i64),
        7 => ScalarValue::counter(rng.below(9) as i64),
        _ => gen::scalar(rng),
    }
}

/// one edit of the string-heavy profile
fn mig_edit(doc: &mut AutoCommit, rng: &mut Rng, log: &mut Vec<String>) {
    let objs = gen::reachable(doc);
    let (obj, ty) = rng.pick(&objs).clone();
    match ty {
        ObjType::Map | ObjType::Table => {
            let key = rng.pick(&MKEYS).to_string();
            match rng.below(12) {
                0 => {
                    let _ = doc.delete(&obj, key.as_str());
                    log.push(format!("del {} {}", obj, key));
                }
                1 | 2 => {
                    let t = gen::objtype(rng);
                    let _ = doc.put_object(&obj, key.as_str(), t);
                    log.push(format!("put_object {} {} {:?}", obj, key, t));
                }
                3 => {
                    if doc.increment(&obj, key.as_str(), 2).is_ok() {
                        log.push(format!("inc {} {}", obj, key));
                    }
                }
                _ => {
                    let v = mig_scalar(rng);
                    let _ = doc.put(&obj, key.as_str(), v.clone());
                    log.push(format!("put {} {} {:?}", obj, key, v));
                }
            }
        }
        ObjType::List => {
            let len = doc.length(&obj);
            match rng.below(12) {
                0 | 1 if len > 0 => {
                    let i = rng.below(len as u64) as usize;
                    let _ = doc.delete(&obj, i);
                    log.push(format!("ldel {} {}", obj, i));
                }
                2 | 3 | 4 if len > 0 => {
                    let i = if rng.chance(1, 2) { 0 } else { rng.below(len as u64) as usize };
                    let v = mig_scalar(rng);
                    let _ = doc.put(&obj, i, v.clone());
                    log.push(format!("lput {} {} {:?}", obj, i, v));
                }
                5 => {
                    let i = rng.below(len as u64 + 1) as usize;
                    let t = gen::objtype(rng);
                    let _ = doc.insert_object(&obj, i, t);
                    log.push(format!("linsobj {} {} {:?}", obj, i, t));
                }
                6 if len > 0 => {
                    let i = rng.below(len as u64) as usize;
                    let t = gen::objtype(rng);
                    let _ = doc.put_object(&obj, i, t);
                    log.push(format!("lputobj {} {} {:?}", obj, i, t));
                }
                _ => {
                    let i = rng.below(len as u64 + 1) as usize;
                    let v = mig_scalar(rng);
                    let _ = doc.insert(&obj, i, v.clone());
                    log.push(format!("lins {} {} {:?}", obj, i, v));
                }
            }
        }
        ObjType::Text => {
            let len = doc.length(&obj);
            let pos = rng.below(len as u64 + 1) as usize;
            let s = *rng.pick(&gen::STRS);
            let _ = doc.splice_text(&obj, pos, 0, s);
            log.push(format!("tsplice {} {} {:?}", obj, pos, s));
        }
    }
}

struct MigDoc {
    bytes: Vec<u8>,
    log: Vec<String>,
    replicas: usize,
}

fn mig_document(rng: &mut Rng, enc: TextEncoding, thorough: bool, no_strings: bool) -> MigDoc {
    let nrep = rng.range(1, 3) as usize;
    let mut log = vec![format!("encoding {} replicas {}", enc_name(enc), nrep)];
    let mut reps: Vec<AutoCommit> = vec![];
    let mut base = AutoCommit::new_with_encoding(enc).with_actor(gen::actor(rng, 0));
    if no_strings {
        // a document without any string scalar: numbers, objects, text
        let l = base.put_object(ROOT, "l", ObjType::List).unwrap();
        for k in 0..rng.range(0, 3) {
            base.insert(&l, k as usize, ScalarValue::Int(k as i64)).unwrap();
        }
        let t = base.put_object(ROOT, "t", ObjType::Text).unwrap();
        base.splice_text(&t, 0, 0, *rng.pick(&gen::STRS)).unwrap();
        base.put(ROOT, "n", ScalarValue::counter(3)).unwrap();
        base.commit();
        log.push("no-strings document".into());
        return MigDoc { bytes: base.save(), log, replicas: 1 };
    }
    let l = base.put_object(ROOT, "l", ObjType::List).unwrap();
    for k in 0..rng.range(1, 3) {
        base.insert(&l, k as usize, mig_scalar(rng)).unwrap();
    }
    base.put(ROOT, "a", mig_scalar(rng)).unwrap();
    let m = base.put_object(ROOT, "m", ObjType::Map).unwrap();
    base.put(&m, "s", mig_scalar(rng)).unwrap();
    if rng.chance(1, 2) {
        let t = base.put_object(ROOT, "t", ObjType::Text).unwrap();
        base.splice_text(&t, 0, 0, *rng.pick(&gen::STRS)).unwrap();
    }
    base.commit();
    log.push("setup: l, a, m.s (t)".into());
    reps.push(base);
    for i in 1..nrep {
        let f = reps[0].fork().with_actor(gen::actor(rng, i));
        reps.push(f);
    }
    let rounds = if thorough { rng.range(2, 5) } else { rng.range(1, 3) } as usize;
    for _ in 0..rounds {
        for r in 0..nrep {
            let n = rng.range(1, if thorough { 7 } else { 5 }) as usize;
            for _ in 0..n {
                log.push(format!("r{}:", r));
                mig_edit(&mut reps[r], rng, &mut log);
            }
            reps[r].commit();
        }
        // merge everybody into everybody (the conflicts are now visible to later edits)
        if rng.chance(2, 3) {
            for a in 0..nrep {
                for b in 0..nrep {
                    if a != b {
                        let mut other = reps[b].clone();
                        let _ = reps[a].merge(&mut other);
                    }
                }
            }
            log.push("merge all".into());
        }
    }
    for b in 1..nrep {
        let mut other = reps[b].clone();
        let _ = reps[0].merge(&mut other);
    }
    log.push("final merge into r0".into());
    MigDoc { bytes: reps[0].save(), log, replicas: nrep }
}

fn load_plain(bytes: &[u8], enc: TextEncoding) -> Result<Automerge, String> {
    Automerge::load_with_options(bytes, LoadOptions::new().text_encoding(enc)).map_err(|e| format!("{}", e))
}
fn load_migrating(bytes: &[u8], enc: TextEncoding) -> Result<Automerge, String> {
    Automerge::load_with_options(bytes, LoadOptions::new().text_encoding(enc).migrate_strings(StringMigration::ConvertToText)).map_err(|e| format!("{}", e))
}

fn mig_case(rng: &mut Rng, rep: &mut Report, cw: &mut CaseWriter, grp: &mut Group, pi: usize, enc: TextEncoding, thorough: bool) {
    let no_strings = rng.chance(1, 10);
    let d = mig_document(rng, enc, thorough, no_strings);
    let replay = json!({"stream": "mig", "program": pi, "encoding": enc_name(enc), "log": d.log, "doc_hex": hex(&d.bytes)});
    rep.count("mig:documents");
    rep.count(&format!("mig:encoding:{}", enc_name(enc)));
    let plain = match guard(|| load_plain(&d.bytes, enc)) {
        Ok(Ok(p)) => p,
        Ok(Err(e)) => {
            rep.fail(&["C40", "C11"], "recon|mig|plain-load-failed", &e, replay);
            return;
        }
        Err(p) => {
            rep.fail(&["C40", "C11"], &format!("panic|recon|mig|plain-load|{}", p.signature()), &p.message, replay);
            return;
        }
    };
    let mig = match guard(|| load_migrating(&d.bytes, enc)) {
        Ok(Ok(p)) => p,
        Ok(Err(e)) => {
            rep.fail(&["C40"], "recon|mig|migrating-load-failed", &format!("load with ConvertToText failed: {}", e), replay);
            return;
        }
        Err(p) => {
            rep.fail(&["C40"], &format!("panic|recon|mig|load|{}", p.signature()), &format!("load with ConvertToText panicked: {} at {}", p.message, p.location), replay);
            return;
        }
    };
    let ch_plain = plain.get_changes(&[]);
    let ch_mig = mig.get_changes(&[]);
    let known: std::collections::HashSet<_> = ch_plain.iter().map(|c| c.hash()).collect();
    let added: Vec<&Change> = ch_mig.iter().filter(|c| !known.contains(&c.hash())).collect();
    if ch_mig.len() != ch_plain.len() + added.len() {
        rep.fail(&["C40"], "recon|mig|changes-lost", "the migrating load does not hold every change of the plain load", replay.clone());
        return;
    }
    let cands_plain = object_ids(&ch_plain);
    let cands_mig = object_ids(&ch_mig);
    let before = match read_all(&plain, &cands_plain, enc) {
        Ok(o) => o,
        Err(e) => {
            rep.fail(&["C40"], "recon|mig|read-failed", &e, replay);
            return;
        }
    };
    let after = match read_all(&mig, &cands_mig, enc) {
        Ok(o) => o,
        Err(e) => {
            rep.fail(&["C40"], "recon|mig|read-failed-after", &e, replay);
            return;
        }
    };
    let reach: std::collections::HashSet<ObjId> = gen::reachable(&plain).into_iter().map(|x| x.0).collect();
    // ---- the property, register by register
    let mut n_str_regs = 0usize;
    let mut n_str_reachable = 0usize;
    let mut n_conflicted_str = 0usize;
    let mut n_mixed = 0usize;
    let mut bad: Option<(String, String)> = None;
    for (id, o) in &before {
        let o2 = match after.iter().find(|x| &x.0 == id) {
            Some(x) => &x.1,
            None => {
                bad = Some(("object-lost".into(), format!("object {} is unknown after the migrating load", id)));
                break;
            }
        };
        if o2.ty != o.ty {
            bad = Some(("object-type".into(), format!("object {} changed its type", id)));
            break;
        }
        let keys1: Vec<&RKey> = o.regs.iter().map(|r| &r.0).collect();
        let keys2: Vec<&RKey> = o2.regs.iter().map(|r| &r.0).collect();
        if keys1 != keys2 {
            bad = Some((format!("keys|{:?}", o.ty), format!("object {} ({:?}) has other keys / another length after the migrating load: {:?} vs {:?}", id, o.ty, keys1, keys2)));
            break;
        }
        for ((k, vals), (_, vals2)) in o.regs.iter().zip(o2.regs.iter()) {
            let strs: Vec<(String, &ObjId)> = vals.iter().filter_map(|(v, i)| is_str(v).map(|s| (s, i))).collect();
            let container = matches!(o.ty, ObjType::Map | ObjType::List);
            if container && !strs.is_empty() {
                n_str_regs += 1;
                if reach.contains(id) {
                    n_str_reachable += 1;
                }
                if strs.len() > 1 {
                    n_conflicted_str += 1;
                }
                if strs.len() < vals.len() {
                    n_mixed += 1;
                    let sib = vals.iter().find(|(v, _)| is_str(v).is_none()).map(|(v, _)| match v {
                        Value::Object(_) => "object",
                        Value::Scalar(s) if matches!(s.as_ref(), ScalarValue::Counter(_)) => "counter",
                        _ => "scalar",
                    });
                    rep.count(&format!("mig:string_with_sibling:{}", sib.unwrap_or("?")));
                }
                let want = strs.iter().max_by_key(|x| exid_key(x.1)).unwrap().0.clone();
                let ok = vals2.len() == 1
                    && matches!(vals2[0].0, Value::Object(ObjType::Text))
                    && mig.text(&vals2[0].1).map(|t| t == want).unwrap_or(false);
                if !ok {
                    let got: Vec<String> = vals2.iter().map(|(v, i)| format!("{}@{}{}", render_value(v), i, if matches!(v, Value::Object(ObjType::Text)) { format!("={:?}", mig.text(i).ok()) } else { String::new() })).collect();
                    bad = Some((format!("text-not-highest-string|{:?}", o.ty), format!("register {:?} of {} held strings {:?}; after migration it holds {:?}, expected one text {:?}", k, id, strs.iter().map(|x| &x.0).collect::<Vec<_>>(), got, want)));
                    break;
                }
            } else {
                // no visible string here (or a text object): the register keeps its values
                let a: Vec<(String, &ObjId)> = vals.iter().map(|(v, i)| (render_value(v), i)).collect();
                let b: Vec<(String, &ObjId)> = vals2.iter().map(|(v, i)| (render_value(v), i)).collect();
                if a != b {
                    bad = Some((format!("untouched-register-changed|{:?}", o.ty), format!("register {:?} of {} ({:?}) had no visible string but changed: {:?} -> {:?}", k, id, o.ty, a, b)));
                    break;
                }
            }
        }
        if bad.is_some() {
            break;
        }
        if o.ty == ObjType::Text && plain.text(id).ok() != mig.text(id).ok() {
            bad = Some(("text-object-changed".into(), format!("text object {} reads differently after the migrating load", id)));
            break;
        }
    }
    if let Some((sig, what)) = bad {
        rep.fail(&["C40"], &format!("recon|mig|{}", sig), &what, replay.clone());
    }
    // no map key or list element has a visible string left (every object the migrated document knows)
    for (id, o) in &after {
        if !matches!(o.ty, ObjType::Map | ObjType::List) {
            continue;
        }
        if let Some((k, _)) = o.regs.iter().find(|(_, vals)| vals.iter().any(|(v, _)| is_str(v).is_some())) {
            rep.fail(&["C40"], &format!("recon|mig|string-left|{:?}", o.ty), &format!("after the migrating load register {:?} of {} still has a visible string", k, id), replay.clone());
            break;
        }
    }
    // added change: none without strings, exactly one otherwise
    if n_str_regs == 0 {
        rep.count("mig:no_visible_string");
        if !added.is_empty() || mig.get_heads() != plain.get_heads() {
            rep.fail(&["C40"], "recon|mig|change-added-without-strings", "the document has no visible string but the migrating load added a change", replay.clone());
        }
    } else {
        rep.count("mig:with_strings");
        if added.len() != 1 {
            rep.fail(&["C40"], "recon|mig|added-change-count", &format!("{} changes added for {} string registers", added.len(), n_str_regs), replay.clone());
        }
        if n_str_reachable == 0 {
            // every visible string sits in an object that is itself no longer reachable from the root
            rep.count("mig:strings_only_in_unreachable_objects");
            rep.fail(&["C40"], "recon|mig|change-added-for-unreachable-string",
                "no string is reachable from the root (hydrate shows none), yet the migrating load added a change: strings inside deleted / overwritten objects are converted too",
                replay.clone());
        }
    }
    rep.add("mig:string_registers", n_str_regs as u64);
    rep.add("mig:conflicted_string_registers", n_conflicted_str as u64);
    rep.add("mig:string_registers_with_other_siblings", n_mixed as u64);
    // save / load of the migrated document shows the same registers
    {
        let bytes = mig.save();
        match guard(|| load_plain(&bytes, enc).and_then(|l| read_all(&l, &cands_mig, enc).map(|o| coq_obs(&o)))) {
            Ok(Ok(s)) => {
                if s != coq_obs(&after) {
                    rep.fail(&["C40", "C11"], "recon|mig|reload-differs", "the migrated document and its saved-and-reloaded copy differ", replay.clone());
                }
            }
            Ok(Err(e)) => rep.fail(&["C40", "C11"], "recon|mig|reload-failed", &e, replay.clone()),
            Err(p) => rep.fail(&["C40", "C11"], &format!("panic|recon|mig|reload|{}", p.signature()), &p.message, replay.clone()),
        }
    }
    let key = fnv(&d.bytes);
    rep.case(if n_str_regs >= 1 && d.replicas >= 1 { Some(key) } else { None });
    if pi < 2 {
        rep.sample(json!({"stream": "mig", "program": pi, "log": d.log.iter().take(20).collect::<Vec<_>>(), "string_registers": n_str_regs}));
    }
    // ---- model case
    if enc == TextEncoding::GraphemeCluster {
        rep.count("mig:direct_only");
        return;
    }
    let mut defs = vec![];
    let mut names = vec![];
    for (i, c) in ch_plain.iter().enumerate() {
        defs.push(format!("Definition m{}_ch{} : change := {}.", pi, i, coq_change_small(c, i)));
        names.push(format!("m{}_ch{}", pi, i));
    }
    let added_ops = added.first().map(|c| coq_ops_of(c)).unwrap_or_else(|| "[]".into());
    let actor = added.first().map(|c| c.actor_id().clone()).unwrap_or_else(|| mig.get_actor().clone());
    let term = format!("chk_migrate {} {} {} {} {}", coq_enc(enc), coq_list(&names), coq_actor(&actor), added_ops, coq_obs(&after));
    grp.add(cw, defs, vec![(term, json!({"kind": "migrate", "props": ["C40"], "program": pi, "log": d.log, "doc_hex": hex(&d.bytes)}))]);
    rep.model_cases += 1;
}

// ------------------------------------------------------------------ entry
pub fn run(rng: &mut Rng, tier: &str, out: &str) -> Report {
    let thorough = tier == "thorough";
    let mut rep = Report::new("recon");
    let mut cw = CaseWriter::new(out, "recon", HEADER, 1);
    let encs = [TextEncoding::UnicodeCodePoint, TextEncoding::Utf8CodeUnit, TextEncoding::Utf16CodeUnit, TextEncoding::GraphemeCluster];
    // ---- C40
    {
        let mut r = rng.fork();
        let n = if thorough { 400 } else { 64 };
        let mut grp = Group::new(if thorough { 12 } else { 6 });
        for pi in 0..n {
            let enc = encs[pi % 4];
            mig_case(&mut r, &mut rep, &mut cw, &mut grp, pi, enc, thorough);
        }
        grp.flush(&mut cw);
    }
    cw.finish();
    rep
}
