// Family "robust": C15 (untrusted bytes / strings never crash), C17 (bounded memory and time),
// C37 (public API calls never panic), C39 (strings handed out are valid UTF-8), C16 (a document
// that loads is internally consistent).
//
// Streams (every failure is tagged with the property ids it belongs to):
//   1 small decoders: random + mutated valid inputs into BloomFilter / Cursor / ObjId / ActorId /
//     ChangeHash / import / import_obj / sync Message and State / Change / Bundle / hexane columns;
//   2 structure-aware mutation of documents, changes, bundles, incremental saves and sync messages
//     (every byte x a few values, LEB field splices with extreme values, column swaps / truncations /
//     spec edits, ill-formed UTF-8 spliced into string positions) with the chunk checksum RECOMPUTED,
//     fed to every loader;
//   3 every mutant that loads: all reads, a fixed edit program, merge with a clean replica,
//     save -> load -> compare; every returned String re-validated bytewise (C16 / C39);
//   4 valid / stale / out-of-range arguments into public calls on valid documents (C37).
// Every call runs under the panic guard, the counting allocator and a CPU-time clock.
// Failures are collected per signature (first / smallest input kept) so the report is a set of
// distinct signatures, not a flood.
use crate::gen::{self, GenCfg};
use crate::model::*;
use crate::util::*;
use automerge::marks::{ExpandMark, Mark};
use automerge::sync::{self, BloomFilter, Message, SyncDoc};
use automerge::transaction::{CommitOptions, Transactable};
use automerge::{
    ActorId, AutoCommit, Automerge, Bundle, Change, ChangeHash, Cursor, LoadOptions, ObjId, ObjType, OnPartialLoad,
    ReadDoc, ScalarValue, StringMigration, TextEncoding, Value, VerificationMode, ROOT,
};
use serde_json::{json, Value as J};
use sha2::{Digest, Sha256};
use std::collections::BTreeMap;
use std::str::FromStr;
use std::sync::atomic::{AtomicU64, Ordering};
use std::sync::Mutex;

const HEADER: &str = "From AM Require Import Base.Prelude Exec.RobustExec.\nLocal Open Scope N_scope.\n";

// ---------------------------------------------------------------- clocks and the watchdog
fn cpu_ms() -> u64 {
    let mut ts = libc::timespec { tv_sec: 0, tv_nsec: 0 };
    unsafe {
        libc::clock_gettime(libc::CLOCK_THREAD_CPUTIME_ID, &mut ts);
    }
    ts.tv_sec as u64 * 1000 + ts.tv_nsec as u64 / 1_000_000
}
fn wall_ms() -> u64 {
    use std::time::{SystemTime, UNIX_EPOCH};
    SystemTime::now().duration_since(UNIX_EPOCH).map(|d| d.as_millis() as u64).unwrap_or(0)
}
// ---------------------------------------------------------------- isolation: jobs run in forked children
// A call that never returns (or aborts the process: allocation failure, stack overflow) cannot be caught by
// catch_unwind.  So every batch of jobs runs in a forked child (the process is single-threaded; the child
// inherits the whole state copy-on-write) that reports, after each job, the findings / counters of that job as
// one JSON line over a pipe.  The parent enforces a wall-clock limit per job: a child that is silent for longer
// is killed, the job is recorded as `hang|<entry point>` (the entry point is read from a shared page the child
// updates before every call), and a new child continues with the next job.  A child that dies is recorded as
// `abort|<entry point>|signal`.
static mut SHARED: *mut u8 = std::ptr::null_mut();
fn shared_init() {
    unsafe {
        if SHARED.is_null() {
            let p = libc::mmap(std::ptr::null_mut(), 4096, libc::PROT_READ | libc::PROT_WRITE, libc::MAP_SHARED | libc::MAP_ANONYMOUS, -1, 0);
            if p != libc::MAP_FAILED {
                SHARED = p as *mut u8;
            }
        }
    }
}
fn shared_set(entry: &str) {
    unsafe {
        if !SHARED.is_null() {
            let b = entry.as_bytes();
            let n = b.len().min(200);
            *SHARED = n as u8;
            std::ptr::copy_nonoverlapping(b.as_ptr(), SHARED.add(1), n);
        }
    }
}
/// a free-form note about the input being processed (second region of the shared page)
fn shared_note(note: &str) {
    unsafe {
        if !SHARED.is_null() {
            let b = note.as_bytes();
            let n = b.len().min(3800);
            *SHARED.add(256) = (n & 0xff) as u8;
            *SHARED.add(257) = (n >> 8) as u8;
            std::ptr::copy_nonoverlapping(b.as_ptr(), SHARED.add(258), n);
        }
    }
}
fn shared_get_note() -> String {
    unsafe {
        if SHARED.is_null() {
            return String::new();
        }
        let n = (*SHARED.add(256) as usize) | ((*SHARED.add(257) as usize) << 8);
        String::from_utf8_lossy(std::slice::from_raw_parts(SHARED.add(258), n.min(3800))).to_string()
    }
}
fn shared_get() -> String {
    unsafe {
        if SHARED.is_null() {
            return String::new();
        }
        let n = *SHARED as usize;
        String::from_utf8_lossy(std::slice::from_raw_parts(SHARED.add(1), n.min(200))).to_string()
    }
}
const HANG_MS: i64 = 120_000; // wall-clock fallback (a sleeping child); CPU-bound loops are ended by RLIMIT_CPU
const JOB_CPU_S: u64 = 5;
const CHILD_AS_LIMIT: u64 = 8 << 30;

struct Job<'a> {
    descr: Box<dyn Fn() -> J + 'a>,
    size: usize,
    run: Box<dyn Fn(&mut Cx) + 'a>,
}

fn run_jobs(cx: &mut Cx, jobs: Vec<Job<'_>>) {
    if jobs.is_empty() {
        return;
    }
    if std::env::var("ROBUST_NOFORK").is_ok() {
        for j in &jobs {
            (j.run)(cx);
        }
        return;
    }
    shared_init();
    let n = jobs.len();
    let mut next = 0usize;
    while next < n {
        let mut fds = [0i32; 2];
        if unsafe { libc::pipe(fds.as_mut_ptr()) } != 0 {
            panic!("pipe failed");
        }
        let pid = unsafe { libc::fork() };
        if pid < 0 {
            panic!("fork failed");
        }
        if pid == 0 {
            // ---- child
            unsafe {
                libc::close(fds[0]);
                let lim = libc::rlimit { rlim_cur: CHILD_AS_LIMIT, rlim_max: CHILD_AS_LIMIT };
                libc::setrlimit(libc::RLIMIT_AS, &lim);
            }
            for j in next..n {
                let mut d = Cx::new(cx.thorough);
                unsafe {
                    // CPU budget of one job: the kernel ends the child (SIGXCPU) when it is exceeded; CPU time, not
                    // wall time, so a busy machine cannot produce a false alarm
                    let mut ru: libc::rusage = std::mem::zeroed();
                    libc::getrusage(libc::RUSAGE_SELF, &mut ru);
                    let used = (ru.ru_utime.tv_sec + ru.ru_stime.tv_sec) as u64;
                    let lim = libc::rlimit { rlim_cur: used + JOB_CPU_S + 1, rlim_max: libc::RLIM_INFINITY };
                    libc::setrlimit(libc::RLIMIT_CPU, &lim);
                }
                shared_note("");
                (jobs[j].run)(&mut d);
                let mut line = d.delta_json().to_string();
                line.push('\n');
                let b = line.as_bytes();
                let mut off = 0;
                while off < b.len() {
                    let w = unsafe { libc::write(fds[1], b[off..].as_ptr() as *const libc::c_void, b.len() - off) };
                    if w <= 0 {
                        unsafe { libc::_exit(4) };
                    }
                    off += w as usize;
                }
            }
            unsafe { libc::_exit(0) };
        }
        // ---- parent
        unsafe { libc::close(fds[1]) };
        let mut buf: Vec<u8> = vec![];
        let mut deadline = wall_ms() as i64 + HANG_MS;
        let mut hung = false;
        loop {
            // complete lines first
            while let Some(pos) = buf.iter().position(|c| *c == b'\n') {
                let line: Vec<u8> = buf.drain(..=pos).collect();
                if let Ok(v) = serde_json::from_slice::<J>(&line[..line.len() - 1]) {
                    cx.merge_delta(&v);
                }
                next += 1;
                deadline = wall_ms() as i64 + HANG_MS;
            }
            if next >= n {
                break;
            }
            let left = deadline - wall_ms() as i64;
            if left <= 0 {
                hung = true;
                break;
            }
            let mut pfd = libc::pollfd { fd: fds[0], events: libc::POLLIN, revents: 0 };
            let r = unsafe { libc::poll(&mut pfd, 1, left.min(1000) as i32) };
            if r > 0 {
                let mut tmp = [0u8; 65536];
                let k = unsafe { libc::read(fds[0], tmp.as_mut_ptr() as *mut libc::c_void, tmp.len()) };
                if k > 0 {
                    buf.extend(&tmp[..k as usize]);
                } else {
                    break; // EOF: the child is gone
                }
            }
        }
        let entry = shared_get();
        let note = shared_get_note();
        let with_note = |mut j: J| {
            if let J::Object(m) = &mut j {
                if !note.is_empty() {
                    m.insert("input".into(), json!(note));
                }
            }
            j
        };
        if hung {
            unsafe { libc::kill(pid, libc::SIGKILL) };
        }
        let mut status = 0i32;
        unsafe {
            libc::waitpid(pid, &mut status, 0);
            libc::close(fds[0]);
        }
        if next < n {
            let job = &jobs[next];
            if hung || (libc::WIFSIGNALED(status) && libc::WTERMSIG(status) == libc::SIGXCPU) {
                cx.fail(&["C15", "C17"], &format!("hang|{}", entry),
                    &format!("{} did not return within {} s of CPU time on {} input bytes (the child process running it was ended)", entry, JOB_CPU_S, job.size), job.size, || with_note((job.descr)()));
            } else {
                let how = if libc::WIFSIGNALED(status) { format!("signal-{}", libc::WTERMSIG(status)) } else { format!("exit-{}", libc::WEXITSTATUS(status)) };
                cx.fail(&["C15", "C17"], &format!("abort|{}|{}", entry, how),
                    &format!("{} ended the process ({}) on {} input bytes: not a catchable panic (allocation failure / stack overflow / abort)", entry, how, job.size), job.size, || with_note((job.descr)()));
            }
            cx.rep.count("jobs_lost");
            next += 1;
        }
    }
}

// ---------------------------------------------------------------- findings
struct Finding {
    props: Vec<&'static str>,
    what: String,
    replay: J,
    size: usize,
    count: u64,
}

struct Cx {
    rep: Report,
    found: BTreeMap<String, Finding>,
    thorough: bool,
    max_alloc: u64,
    max_cpu: u64,
    max_cpu_entry: String,
}

const ALLOC_BASE: u64 = 64 << 20;
const CPU_LIMIT_MS: u64 = 2000;

/// where a panic happened, in a form that survives unrelated edits: source file, enclosing fn (looked up in the
/// current source at the reported line), first line of the message with numerals and quoted data erased
static SITE_CACHE: Mutex<BTreeMap<String, String>> = Mutex::new(BTreeMap::new());
fn site(p: &PanicInfo) -> String {
    let key = format!("{}|{}", p.location, p.message.lines().next().unwrap_or(""));
    if let Some(s) = SITE_CACHE.lock().unwrap().get(&key) {
        return s.clone();
    }
    let s = site_uncached(p);
    SITE_CACHE.lock().unwrap().insert(key, s.clone());
    s
}
fn site_uncached(p: &PanicInfo) -> String {
    let (path, line) = match p.location.rsplit_once(':') {
        Some((f, l)) => (f.to_string(), l.parse::<usize>().unwrap_or(0)),
        None => (p.location.clone(), 0),
    };
    let file = if path.contains("/rustc/") || path.contains("/.cargo/") || path.contains("/rustlib/") {
        format!("std:{}", path.rsplit('/').take(2).collect::<Vec<_>>().into_iter().rev().collect::<Vec<_>>().join("/"))
    } else {
        path.rsplit("/rust/").next().unwrap_or(&path).to_string()
    };
    let mut func = String::from("?");
    if !file.starts_with("std:") {
        if let Ok(src) = std::fs::read_to_string(&path) {
            let lines: Vec<&str> = src.lines().collect();
            let mut i = line.min(lines.len());
            while i > 0 {
                i -= 1;
                let l = lines[i].trim_start();
                let l = l.trim_start_matches("pub(crate) ").trim_start_matches("pub(super) ").trim_start_matches("pub ").trim_start_matches("const ").trim_start_matches("unsafe ");
                if let Some(rest) = l.strip_prefix("fn ") {
                    func = rest.chars().take_while(|c| c.is_alphanumeric() || *c == '_').collect();
                    break;
                }
            }
        }
    }
    let first = p.message.lines().next().unwrap_or("");
    let mut msg = String::new();
    let mut in_q = false;
    let mut prev_hash = false;
    for c in first.chars() {
        if c == '"' {
            in_q = !in_q;
            if !in_q {
                msg.push('~');
            }
            continue;
        }
        if in_q {
            continue;
        }
        if c.is_ascii_digit() {
            if !prev_hash {
                msg.push('#');
            }
            prev_hash = true;
        } else {
            msg.push(if c == ' ' || c == '|' { '_' } else { c });
            prev_hash = false;
        }
    }
    let msg: String = msg.chars().take(70).collect();
    format!("{}|{}|{}", file, func, msg)
}

fn static_prop(p: &str) -> &'static str {
    match p {
        "C15" => "C15",
        "C16" => "C16",
        "C17" => "C17",
        "C37" => "C37",
        "C39" => "C39",
        _ => "C15",
    }
}

impl Cx {
    fn new(thorough: bool) -> Cx {
        Cx { rep: Report::new("robust"), found: BTreeMap::new(), thorough, max_alloc: 0, max_cpu: 0, max_cpu_entry: String::new() }
    }
    /// what one job found, as JSON (sent from the child to the parent)
    fn delta_json(&self) -> J {
        let found: serde_json::Map<String, J> = self.found.iter().map(|(k, f)| {
            (k.clone(), json!({"props": f.props, "what": f.what, "replay": f.replay, "size": f.size, "count": f.count}))
        }).collect();
        json!({"found": found, "dist": self.rep.dist, "evals": self.rep.evaluations, "nontrivial": self.rep.nontrivial.iter().collect::<Vec<_>>(),
               "max_alloc": self.max_alloc, "max_cpu": self.max_cpu, "max_cpu_entry": self.max_cpu_entry})
    }
    fn merge_delta(&mut self, v: &J) {
        if let Some(m) = v["found"].as_object() {
            for (sig, f) in m {
                let size = f["size"].as_u64().unwrap_or(0) as usize;
                let count = f["count"].as_u64().unwrap_or(1);
                match self.found.get_mut(sig) {
                    Some(e) => {
                        e.count += count;
                        if size < e.size {
                            e.size = size;
                            e.replay = f["replay"].clone();
                            e.what = f["what"].as_str().unwrap_or("").to_string();
                        }
                    }
                    None => {
                        let props: Vec<&'static str> = f["props"].as_array().map(|a| a.iter().map(|x| static_prop(x.as_str().unwrap_or(""))).collect()).unwrap_or_default();
                        self.found.insert(sig.clone(), Finding { props, what: f["what"].as_str().unwrap_or("").to_string(), replay: f["replay"].clone(), size, count });
                    }
                }
            }
        }
        if let Some(m) = v["dist"].as_object() {
            for (k, n) in m {
                self.rep.add(k, n.as_u64().unwrap_or(0));
            }
        }
        self.rep.evaluations += v["evals"].as_u64().unwrap_or(0);
        if let Some(a) = v["nontrivial"].as_array() {
            for x in a {
                if let Some(k) = x.as_u64() {
                    self.rep.nontrivial.insert(k);
                }
            }
        }
        self.max_alloc = self.max_alloc.max(v["max_alloc"].as_u64().unwrap_or(0));
        if v["max_cpu"].as_u64().unwrap_or(0) > self.max_cpu {
            self.max_cpu = v["max_cpu"].as_u64().unwrap_or(0);
            self.max_cpu_entry = v["max_cpu_entry"].as_str().unwrap_or("").to_string();
        }
    }
    fn fail(&mut self, props: &[&'static str], sig: &str, what: &str, size: usize, replay: impl FnOnce() -> J) {
        let sig = sig.replace(' ', "_");
        match self.found.get_mut(&sig) {
            Some(f) => {
                f.count += 1;
                if size < f.size {
                    f.size = size;
                    f.replay = replay();
                    f.what = what.to_string();
                }
            }
            None => {
                self.found.insert(sig, Finding { props: props.to_vec(), what: what.to_string(), replay: replay(), size, count: 1 });
            }
        }
    }

    /// run one call of the implementation: panic guard + allocation counter + CPU clock.
    /// `props`: the properties a panic of this call violates; `entry`: the entry point name of the signature.
    fn call<T>(&mut self, props: &[&'static str], entry: &str, input_len: usize, replay: &dyn Fn() -> J, f: impl FnOnce() -> T) -> Option<T> {
        shared_set(entry);
        crate::alloc::reset();
        let base = crate::alloc::peak_begin();
        let t0 = cpu_ms();
        let r = guard(f);
        let dt = cpu_ms().saturating_sub(t0);
        let (_, largest) = crate::alloc::stats();
        let total = crate::alloc::peak_since(base);
        self.rep.count(&format!("calls:{}", entry));
        self.max_alloc = self.max_alloc.max(total);
        if dt <= CPU_LIMIT_MS && dt > self.max_cpu {
            self.max_cpu = dt;
            self.max_cpu_entry = entry.to_string();
        }
        let limit = ALLOC_BASE + 1000 * input_len as u64;
        if total > limit {
            self.fail(&["C17"], &format!("alloc|{}", entry),
                &format!("{} on {} input bytes held {} bytes of heap at one time (largest single request {}), limit 64 MiB + 1000 x input", entry, input_len, total, largest),
                input_len, || replay());
        }
        if dt > CPU_LIMIT_MS {
            self.fail(&["C17"], &format!("slow|{}", entry),
                &format!("{} on {} input bytes used {} ms of CPU time (limit {} ms)", entry, input_len, dt, CPU_LIMIT_MS), input_len, || replay());
        }
        match r {
            Ok(v) => Some(v),
            Err(p) => {
                let class = if props.contains(&"C37") && !props.contains(&"C15") { "api" } else if props.contains(&"C16") && !props.contains(&"C15") { "loaded" } else { "decode" };
                self.fail(props, &format!("panic|{}|{}|{}", class, site(&p), entry),
                    &format!("{} panicked: {} at {}", entry, p.message, p.location), input_len, || replay());
                self.rep.count(&format!("panics:{}", entry));
                None
            }
        }
    }

    fn finish(mut self) -> Report {
        let mut counts = serde_json::Map::new();
        // panics are reported per SITE (class, file, enclosing fn, message); the entry points through which the
        // site was reached are listed in the replay
        let mut grouped: BTreeMap<String, (Finding, BTreeMap<String, u64>)> = BTreeMap::new();
        for (sig, f) in std::mem::take(&mut self.found) {
            counts.insert(sig.clone(), json!(f.count));
            let (key, entry) = if sig.starts_with("panic|") {
                match sig.rsplit_once('|') {
                    Some((k, e)) => (k.to_string(), e.to_string()),
                    None => (sig.clone(), String::new()),
                }
            } else {
                (sig.clone(), String::new())
            };
            match grouped.get_mut(&key) {
                Some((g, es)) => {
                    g.count += f.count;
                    for p in &f.props {
                        if !g.props.contains(p) {
                            g.props.push(p);
                        }
                    }
                    *es.entry(entry).or_insert(0) += f.count;
                    if f.size < g.size {
                        g.size = f.size;
                        g.replay = f.replay;
                        g.what = f.what;
                    }
                }
                None => {
                    let mut es = BTreeMap::new();
                    let c = f.count;
                    es.insert(entry, c);
                    grouped.insert(key, (f, es));
                }
            }
        }
        for (sig, (f, es)) in grouped {
            let mut replay = f.replay;
            if let J::Object(m) = &mut replay {
                m.insert("occurrences".into(), json!(f.count));
                if sig.starts_with("panic|") {
                    m.insert("entry_points".into(), json!(es));
                }
            }
            let what = if sig.starts_with("panic|") {
                format!("{} [reached through: {}]", f.what, es.iter().map(|(e, n)| format!("{} x{}", e, n)).collect::<Vec<_>>().join(", "))
            } else {
                f.what
            };
            self.rep.fail(&f.props, &sig, &what, replay);
        }
        let _ = counts;
        self.rep.extra.insert("max_cpu_entry_below_the_limit".into(), json!(self.max_cpu_entry));
        self.rep.extra.insert("max_alloc_bytes_one_call".into(), json!(self.max_alloc));
        self.rep.extra.insert("max_cpu_ms_one_call_below_the_limit".into(), json!(self.max_cpu));
        self.rep
    }
}

// ---------------------------------------------------------------- bytewise UTF-8 well-formedness (Unicode table 3-7), written
// independently of std (the strings under test were built with from_utf8_unchecked)
pub fn utf8_ok(b: &[u8]) -> bool {
    let mut i = 0;
    let n = b.len();
    let cont = |x: u8| (0x80..=0xBF).contains(&x);
    while i < n {
        let b0 = b[i];
        if b0 < 0x80 {
            i += 1;
        } else if (0xC2..=0xDF).contains(&b0) {
            if i + 1 >= n || !cont(b[i + 1]) {
                return false;
            }
            i += 2;
        } else if (0xE0..=0xEF).contains(&b0) {
            if i + 2 >= n {
                return false;
            }
            let ok1 = match b0 {
                0xE0 => (0xA0..=0xBF).contains(&b[i + 1]),
                0xED => (0x80..=0x9F).contains(&b[i + 1]),
                _ => cont(b[i + 1]),
            };
            if !ok1 || !cont(b[i + 2]) {
                return false;
            }
            i += 3;
        } else if (0xF0..=0xF4).contains(&b0) {
            if i + 3 >= n {
                return false;
            }
            let ok1 = match b0 {
                0xF0 => (0x90..=0xBF).contains(&b[i + 1]),
                0xF4 => (0x80..=0x8F).contains(&b[i + 1]),
                _ => cont(b[i + 1]),
            };
            if !ok1 || !cont(b[i + 2]) || !cont(b[i + 3]) {
                return false;
            }
            i += 4;
        } else {
            return false;
        }
    }
    true
}

// ---------------------------------------------------------------- chunk framing
const MAGIC: [u8; 4] = [0x85, 0x6f, 0x4a, 0x83];

pub fn uleb(mut v: u64) -> Vec<u8> {
    let mut out = vec![];
    loop {
        let b = (v & 0x7f) as u8;
        v >>= 7;
        if v == 0 {
            out.push(b);
            return out;
        }
        out.push(b | 0x80);
    }
}
fn sleb(mut v: i64) -> Vec<u8> {
    let mut out = vec![];
    loop {
        let b = (v & 0x7f) as u8;
        v >>= 7;
        let done = (v == 0 && b & 0x40 == 0) || (v == -1 && b & 0x40 != 0);
        if done {
            out.push(b);
            return out;
        }
        out.push(b | 0x80);
    }
}
/// read a uleb at `pos`: (value, byte length); tolerant (used on valid originals only)
fn read_uleb(b: &[u8], pos: usize) -> Option<(u64, usize)> {
    let mut v: u64 = 0;
    let mut shift = 0;
    let mut i = pos;
    loop {
        let x = *b.get(i)?;
        if shift < 64 {
            v |= ((x & 0x7f) as u64) << shift;
        }
        shift += 7;
        i += 1;
        if x & 0x80 == 0 {
            return Some((v, i - pos));
        }
        if i - pos > 10 {
            return None;
        }
    }
}

/// magic ++ checksum(type, data) ++ type ++ uleb(len) ++ data: a chunk whose checksum is right for its (new) content
pub fn frame(ty: u8, data: &[u8]) -> Vec<u8> {
    let mut h = Sha256::new();
    let mut head = vec![ty];
    head.extend(uleb(data.len() as u64));
    h.update(&head);
    h.update(data);
    let digest = h.finalize();
    let mut out = MAGIC.to_vec();
    out.extend(&digest[..4]);
    out.push(ty);
    out.extend(uleb(data.len() as u64));
    out.extend(data);
    out
}
/// a compressed change chunk (type 2): DEFLATE(data) with the checksum of the inflated change chunk
fn frame_compressed(data: &[u8]) -> Vec<u8> {
    use std::io::Read;
    let mut h = Sha256::new();
    let mut head = vec![1u8];
    head.extend(uleb(data.len() as u64));
    h.update(&head);
    h.update(data);
    let digest = h.finalize();
    let mut z = vec![];
    let mut enc = flate2::bufread::DeflateEncoder::new(data, flate2::Compression::default());
    let _ = enc.read_to_end(&mut z);
    let mut out = MAGIC.to_vec();
    out.extend(&digest[..4]);
    out.push(2);
    out.extend(uleb(z.len() as u64));
    out.extend(z);
    out
}
fn inflate(z: &[u8]) -> Option<Vec<u8>> {
    use std::io::Read;
    let mut out = vec![];
    flate2::bufread::DeflateDecoder::new(z).read_to_end(&mut out).ok()?;
    Some(out)
}

/// the chunks of a file: (type, data)
fn split_chunks(file: &[u8]) -> Vec<(u8, Vec<u8>)> {
    let mut out = vec![];
    for (s, e, ty) in crate::fam_store::chunk_spans(file) {
        let (_, n) = read_uleb(file, s + 9).unwrap();
        out.push((ty, file[s + 9 + n..e].to_vec()));
    }
    out
}

// ---------------------------------------------------------------- field layout of a chunk body (of a VALID original)
#[derive(Clone, Debug, PartialEq)]
enum FK {
    Count,      // uleb: a number of items that follow
    Len,        // uleb: a byte length of what follows
    Num,        // uleb: seq / start_op / head index ...
    Snum,       // sleb: time
    Actor,      // raw bytes
    Hash,       // 32 raw bytes
    Str,        // raw bytes that must be UTF-8 (message)
    ColSpec,    // uleb column specification
    ColLen,     // uleb column data length
    ColData(u32, u8), // column data: (spec, group: 0 change columns / 1 op columns)
    Extra,
}
#[derive(Clone, Debug)]
struct Field {
    off: usize,
    len: usize,
    k: FK,
}

struct Lay<'a> {
    b: &'a [u8],
    pos: usize,
    out: Vec<Field>,
}
impl<'a> Lay<'a> {
    fn leb(&mut self, k: FK) -> Option<u64> {
        let (v, n) = read_uleb(self.b, self.pos)?;
        self.out.push(Field { off: self.pos, len: n, k });
        self.pos += n;
        Some(v)
    }
    fn raw(&mut self, n: usize, k: FK) -> Option<()> {
        if self.pos + n > self.b.len() {
            return None;
        }
        self.out.push(Field { off: self.pos, len: n, k });
        self.pos += n;
        Some(())
    }
    fn hashes(&mut self) -> Option<u64> {
        let n = self.leb(FK::Count)?;
        for _ in 0..n {
            self.raw(32, FK::Hash)?;
        }
        Some(n)
    }
    fn actor(&mut self) -> Option<()> {
        let n = self.leb(FK::Len)?;
        self.raw(n as usize, FK::Actor)
    }
    fn actors(&mut self) -> Option<()> {
        let n = self.leb(FK::Count)?;
        for _ in 0..n {
            self.actor()?;
        }
        Some(())
    }
    fn colmeta(&mut self) -> Option<Vec<(u32, usize)>> {
        let n = self.leb(FK::Count)?;
        let mut v = vec![];
        for _ in 0..n {
            let s = self.leb(FK::ColSpec)?;
            let l = self.leb(FK::ColLen)?;
            v.push((s as u32, l as usize));
        }
        Some(v)
    }
    fn coldata(&mut self, meta: &[(u32, usize)], group: u8) -> Option<()> {
        for (s, l) in meta {
            self.raw(*l, FK::ColData(*s, group))?;
        }
        Some(())
    }
}

fn layout(ty: u8, data: &[u8]) -> Option<Vec<Field>> {
    let mut l = Lay { b: data, pos: 0, out: vec![] };
    match ty {
        0 => {
            l.actors()?;
            let nh = l.hashes()?;
            let cm = l.colmeta()?;
            let om = l.colmeta()?;
            l.coldata(&cm, 0)?;
            l.coldata(&om, 1)?;
            for _ in 0..nh {
                if l.pos < data.len() {
                    l.leb(FK::Num)?;
                }
            }
        }
        1 => {
            l.hashes()?;
            l.actor()?;
            l.leb(FK::Num)?;
            l.leb(FK::Num)?;
            // time: sleb
            let (_, n) = read_uleb(data, l.pos)?;
            l.out.push(Field { off: l.pos, len: n, k: FK::Snum });
            l.pos += n;
            let ml = l.leb(FK::Len)?;
            l.raw(ml as usize, FK::Str)?;
            l.actors()?;
            let om = l.colmeta()?;
            l.coldata(&om, 1)?;
            let rest = data.len() - l.pos;
            if rest > 0 {
                l.raw(rest, FK::Extra)?;
            }
        }
        3 => {
            l.hashes()?;
            l.actors()?;
            let cm = l.colmeta()?;
            l.coldata(&cm, 0)?;
            let om = l.colmeta()?;
            l.coldata(&om, 1)?;
        }
        _ => return None,
    }
    if l.pos != data.len() {
        return None;
    }
    Some(l.out)
}

// ---------------------------------------------------------------- mutators
const LEB_EXTREMES: [u64; 14] = [0, 1, 2, 127, 128, 255, 256, 65535, 0xffff_ffff, 0x1_0000_0000, 1 << 62, (1 << 63) - 1, 1 << 63, u64::MAX];
const BYTE_VALUES: [u8; 8] = [0x00, 0xff, 0x7f, 0x80, 0x01, 0xfe, 0x40, 0xc0];

/// ill-formed replacements of the same length for a well-formed UTF-8 sequence of 1..4 bytes
fn bad_utf8(len: usize, k: u64) -> Vec<u8> {
    match len {
        1 => vec![*[0xffu8, 0x80, 0xc0, 0xfe].get(k as usize % 4).unwrap()],
        2 => match k % 4 {
            0 => vec![0xc0, 0x80],       // over-long NUL
            1 => vec![0xc1, 0xbf],       // over-long
            2 => vec![0xc3, 0x28],       // bad continuation
            _ => vec![0xe9, 0x41],       // truncated 3-byte lead
        },
        3 => match k % 5 {
            0 => vec![0xed, 0xa0, 0x80], // surrogate D800
            1 => vec![0xed, 0xbf, 0xbf], // surrogate DFFF
            2 => vec![0xe0, 0x80, 0x80], // over-long
            3 => vec![0xe0, 0x9f, 0xbf], // over-long
            _ => vec![0xe6, 0xbc, 0x41], // bad continuation
        },
        _ => match k % 5 {
            0 => vec![0xf4, 0x90, 0x80, 0x80], // > U+10FFFF
            1 => vec![0xf0, 0x80, 0x80, 0x80], // over-long
            2 => vec![0xf0, 0x8f, 0xbf, 0xbf], // over-long
            3 => vec![0xf5, 0x80, 0x80, 0x80], // invalid lead
            _ => vec![0xf0, 0x9f, 0x98, 0x41], // bad continuation
        },
    }
}

/// positions of well-formed UTF-8 sequences inside `data` that are likely string content: runs of >= 2 printable ASCII
/// bytes and every multi-byte sequence
fn string_sites(data: &[u8], lo: usize, hi: usize) -> Vec<(usize, usize)> {
    let mut out = vec![];
    let mut i = lo;
    while i < hi {
        let b = data[i];
        let l = if b < 0x80 { 1 } else if (0xC2..=0xDF).contains(&b) { 2 } else if (0xE0..=0xEF).contains(&b) { 3 } else if (0xF0..=0xF4).contains(&b) { 4 } else { 0 };
        if l >= 2 && i + l <= hi && utf8_ok(&data[i..i + l]) {
            out.push((i, l));
            i += l;
        } else if l == 1 && b.is_ascii_alphanumeric() && i + 1 < hi && data[i + 1].is_ascii_alphanumeric() {
            out.push((i, 1));
            i += 1;
        } else {
            i += 1;
        }
    }
    out
}

#[derive(Clone)]
struct Mutant {
    kind: &'static str,
    descr: String,
    data: Vec<u8>,
}

fn replace(data: &[u8], off: usize, len: usize, with: &[u8]) -> Vec<u8> {
    let mut v = data[..off].to_vec();
    v.extend(with);
    v.extend(&data[off + len..]);
    v
}

/// re-encode a body after changing the data of column `ci` (index among ColData fields) so that the metadata length
/// matches (keep_meta = false) or is left as it was (keep_meta = true)
fn with_column(data: &[u8], fields: &[Field], ci: usize, newcol: &[u8], keep_meta: bool) -> Vec<u8> {
    // the ColLen fields appear in the same order as the ColData fields within each group
    let cds: Vec<usize> = fields.iter().enumerate().filter(|(_, f)| matches!(f.k, FK::ColData(..))).map(|(i, _)| i).collect();
    let cls: Vec<usize> = fields.iter().enumerate().filter(|(_, f)| f.k == FK::ColLen).map(|(i, _)| i).collect();
    let fd = &fields[cds[ci]];
    // map ColData index -> ColLen index: document/bundle list change meta, then op meta (doc) in the same order as data
    // except for bundles where op meta comes after change data; order of appearance is still group 0 then group 1
    let fl = &fields[cls[ci]];
    let mut out = vec![];
    let mut pos = 0;
    let mut edits: Vec<(usize, usize, Vec<u8>)> = vec![];
    if !keep_meta {
        edits.push((fl.off, fl.len, uleb(newcol.len() as u64)));
    }
    edits.push((fd.off, fd.len, newcol.to_vec()));
    edits.sort();
    for (o, l, w) in edits {
        out.extend(&data[pos..o]);
        out.extend(w);
        pos = o + l;
    }
    out.extend(&data[pos..]);
    out
}

/// the field-aware mutants of one chunk body
fn structured_mutants(rng: &mut Rng, ty: u8, data: &[u8], budget: usize) -> Vec<Mutant> {
    let mut out = vec![];
    let fields = match layout(ty, data) {
        Some(f) => f,
        None => return out,
    };
    // 1. every LEB field x extreme values (+ one over-long spelling)
    for f in fields.iter() {
        match f.k {
            FK::Count | FK::Len | FK::Num | FK::ColSpec | FK::ColLen => {
                for v in LEB_EXTREMES {
                    out.push(Mutant { kind: "leb-field", descr: format!("{:?}@{} := {}", f.k, f.off, v), data: replace(data, f.off, f.len, &uleb(v)) });
                }
                if let Some((v, _)) = read_uleb(data, f.off) {
                    for d in [v.wrapping_add(1), v.wrapping_sub(1), v.wrapping_mul(2)] {
                        out.push(Mutant { kind: "leb-field", descr: format!("{:?}@{} := {}", f.k, f.off, d), data: replace(data, f.off, f.len, &uleb(d)) });
                    }
                    let mut over = uleb(v);
                    let last = over.len() - 1;
                    over[last] |= 0x80;
                    over.push(0);
                    out.push(Mutant { kind: "leb-overlong", descr: format!("{:?}@{} over-long", f.k, f.off), data: replace(data, f.off, f.len, &over) });
                }
            }
            FK::Snum => {
                for v in [i64::MIN, i64::MAX, -1, 0] {
                    out.push(Mutant { kind: "leb-field", descr: format!("time@{} := {}", f.off, v), data: replace(data, f.off, f.len, &sleb(v)) });
                }
            }
            _ => {}
        }
    }
    // 2. columns: truncate / extend / swap / duplicate / drop / empty, with and without the metadata following
    let cds: Vec<&Field> = fields.iter().filter(|f| matches!(f.k, FK::ColData(..))).collect();
    for (ci, f) in cds.iter().enumerate() {
        let col = &data[f.off..f.off + f.len];
        for keep in [false, true] {
            if !col.is_empty() {
                out.push(Mutant { kind: "col-truncate", descr: format!("column {:?} -1 byte keep_meta={}", f.k, keep), data: with_column(data, &fields, ci, &col[..col.len() - 1], keep) });
                out.push(Mutant { kind: "col-truncate", descr: format!("column {:?} halved keep_meta={}", f.k, keep), data: with_column(data, &fields, ci, &col[..col.len() / 2], keep) });
                out.push(Mutant { kind: "col-empty", descr: format!("column {:?} emptied keep_meta={}", f.k, keep), data: with_column(data, &fields, ci, &[], keep) });
            }
            let mut ext = col.to_vec();
            ext.extend([0x7f, 0x00]);
            out.push(Mutant { kind: "col-extend", descr: format!("column {:?} + [7f 00] keep_meta={}", f.k, keep), data: with_column(data, &fields, ci, &ext, keep) });
        }
        let mut dup = col.to_vec();
        dup.extend(col);
        out.push(Mutant { kind: "col-double", descr: format!("column {:?} doubled", f.k), data: with_column(data, &fields, ci, &dup, false) });
        // run headers inside the column: splice extreme LEBs at the first positions and at a random one
        let mut spots: Vec<usize> = (0..col.len().min(3)).collect();
        if col.len() > 3 {
            spots.push(rng.below(col.len() as u64) as usize);
        }
        for sp in spots {
            for v in [0u64, 1, 2, 0x7f, 0x3f, 0x40, 1 << 32, 1 << 62, (1 << 63) - 1, 1 << 63, u64::MAX] {
                let mut c = col[..sp].to_vec();
                c.extend(uleb(v));
                c.extend(&col[(sp + 1).min(col.len())..]);
                out.push(Mutant { kind: "col-run-header", descr: format!("column {:?} byte {} := uleb {}", f.k, sp, v), data: with_column(data, &fields, ci, &c, false) });
            }
        }
        if ci + 1 < cds.len() {
            // swap the data of two adjacent columns (metadata lengths swapped too)
            let g = cds[ci + 1];
            let other = data[g.off..g.off + g.len].to_vec();
            let d1 = with_column(data, &fields, ci, &other, false);
            if let Some(f2) = layout(ty, &d1) {
                out.push(Mutant { kind: "col-swap", descr: format!("columns {:?} <-> {:?}", f.k, g.k), data: with_column(&d1, &f2, ci + 1, col, false) });
            }
        }
    }
    // column specification edits: type bits, deflate bit, id
    for f in fields.iter().filter(|f| f.k == FK::ColSpec) {
        if let Some((v, _)) = read_uleb(data, f.off) {
            for nv in [v ^ 8, v ^ 1, v ^ 2, v ^ 4, v ^ 7, v + 16, v.wrapping_sub(16), v | 0xf0] {
                out.push(Mutant { kind: "col-spec", descr: format!("spec {} -> {}", v, nv), data: replace(data, f.off, f.len, &uleb(nv)) });
            }
        }
    }
    // 3. ill-formed UTF-8 of the same length in every string-looking position of string-bearing columns, the message, actors
    for f in fields.iter() {
        let stringy = match f.k {
            FK::Str => true,
            FK::ColData(spec, _) => matches!(spec & 7, 5 | 7 | 6) || true,
            _ => false,
        };
        if !stringy {
            continue;
        }
        for (k, (off, l)) in string_sites(data, f.off, f.off + f.len).into_iter().enumerate() {
            let variants = if l == 1 { 2 } else { 5 };
            for v in 0..variants {
                out.push(Mutant { kind: "bad-utf8", descr: format!("{:?}: {} byte(s) at {} ill-formed (variant {})", f.k, l, off, v), data: replace(data, off, l, &bad_utf8(l, v + k as u64)) });
            }
        }
    }
    // 4. hashes and actors
    for f in fields.iter().filter(|f| f.k == FK::Hash || f.k == FK::Actor) {
        if f.len > 0 {
            let mut d = data.to_vec();
            d[f.off] ^= 0x55;
            out.push(Mutant { kind: "id-bytes", descr: format!("{:?}@{} first byte flipped", f.k, f.off), data: d });
        }
    }
    // duplicate first actor into second (actor table not sorted / duplicate)
    let actors: Vec<&Field> = fields.iter().filter(|f| f.k == FK::Actor).collect();
    if actors.len() >= 2 && actors[0].len == actors[1].len {
        let a0 = data[actors[0].off..actors[0].off + actors[0].len].to_vec();
        let a1 = data[actors[1].off..actors[1].off + actors[1].len].to_vec();
        out.push(Mutant { kind: "id-bytes", descr: "actor 1 := actor 0".into(), data: replace(data, actors[1].off, actors[1].len, &a0) });
        let d = replace(data, actors[0].off, actors[0].len, &a1);
        out.push(Mutant { kind: "id-bytes", descr: "actors 0 and 1 swapped".into(), data: replace(&d, actors[1].off, actors[1].len, &a0) });
    }
    if out.len() > budget {
        // keep a deterministic sample, all kinds represented
        rng.shuffle(&mut out);
        out.truncate(budget);
    }
    out
}

/// byte-level mutants: every byte x `nvals` values (small bodies), or a sample
fn byte_mutants(rng: &mut Rng, data: &[u8], nvals: usize, budget: usize) -> Vec<Mutant> {
    let mut out = vec![];
    let total = data.len() * nvals;
    for i in 0..data.len() {
        for k in 0..nvals {
            if total > budget && !rng.chance(budget as u64, total as u64) {
                continue;
            }
            let v = match k {
                0 => data[i] ^ 0x01,
                1 => data[i] ^ 0x80,
                2 => data[i].wrapping_add(1),
                3 => data[i].wrapping_sub(1),
                j => BYTE_VALUES[(j - 4) % 8],
            };
            if v == data[i] {
                continue;
            }
            let mut d = data.to_vec();
            d[i] = v;
            out.push(Mutant { kind: "byte", descr: format!("byte {} := {:#04x}", i, v), data: d });
        }
    }
    // deletions / insertions / truncations
    for _ in 0..(budget / 20).max(4) {
        if data.is_empty() {
            break;
        }
        let i = rng.below(data.len() as u64) as usize;
        let mut d = data.to_vec();
        match rng.below(4) {
            0 => {
                d.remove(i);
                out.push(Mutant { kind: "byte-delete", descr: format!("byte {} deleted", i), data: d });
            }
            1 => {
                let v = *rng.pick(&LEB_EXTREMES);
                let ins = uleb(v);
                let d2 = replace(data, i, 0, &ins);
                out.push(Mutant { kind: "leb-insert", descr: format!("uleb {} inserted at {}", v, i), data: d2 });
            }
            2 => {
                d.truncate(i);
                out.push(Mutant { kind: "truncate", descr: format!("body cut at {}", i), data: d });
            }
            _ => {
                let v = *rng.pick(&LEB_EXTREMES);
                let (_, n) = read_uleb(data, i).unwrap_or((0, 1));
                let d2 = replace(data, i, n.min(data.len() - i), &uleb(v));
                out.push(Mutant { kind: "leb-splice", descr: format!("uleb at {} := {}", i, v), data: d2 });
            }
        }
    }
    out
}

// ---------------------------------------------------------------- corpus of valid encodings
struct Seed {
    name: String,
    enc: TextEncoding,
    doc: Automerge,
    file_nc: Vec<u8>,  // save_nocompress
    file_c: Vec<u8>,   // save (deflate)
    changes: Vec<Change>,
    bundle: Option<Vec<u8>>,
    incr: Vec<u8>,     // save + incremental pieces
    messages: Vec<Vec<u8>>,
    base: Automerge,   // a document holding a prefix of the history (target of load_incremental / apply)
}

fn build_doc(rng: &mut Rng, profile: usize, enc: TextEncoding) -> (AutoCommit, Vec<u8>) {
    let mut d = AutoCommit::new_with_encoding(enc).with_actor(gen::actor(rng, 0));
    let mut incr: Vec<u8> = vec![];
    let cfg = GenCfg::default();
    match profile {
        0 => {
            // tiny: one map key, one text
            let _ = d.put(ROOT, "k\u{e9}", "v\u{6f22}");
            let t = d.put_object(ROOT, "t", ObjType::Text).unwrap();
            let _ = d.splice_text(&t, 0, 0, "hi \u{1F600}");
            d.commit_with(CommitOptions::default().with_message("first \u{e9}").with_time(0));
            incr = d.save_nocompress();
            let _ = d.put(ROOT, "n", 7);
            d.commit_with(CommitOptions::default().with_time(0));
            incr.extend(d.save_incremental());
        }
        1 => {
            // marks, blocks, counters, list with objects, two actors, deletes
            let t = d.put_object(ROOT, "text", ObjType::Text).unwrap();
            let _ = d.splice_text(&t, 0, 0, "hello w\u{f6}rld");
            let _ = d.mark(&t, Mark::new("bold".into(), true, 0, 5), ExpandMark::Both);
            let _ = d.mark(&t, Mark::new("l\u{ef}nk".into(), "http://x", 2, 8), ExpandMark::None);
            let _ = d.split_block(&t, 3);
            let l = d.put_object(ROOT, "list", ObjType::List).unwrap();
            let _ = d.insert(&l, 0, ScalarValue::counter(3));
            let _ = d.insert(&l, 1, "str");
            let m = d.insert_object(&l, 2, ObjType::Map).unwrap();
            let _ = d.put(&m, "deep", ScalarValue::Bytes(vec![1, 2, 255]));
            d.commit_with(CommitOptions::default().with_message("m1").with_time(0));
            incr = d.save_nocompress();
            let mut o = d.fork().with_actor(gen::actor(rng, 1));
            let _ = o.increment(&l, 0, 4);
            let _ = o.put(ROOT, "c", ScalarValue::counter(1));
            let _ = o.splice_text(&t, 1, 2, "EY");
            o.commit_with(CommitOptions::default().with_time(0));
            let _ = d.put(ROOT, "c", 1.5f64);
            let _ = d.delete(&l, 1);
            let _ = d.unmark(&t, "bold", 0, 2, ExpandMark::None);
            d.commit_with(CommitOptions::default().with_message("").with_time(0));
            let _ = d.merge(&mut o);
            incr.extend(d.save_incremental());
            let _ = d.put(ROOT, "after", ScalarValue::Timestamp(-5));
            d.commit_with(CommitOptions::default().with_time(0));
            incr.extend(d.save_incremental());
        }
        2 => {
            // long text: columns above the DEFLATE threshold
            let t = d.put_object(ROOT, "t", ObjType::Text).unwrap();
            let s: String = (0..700).map(|i| (b'a' + ((i * 7 + i / 13) % 26) as u8) as char).collect();
            let _ = d.splice_text(&t, 0, 0, &s);
            for i in 0..40 {
                let _ = d.put(ROOT, format!("key{}", i), format!("value {}", i * i));
            }
            d.commit_with(CommitOptions::default().with_message("big").with_time(0));
            incr = d.save_nocompress();
            let _ = d.splice_text(&t, 10, 5, "\u{1F600}\u{e9}");
            d.commit_with(CommitOptions::default().with_time(0));
            incr.extend(d.save_incremental());
        }
        _ => {
            // random edit programs over 2-3 replicas
            let mut log = vec![];
            let n = rng.range(2, 3) as usize;
            let steps = rng.range(8, 30) as usize;
            let u = crate::fam_hist::build_universe(rng, n, steps, &cfg, &mut log);
            let mut all = AutoCommit::new_with_encoding(TextEncoding::UnicodeCodePoint).with_actor(gen::actor(rng, 9));
            let half = u.changes.len() / 2;
            let _ = all.apply_changes(u.changes[..half].to_vec());
            incr = all.save_nocompress();
            let _ = all.apply_changes(u.changes[half..].to_vec());
            incr.extend(all.save_incremental());
            return (all, incr);
        }
    }
    (d, incr)
}

fn sync_messages(doc: &Automerge, rng: &mut Rng) -> Vec<Vec<u8>> {
    // a peer that has a prefix of the history syncs with the full document
    let changes = doc.get_changes(&[]);
    let mut a = doc.clone();
    let mut b = Automerge::new_with_encoding(doc.text_encoding());
    let k = if changes.is_empty() { 0 } else { rng.below(changes.len() as u64) as usize };
    let _ = b.apply_changes(changes[..k].to_vec());
    let mut sa = sync::State::new();
    let mut sb = sync::State::new();
    let mut out = vec![];
    for _ in 0..8 {
        let mut quiet = true;
        if let Some(m) = a.generate_sync_message(&mut sa) {
            out.push(m.clone().encode());
            let _ = b.receive_sync_message(&mut sb, m);
            quiet = false;
        }
        if let Some(m) = b.generate_sync_message(&mut sb) {
            out.push(m.clone().encode());
            let _ = a.receive_sync_message(&mut sa, m);
            quiet = false;
        }
        if quiet {
            break;
        }
    }
    out
}

fn build_seed(rng: &mut Rng, profile: usize, idx: usize) -> Seed {
    let enc = [TextEncoding::UnicodeCodePoint, TextEncoding::Utf8CodeUnit, TextEncoding::Utf16CodeUnit, TextEncoding::GraphemeCluster][idx % 4];
    let enc = if profile >= 3 { TextEncoding::UnicodeCodePoint } else { enc };
    let (mut ac, incr) = build_doc(rng, profile, enc);
    let changes = ac.get_changes(&[]);
    let doc = ac.document().clone();
    let hashes: Vec<ChangeHash> = changes.iter().map(|c| c.hash()).collect();
    let bundle = doc.bundle(hashes.iter().copied()).ok().map(|b| b.bytes().to_vec());
    let mut base = Automerge::new_with_encoding(enc);
    let _ = base.apply_changes(changes[..changes.len() / 2].to_vec());
    let messages = sync_messages(&doc, rng);
    Seed {
        name: format!("seed{}-profile{}", idx, profile),
        enc,
        file_nc: doc.save_nocompress(),
        file_c: doc.save(),
        changes,
        bundle,
        incr,
        messages,
        base,
        doc,
    }
}

// ---------------------------------------------------------------- stream 3: a document that loaded (C16 / C39)
fn check_string(cx: &mut Cx, s: &str, where_: &str, origin: &dyn Fn() -> J) {
    cx.rep.count("strings_validated");
    if !utf8_ok(s.as_bytes()) || std::str::from_utf8(s.as_bytes()).is_err() {
        cx.fail(&["C39"], &format!("utf8|{}", where_), &format!("a String returned by the library ({}) is not well-formed UTF-8: bytes {}", where_, hex(s.as_bytes())), s.len(), || origin());
    }
}

fn scalar_strings(v: &Value<'_>, out: &mut Vec<String>) {
    if let Value::Scalar(s) = v {
        if let ScalarValue::Str(t) = s.as_ref() {
            out.push(t.to_string());
        }
    }
}

fn hydrate_strings(v: &automerge::hydrate::Value, out: &mut Vec<String>) {
    use automerge::hydrate::Value as H;
    match v {
        H::Scalar(ScalarValue::Str(s)) => out.push(s.to_string()),
        H::Scalar(_) => {}
        H::Map(m) => {
            for (k, mv) in m.iter() {
                out.push(k.clone());
                hydrate_strings(&mv.value, out);
            }
        }
        H::List(l) => {
            for lv in l.iter() {
                hydrate_strings(&lv.value, out);
            }
        }
        H::Text(t) => out.push(t.to_string()),
    }
}

/// all reads of a document; returns a canonical rendering (None if some read panicked)
fn read_everything(cx: &mut Cx, doc: &Automerge, stage: &str, len: usize, origin: &dyn Fn() -> J) -> Option<String> {
    let light = stage == "merged";
    // one entry-point name per read, whatever stage of the C16 exercise the document is in
    let entry = |s: &str| format!("{}:{}", if stage.starts_with("api") { "api-read" } else { "loaded" }, s);
    let props: &[&'static str] = if stage.starts_with("api") { &["C37"] } else { &["C16"] };
    let changes = cx.call(props, &entry("get_changes"), len, origin, || doc.get_changes(&[]))?;
    let cands = cx.call(props, &entry("decode_changes"), len, origin, || object_ids(&changes))?;
    let mut cands = cands;
    if let Some(r) = cx.call(props, &entry("reachable"), len, origin, || gen::reachable(doc)) {
        for x in r {
            if !cands.iter().any(|c| c.0 == x.0) {
                cands.push(x);
            }
        }
    }
    cands.truncate(40);
    let mut strings: Vec<(String, &'static str)> = vec![];
    for c in &changes {
        if let Some(Some(m)) = cx.call(props, &entry("change.message"), len, origin, || c.message().map(|m| m.to_string())) {
            strings.push((m, "change-message"));
        }
    }
    let obs = cx.call(props, &entry("observe"), len, origin, || observe(doc, &cands, None).map(|x| x.0));
    let obs = match obs {
        Some(Ok(o)) => o,
        Some(Err(e)) => {
            cx.fail(&["C16"], &format!("c16|read-error|{}", stage), &format!("a read of a loaded document failed: {}", e), len, || origin());
            return None;
        }
        None => return None,
    };
    let reads = cx.call(props, &entry("render_reads"), len, origin, || render_reads(doc, &cands, None))?;
    let heads = cx.call(props, &entry("get_heads"), len, origin, || doc.get_heads())?;
    let _ = cx.call(props, &entry("get_missing_deps"), len, origin, || doc.get_missing_deps(&heads));
    let _ = cx.call(props, &entry("stats"), len, origin, || doc.stats());
    let hyd = cx.call(props, &entry("hydrate"), len, origin, || doc.hydrate(None))?;
    {
        let mut hs = vec![];
        hydrate_strings(&hyd, &mut hs);
        for s in hs {
            strings.push((s, "hydrate"));
        }
    }
    for (id, _) in &cands {
        if light {
            break;
        }
        let ty = match doc.object_type(id) {
            Ok(t) => t,
            Err(_) => continue,
        };
        if ty.is_sequence() {
            if let Some(Ok(t)) = cx.call(props, &entry("text"), len, origin, || doc.text(id)) {
                strings.push((t, "text"));
            }
            if let Some(Ok(ms)) = cx.call(props, &entry("marks"), len, origin, || doc.marks(id)) {
                for m in ms {
                    strings.push((m.name().to_string(), "mark-name"));
                    let mut v = vec![];
                    scalar_strings(&Value::Scalar(std::borrow::Cow::Borrowed(m.value())), &mut v);
                    for s in v {
                        strings.push((s, "mark-value"));
                    }
                }
            }
            if let Some(Ok(sp)) = cx.call(props, &entry("spans"), len, origin, || doc.spans(id).map(|s| s.collect::<Vec<_>>())) {
                for s in sp {
                    match s {
                        automerge::iter::Span::Text { text, marks } => {
                            strings.push((text, "span-text"));
                            if let Some(ms) = marks {
                                for (n, _) in ms.iter() {
                                    strings.push((n.to_string(), "mark-name"));
                                }
                            }
                        }
                        automerge::iter::Span::Block(m) => {
                            let mut v = vec![];
                            hydrate_strings(&automerge::hydrate::Value::Map(m), &mut v);
                            for s in v {
                                strings.push((s, "block"));
                            }
                        }
                    }
                }
            }
            let n = doc.length(id);
            let _ = cx.call(props, &entry("list_range"), len, origin, || doc.list_range(id, ..).count());
            for i in 0..n.min(24) {
                if let Some(Ok(vs)) = cx.call(props, &entry("get_all"), len, origin, || doc.get_all(id, i)) {
                    let mut v = vec![];
                    for (x, _) in &vs {
                        scalar_strings(x, &mut v);
                    }
                    for s in v {
                        strings.push((s, "value"));
                    }
                }
                let _ = cx.call(props, &entry("get_cursor"), len, origin, || {
                    doc.get_cursor(id, i, None).and_then(|c| doc.get_cursor_position(id, &c, None))
                });
            }
        } else {
            if let Some(keys) = cx.call(props, &entry("keys"), len, origin, || doc.keys(id).collect::<Vec<String>>()) {
                for k in keys.iter().take(40) {
                    strings.push((k.clone(), "key"));
                    if let Some(Ok(vs)) = cx.call(props, &entry("get_all"), len, origin, || doc.get_all(id, k.as_str())) {
                        let mut v = vec![];
                        for (x, _) in &vs {
                            scalar_strings(x, &mut v);
                        }
                        for s in v {
                            strings.push((s, "value"));
                        }
                    }
                }
            }
            let _ = cx.call(props, &entry("map_range"), len, origin, || doc.map_range(id, ..).count());
        }
        let _ = cx.call(props, &entry("parents"), len, origin, || doc.parents(id).map(|p| p.count()));
    }
    // historical reads at the heads of up to three changes
    for c in changes.iter().take(if light { 0 } else { 3 }) {
        let hs = [c.hash()];
        let _ = cx.call(props, &entry("observe_at"), len, origin, || observe(doc, &cands, Some(&hs)).map(|x| x.0));
        let _ = cx.call(props, &entry("hydrate_at"), len, origin, || doc.hydrate(Some(&hs)));
        let _ = cx.call(props, &entry("fork_at"), len, origin, || doc.fork_at(&hs).map(|_| ()));
    }
    for (s, w) in strings {
        check_string(cx, &s, w, origin);
    }
    let mut hsorted = heads.clone();
    hsorted.sort();
    Some(format!("{:?}\n{}\n{}\n{}", hsorted, obs, reads, render_hydrate(&hyd)))
}

/// the fixed edit program: touches every kind of object the document holds
fn edit_program(doc: &mut Automerge, cands: &[(ObjId, ObjType)]) -> Result<(), String> {
    let mut tx = doc.transaction();
    tx.put(ROOT, "robust-key", "robust").map_err(|e| format!("put root: {}", e))?;
    let mut seen = 0;
    for (id, _) in cands.iter() {
        let ty = match tx.object_type(id) {
            Ok(t) => t,
            Err(_) => continue,
        };
        seen += 1;
        if seen > 12 {
            break;
        }
        match ty {
            ObjType::Map | ObjType::Table => {
                tx.put(id, "zz-new", 1).map_err(|e| format!("put {}: {}", id, e))?;
                let keys: Vec<String> = tx.keys(id).take(3).collect();
                for k in keys {
                    let vals = tx.get_all(id, k.as_str()).map_err(|e| format!("get_all {} {:?}: {}", id, k, e))?;
                    if vals.iter().any(|(v, _)| matches!(v, Value::Scalar(s) if matches!(s.as_ref(), ScalarValue::Counter(_)))) {
                        tx.increment(id, k.as_str(), 2).map_err(|e| format!("increment {} {:?}: {}", id, k, e))?;
                    } else if k != "robust-key" && k != "zz-new" {
                        tx.delete(id, k.as_str()).map_err(|e| format!("delete {} {:?}: {}", id, k, e))?;
                        break;
                    }
                }
            }
            ObjType::List => {
                let n = tx.length(id);
                tx.insert(id, 0, "front").map_err(|e| format!("insert {} 0 (len {}): {}", id, n, e))?;
                tx.insert(id, n + 1, 5).map_err(|e| format!("insert {} end (len {}): {}", id, n, e))?;
                if n > 0 {
                    tx.delete(id, 1).map_err(|e| format!("delete {} 1 (len {}): {}", id, n, e))?;
                }
                let n2 = tx.length(id);
                if n2 > 2 {
                    tx.put(id, n2 / 2, true).map_err(|e| format!("put {} {} (len {}): {}", id, n2 / 2, n2, e))?;
                }
            }
            ObjType::Text => {
                let n = tx.length(id);
                tx.splice_text(id, 0, 0, "A").map_err(|e| format!("splice_text {} 0 (len {}): {}", id, n, e))?;
                let n1 = tx.length(id);
                tx.splice_text(id, n1, 0, "Z\u{e9}").map_err(|e| format!("splice_text {} end (len {}): {}", id, n1, e))?;
                let n2 = tx.length(id);
                if n2 >= 4 {
                    tx.splice_text(id, 1, 1, "").map_err(|e| format!("splice_text {} del (len {}): {}", id, n2, e))?;
                    let n3 = tx.length(id);
                    tx.mark(id, Mark::new("robust".into(), true, 0, n3.min(3)), ExpandMark::After).map_err(|e| format!("mark {} (len {}): {}", id, n3, e))?;
                }
            }
        }
    }
    tx.commit();
    Ok(())
}

fn exercise_loaded(cx: &mut Cx, doc: Automerge, how: &str, len: usize, origin: &dyn Fn() -> J) {
    cx.rep.count("c16_loaded_mutants");
    let before = match read_everything(cx, &doc, "loaded", len, origin) {
        Some(r) => r,
        None => return,
    };
    // save -> load -> compare
    let saved = match cx.call(&["C16"], "loaded:save", len, origin, || doc.save()) {
        Some(s) => s,
        None => return,
    };
    match cx.call(&["C16", "C15"], "loaded:reload", len, origin, || Automerge::load_with_options(&saved, LoadOptions::new().text_encoding(doc.text_encoding()))) {
        Some(Ok(re)) => {
            if let Some(after) = read_everything(cx, &re, "reloaded", len, origin) {
                if after != before {
                    cx.fail(&["C16"], &format!("c16|resave-differs|{}", how), "a mutated document loads, but load(save(doc)) renders differently from doc", len, || origin());
                }
            }
        }
        Some(Err(e)) => {
            let class: String = e.to_string().chars().filter(|c| !c.is_ascii_digit()).take(60).collect();
            cx.fail(&["C16"], &format!("c16|resave-rejected|{}", class), &format!("a mutated document loads, but its own save() output is rejected by load: {}", e), len, || origin());
        }
        None => {}
    }
    // merge with a clean replica (both directions)
    let mut clean = Automerge::new_with_encoding(doc.text_encoding()).with_actor(ActorId::from(vec![0xC1, 0xEA]));
    {
        let mut tx = clean.transaction();
        let _ = tx.put(ROOT, "clean", 1);
        let l = tx.put_object(ROOT, "clean-list", ObjType::List);
        if let Ok(l) = l {
            let _ = tx.insert(&l, 0, 1);
        }
        tx.commit();
    }
    {
        let mut a = doc.clone();
        let mut c = clean.clone();
        match cx.call(&["C16"], "loaded:merge", len, origin, || a.merge(&mut c).map(|_| ()).map_err(|e| e.to_string())) {
            Some(Err(e)) => cx.fail(&["C16"], "c16|merge-error", &format!("merging a clean replica into a loaded mutated document failed: {}", e), len, || origin()),
            Some(Ok(())) => {
                let _ = read_everything(cx, &a, "merged", len, origin);
            }
            None => {}
        }
        let mut a2 = doc.clone();
        let mut c2 = clean.clone();
        match cx.call(&["C16"], "loaded:merge-into-clean", len, origin, || c2.merge(&mut a2).map(|_| ()).map_err(|e| e.to_string())) {
            Some(Err(e)) => cx.fail(&["C16"], "c16|merge-error", &format!("merging a loaded mutated document into a clean replica failed: {}", e), len, || origin()),
            Some(Ok(())) => {
                let _ = read_everything(cx, &c2, "merged", len, origin);
            }
            None => {}
        }
    }
    // the edit program, then save -> load again
    {
        let mut e = doc.clone().with_actor(ActorId::from(vec![0xED, 0x17]));
        let cands = match guard(|| {
            let mut c = object_ids(&e.get_changes(&[]));
            c.truncate(40);
            c
        }) {
            Ok(c) => c,
            Err(_) => return,
        };
        match cx.call(&["C16"], "loaded:edit", len, origin, || edit_program(&mut e, &cands)) {
            Some(Err(msg)) => {
                let class: String = msg.split(':').next().unwrap_or("").split(' ').next().unwrap_or("").to_string();
                cx.fail(&["C16"], &format!("c16|edit-error|{}", class), &format!("a valid edit of a loaded mutated document failed: {}", msg), len, || origin());
            }
            Some(Ok(())) => {
                if let Some(r1) = read_everything(cx, &e, "edited", len, origin) {
                    if let Some(s) = cx.call(&["C16"], "edited:save", len, origin, || e.save()) {
                        match cx.call(&["C16", "C15"], "edited:reload", len, origin, || Automerge::load_with_options(&s, LoadOptions::new().text_encoding(e.text_encoding()))) {
                            Some(Ok(re)) => {
                                if let Some(r2) = read_everything(cx, &re, "reloaded", len, origin) {
                                    if r1 != r2 {
                                        cx.fail(&["C16"], "c16|edited-resave-differs", "after the edit program load(save(doc)) renders differently from doc", len, || origin());
                                    }
                                }
                            }
                            Some(Err(er)) => {
                                let class: String = er.to_string().chars().filter(|c| !c.is_ascii_digit()).take(60).collect();
                                cx.fail(&["C16"], &format!("c16|edited-resave-rejected|{}", class), &format!("after the edit program the document's save() output is rejected by load: {}", er), len, || origin());
                            }
                            None => {}
                        }
                    }
                }
            }
            None => {}
        }
    }
}

// ---------------------------------------------------------------- stream 2: the loaders
fn load_variants() -> Vec<(&'static str, OnPartialLoad, VerificationMode, bool)> {
    vec![
        ("load", OnPartialLoad::Error, VerificationMode::Check, false),
        ("load", OnPartialLoad::Ignore, VerificationMode::Check, false),
        ("load", OnPartialLoad::Error, VerificationMode::DontCheck, false),
        ("load", OnPartialLoad::Ignore, VerificationMode::DontCheck, true),
    ]
}

/// feed one (possibly multi-chunk) byte string to every loader; returns the number of loaders that accepted it
fn feed_loaders(cx: &mut Cx, seed: &Seed, bytes: &[u8], origin: &dyn Fn() -> J, exercise: bool) -> usize {
    let len = bytes.len();
    let mut accepted = 0;
    let mut first_loaded: Option<Automerge> = None;
    let mut unverified_loaded: Option<Automerge> = None;
    for (vi, (name, partial, verify, migrate)) in load_variants().into_iter().enumerate() {
        let r = cx.call(&["C15"], name, len, origin, || {
            let mut o = LoadOptions::new().on_partial_load(partial).verification_mode(verify).text_encoding(seed.enc);
            if migrate {
                o = o.migrate_strings(StringMigration::ConvertToText);
            }
            Automerge::load_with_options(bytes, o)
        });
        if let Some(Ok(d)) = r {
            accepted += 1;
            if vi == 0 {
                first_loaded = Some(d);
            } else if vi == 2 && first_loaded.is_none() {
                unverified_loaded = Some(d);
            }
        }
    }
    if let Some(Ok(v)) = cx.call(&["C15"], "rescue", len, origin, || Automerge::rescue(bytes)) {
        let mut hs = vec![];
        hydrate_strings(&v, &mut hs);
        for s in hs {
            check_string(cx, &s, "rescue", origin);
        }
    }
    for (which, target) in [("fresh", Automerge::new_with_encoding(seed.enc)), ("base", seed.base.clone())] {
        let mut t = target;
        let heads_before = t.get_heads();
        let r = cx.call(&["C15"], "load_incremental", len, origin, || t.load_incremental(bytes).map_err(|e| e.to_string()));
        if let Some(Ok(_)) = r {
            cx.rep.count(&format!("load_incremental_ok:{}", which));
            let changed = guard(|| t.get_heads() != heads_before).unwrap_or(true);
            if changed {
                accepted += 1;
            }
            if exercise && which == "base" && first_loaded.is_none() && changed {
                let _ = read_everything(cx, &t, "loaded", len, origin);
            }
        }
    }
    if exercise {
        if let Some(d) = first_loaded {
            exercise_loaded(cx, d, "checked", len, origin);
        } else if let Some(d) = unverified_loaded {
            // accepted only without head verification: reads must still not panic
            cx.rep.count("c16_loaded_unverified_only");
            let _ = read_everything(cx, &d, "loaded", len, origin);
        }
    }
    accepted
}

fn feed_change(cx: &mut Cx, seed: &Seed, bytes: &[u8], origin: &dyn Fn() -> J) {
    let len = bytes.len();
    let c = cx.call(&["C15"], "Change::from_bytes", len, origin, || Change::from_bytes(bytes.to_vec()));
    let _ = cx.call(&["C15"], "Change::try_from", len, origin, || Change::try_from(bytes).map(|_| ()));
    if let Some(Ok(c)) = c {
        cx.rep.count("change_parsed");
        let mut c2 = c.clone();
        let _ = cx.call(&["C15"], "change-accessors", len, origin, || {
            let _ = (c2.hash(), c2.seq(), c2.start_op(), c2.max_op(), c2.len(), c2.timestamp(), c2.deps().len(), c2.actor_id().clone(), c2.extra_bytes().len());
            let _ = c2.bytes().len();
        });
        if let Some(Some(m)) = cx.call(&["C15"], "change-accessors", len, origin, || c.message().map(|m| m.to_string())) {
            check_string(cx, &m, "change-message", origin);
        }
        if let Some(e) = cx.call(&["C15"], "Change::decode", len, origin, || c.decode()) {
            if let Some(m) = &e.message {
                check_string(cx, m, "change-message", origin);
            }
            for op in &e.operations {
                if let automerge::legacy::Key::Map(k) = &op.key {
                    check_string(cx, k, "key", origin);
                }
                match &op.action {
                    automerge::legacy::OpType::Put(ScalarValue::Str(s)) => check_string(cx, s, "value", origin),
                    automerge::legacy::OpType::MarkBegin(m) => {
                        check_string(cx, &m.name, "mark-name", origin);
                        if let ScalarValue::Str(s) = &m.value {
                            check_string(cx, s, "mark-value", origin);
                        }
                    }
                    _ => {}
                }
            }
        }
        for (which, target) in [("fresh", Automerge::new_with_encoding(seed.enc)), ("base", seed.base.clone()), ("full", seed.doc.clone())] {
            let mut t = target;
            let r = cx.call(&["C15"], "apply_changes", len, origin, || t.apply_changes([c.clone()]).map_err(|e| e.to_string()));
            if let Some(Ok(())) = r {
                cx.rep.count(&format!("apply_ok:{}", which));
                if which != "fresh" {
                    // a parsed, applied change: the document must stay consistent
                    exercise_loaded(cx, t, "applied-change", len, origin);
                }
            }
        }
    }
}

fn feed_bundle(cx: &mut Cx, seed: &Seed, bytes: &[u8], origin: &dyn Fn() -> J) {
    let len = bytes.len();
    if let Some(Ok(b)) = cx.call(&["C15"], "Bundle::try_from", len, origin, || Bundle::try_from(bytes)) {
        cx.rep.count("bundle_parsed");
        let _ = cx.call(&["C15"], "bundle-accessors", len, origin, || (b.actors().len(), b.deps().len(), b.bytes().len(), b.iter_changes().count()));
        if let Some(Ok(cs)) = cx.call(&["C15"], "Bundle::to_changes", len, origin, || b.to_changes()) {
            for c in &cs {
                if let Some(m) = c.message() {
                    check_string(cx, m, "change-message", origin);
                }
            }
            let mut t = Automerge::new_with_encoding(seed.enc);
            if let Some(Ok(())) = cx.call(&["C15"], "apply_changes", len, origin, || t.apply_changes(cs.clone()).map_err(|e| e.to_string())) {
                exercise_loaded(cx, t, "applied-bundle", len, origin);
            }
        }
    }
}

fn feed_message(cx: &mut Cx, seed: &Seed, bytes: &[u8], origin: &dyn Fn() -> J) {
    let len = bytes.len();
    if let Some(Ok(m)) = cx.call(&["C15"], "Message::decode", len, origin, || Message::decode(bytes)) {
        cx.rep.count("message_decoded");
        receive(cx, seed, m, len, origin);
    }
}

fn receive(cx: &mut Cx, seed: &Seed, m: Message, len: usize, origin: &dyn Fn() -> J) {
    for (which, target) in [("fresh", Automerge::new_with_encoding(seed.enc)), ("full", seed.doc.clone()), ("base", seed.base.clone())] {
        let mut t = target;
        let mut st = sync::State::new();
        // the receiver may already be in a session
        if which != "fresh" {
            let _ = guard(|| t.generate_sync_message(&mut st));
        }
        let r = cx.call(&["C15"], "receive_sync_message", len, origin, || t.receive_sync_message(&mut st, m.clone()).map_err(|e| e.to_string()));
        if r.is_none() {
            continue;
        }
        for _ in 0..2 {
            match cx.call(&["C15"], "generate_sync_message", len, origin, || t.generate_sync_message(&mut st)) {
                Some(Some(reply)) => {
                    let _ = cx.call(&["C15"], "Message::encode", len, origin, || reply.encode().len());
                }
                _ => break,
            }
        }
        let _ = cx.call(&["C15"], "State::encode", len, origin, || sync::State::decode(&st.encode()).is_ok());
        if let Some(Ok(())) = r {
            if which == "base" {
                let _ = read_everything(cx, &t, "loaded", len, origin);
            }
        }
    }
}

/// all mutants of one chunk body, re-framed with a correct checksum, fed to the loaders that accept this chunk type
fn mutate_chunk(cx: &mut Cx, rng: &mut Rng, seed: &Seed, what: &str, ty: u8, data: &[u8], prefix: &[u8], suffix: &[u8], n_byte: usize, n_struct: usize) {
    let mut ms = structured_mutants(rng, ty, data, n_struct);
    ms.extend(byte_mutants(rng, data, if data.len() < 400 { 6 } else { 3 }, n_byte));
    // chunk type confusion: the same body under another type
    for t2 in 0..4u8 {
        if t2 != ty && t2 != 2 {
            ms.push(Mutant { kind: "chunk-type", descr: format!("type {} body framed as type {}", ty, t2), data: data.to_vec() });
            let last = ms.len() - 1;
            ms[last].descr.push_str(&format!(" #{}", t2));
        }
    }
    let mut jobs: Vec<Job<'_>> = vec![];
    for m in ms {
        let fty = if m.kind == "chunk-type" { m.descr.rsplit('#').next().and_then(|x| x.parse().ok()).unwrap_or(ty) } else { ty };
        let chunk = frame(fty, &m.data);
        let mut file = prefix.to_vec();
        file.extend(&chunk);
        file.extend(suffix);
        cx.rep.case(Some(fnv(&file)));
        cx.rep.count(&format!("mutants:{}", m.kind));
        cx.rep.count(&format!("mutants-of:{}", what));
        let standalone = prefix.is_empty() && suffix.is_empty();
        let thorough = cx.thorough;
        let what_s = what.to_string();
        let what_d = what.to_string();
        let (kind, descr) = (m.kind, m.descr.clone());
        let file_d = file.clone();
        let size = file.len();
        let mdata = m.data;
        jobs.push(Job {
            size,
            descr: Box::new(move || json!({"seed": seed.name, "target": what_d, "mutation": kind, "descr": descr, "bytes": hex(&file_d)})),
            run: Box::new(move |cx: &mut Cx| {
                let mdescr = m.descr.clone();
                let origin = || json!({"seed": seed.name, "target": what_s, "mutation": kind, "descr": mdescr, "bytes": hex(&file)});
                let acc = feed_loaders(cx, seed, &file, &origin, true);
                if acc > 0 {
                    cx.rep.count(&format!("accepted:{}", kind));
                }
                if fty == 1 && standalone {
                    feed_change(cx, seed, &chunk, &origin);
                    // the same change, DEFLATE-compressed (chunk type 2)
                    if kind != "byte" || thorough {
                        let z = frame_compressed(&mdata);
                        let origin_z = || json!({"seed": seed.name, "target": what_s, "mutation": kind, "descr": format!("{} (compressed)", mdescr), "bytes": hex(&z)});
                        feed_change(cx, seed, &z, &origin_z);
                        let _ = feed_loaders(cx, seed, &z, &origin_z, false);
                    }
                    // and inside a sync message
                    if kind != "byte" {
                        let msg = Message { heads: vec![], need: vec![], have: vec![], changes: vec![chunk.clone()].into(), flags: None, version: sync::MessageVersion::V1 };
                        receive(cx, seed, msg, chunk.len(), &origin);
                    }
                }
                if fty == 3 {
                    feed_bundle(cx, seed, &chunk, &origin);
                }
            }),
        });
    }
    run_jobs(cx, jobs);
}

fn stream_documents(cx: &mut Cx, rng: &mut Rng, seeds: &[Seed], n_byte: usize, n_struct: usize) {
    for seed in seeds {
        let t_seed = wall_ms();
        let lost0 = cx.rep.dist.get("jobs_lost").copied().unwrap_or(0);
        // sanity: the originals load
        for (what, f) in [("save_nocompress", &seed.file_nc), ("save", &seed.file_c), ("save+incremental", &seed.incr)] {
            if !matches!(guard(|| Automerge::load_with_options(f, LoadOptions::new().text_encoding(seed.enc)).is_ok()), Ok(true)) {
                cx.fail(&["C15", "C16"], "robust|original-rejected", &format!("the library's own {} does not load", what), f.len(), || json!({"seed": seed.name, "bytes": hex(f)}));
            }
        }
        // the uncompressed document chunk
        for (ty, data) in split_chunks(&seed.file_nc) {
            mutate_chunk(cx, rng, seed, "document", ty, &data, &[], &[], n_byte, n_struct);
        }
        // the compressed document (columns individually deflated): byte mutations land in deflate streams and metadata
        for (ty, data) in split_chunks(&seed.file_c) {
            if data != split_chunks(&seed.file_nc)[0].1 {
                mutate_chunk(cx, rng, seed, "document-deflate", ty, &data, &[], &[], n_byte / 2, n_struct / 2);
            }
        }
        // save + incremental: mutate each chunk in place, the others stay
        let chunks = split_chunks(&seed.incr);
        for (ci, (ty, data)) in chunks.iter().enumerate() {
            if ci == 0 {
                continue;
            }
            let prefix: Vec<u8> = chunks[..ci].iter().flat_map(|(t, d)| frame(*t, d)).collect();
            let suffix: Vec<u8> = chunks[ci + 1..].iter().flat_map(|(t, d)| frame(*t, d)).collect();
            mutate_chunk(cx, rng, seed, "incremental-chunk", *ty, data, &prefix, &suffix, n_byte / 4, n_struct / 4);
        }
        // changes on their own
        for (k, c) in seed.changes.iter().enumerate() {
            if k >= 4 && !cx.thorough {
                break;
            }
            let chunks = split_chunks(c.raw_bytes());
            if let Some((ty, data)) = chunks.first() {
                mutate_chunk(cx, rng, seed, "change", *ty, data, &[], &[], n_byte / 2, n_struct / 2);
            }
        }
        // bundle
        if let Some(b) = &seed.bundle {
            for (ty, data) in split_chunks(b) {
                mutate_chunk(cx, rng, seed, "bundle", ty, &data, &[], &[], n_byte / 2, n_struct / 2);
            }
        }
        // sync messages: bytewise + LEB splices
        for (mi, m) in seed.messages.iter().enumerate() {
            if mi >= 3 && !cx.thorough {
                break;
            }
            let mut jobs: Vec<Job<'_>> = vec![];
            for mu in byte_mutants(rng, m, 4, n_byte / 3) {
                cx.rep.case(Some(fnv(&mu.data)));
                cx.rep.count("mutants-of:sync-message");
                let d2 = mu.data.clone();
                let (kind, descr) = (mu.kind, mu.descr.clone());
                jobs.push(Job {
                    size: mu.data.len(),
                    descr: Box::new(move || json!({"seed": seed.name, "target": "sync-message", "mutation": kind, "descr": descr, "bytes": hex(&d2)})),
                    run: Box::new(move |cx: &mut Cx| {
                        let origin = || json!({"seed": seed.name, "target": "sync-message", "mutation": mu.kind, "descr": mu.descr, "bytes": hex(&mu.data)});
                        feed_message(cx, seed, &mu.data, &origin);
                    }),
                });
            }
            run_jobs(cx, jobs);
        }
        if std::env::var("ROBUST_VERBOSE").is_ok() {
            eprintln!("  {}: {} ms, doc {} bytes, {} changes, jobs lost {}", seed.name, wall_ms() - t_seed, seed.file_nc.len(), seed.changes.len(), cx.rep.dist.get("jobs_lost").copied().unwrap_or(0) - lost0);
        }
    }
}

// ---------------------------------------------------------------- stream 1: small decoders
fn rand_string(rng: &mut Rng) -> String {
    const PIECES: [&str; 28] = ["", "0", "1", "2", "@", "@@", "_root", "-", "+", " ", "aa", "zz", "0f", "F0", "\u{e9}", "\u{6f22}", "\u{1F600}",
        "18446744073709551615", "18446744073709551616", "4294967296", "99999999999999999999999", "00", "a", "g", "\0", "e\u{301}", "|", ":"];
    let n = rng.below(6);
    let mut s = String::new();
    for _ in 0..n {
        let p: &&str = rng.pick(&PIECES[..]);
        s.push_str(p);
    }
    s
}

fn mutate_bytes(rng: &mut Rng, valid: &[u8]) -> Vec<u8> {
    let mut b = valid.to_vec();
    match rng.below(7) {
        0 => {
            if !b.is_empty() {
                let i = rng.below(b.len() as u64) as usize;
                b[i] = rng.next() as u8;
            }
        }
        1 => {
            let i = rng.below(b.len() as u64 + 1) as usize;
            b.truncate(i);
        }
        2 => {
            let i = rng.below(b.len() as u64 + 1) as usize;
            let v = *rng.pick(&LEB_EXTREMES);
            b = replace(&b, i, 0, &uleb(v));
        }
        3 => {
            if !b.is_empty() {
                let i = rng.below(b.len() as u64) as usize;
                let v = *rng.pick(&LEB_EXTREMES);
                let (_, n) = read_uleb(&b, i).unwrap_or((0, 1));
                let n = n.min(b.len() - i);
                b = replace(&b, i, n, &uleb(v));
            }
        }
        4 => {
            if !b.is_empty() {
                let i = rng.below(b.len() as u64) as usize;
                b[i] ^= 1 << rng.below(8);
            }
        }
        5 => {
            let extra = rng.below(4) as usize;
            b.extend(rng.bytes(extra));
        }
        _ => {
            if !b.is_empty() {
                let i = rng.below(b.len() as u64) as usize;
                b.remove(i);
            }
        }
    }
    b
}

fn stream_small(cx: &mut Cx, rng: &mut Rng, seeds: &[Seed], n: usize) {
    // valid encodings to mutate
    let doc = &seeds[1].doc;
    let cands = object_ids(&seeds[1].changes);
    let mut valid_exid: Vec<Vec<u8>> = cands.iter().map(|c| c.0.to_bytes()).collect();
    valid_exid.push(ROOT.to_bytes());
    let mut valid_cursor: Vec<Vec<u8>> = vec![];
    let mut valid_cursor_s: Vec<String> = vec![];
    for (id, t) in &cands {
        if t.is_sequence() {
            for i in 0..doc.length(id).min(4) {
                if let Ok(c) = doc.get_cursor(id, i, None) {
                    valid_cursor.push(c.to_bytes());
                    valid_cursor_s.push(c.to_string());
                }
            }
        }
    }
    let hashes: Vec<ChangeHash> = seeds.iter().flat_map(|s| s.changes.iter().map(|c| c.hash())).collect();
    let bloom_valid: Vec<Vec<u8>> = (0..4).map(|k| BloomFilter::from_hashes(hashes.iter().take(k * 3)).to_bytes()).collect();
    let states: Vec<Vec<u8>> = {
        let mut st = sync::State::new();
        let _ = doc.generate_sync_message(&mut st);
        vec![st.encode(), sync::State::new().encode()]
    };
    let msgs: Vec<Vec<u8>> = seeds.iter().flat_map(|s| s.messages.iter().cloned()).collect();
    let seed = &seeds[1];
    let text_objs: Vec<ObjId> = cands.iter().filter(|c| c.1.is_sequence()).map(|c| c.0.clone()).collect();

    let (valid_exid, valid_cursor, valid_cursor_s, hashes, bloom_valid, states, msgs, text_objs) =
        (&valid_exid, &valid_cursor, &valid_cursor_s, &hashes, &bloom_valid, &states, &msgs, &text_objs);
    let mut jobs: Vec<Job<'_>> = vec![];
    for i in 0..n {
        let r0 = rng.fork();
        jobs.push(Job {
            size: 0,
            descr: Box::new(move || json!({"stream": "small-decoders", "iteration": i})),
            run: Box::new(move |cx: &mut Cx| {
                let mut rr = r0.clone();
                let rng = &mut rr;
        let raw = {
            let l = rng.below(24) as usize;
            rng.bytes(l)
        };
        let pick_or_raw = |rng: &mut Rng, pool: &[Vec<u8>]| -> Vec<u8> {
            if pool.is_empty() || rng.chance(1, 4) {
                raw.clone()
            } else {
                let v = rng.pick(pool).clone();
                mutate_bytes(rng, &v)
            }
        };
        // Bloom filter
        {
            let b = if rng.chance(1, 5) {
                // field-structured: entries / bits per entry / probes at extremes
                let mut v = uleb(*rng.pick(&[0u64, 1, 2, 7, 0xffff_ffff, 0x1_0000_0000, 1 << 28]));
                v.extend(uleb(*rng.pick(&[0u64, 1, 8, 10, 0xffff_ffff, 1 << 28])));
                v.extend(uleb(*rng.pick(&[0u64, 1, 7, 8, 64, 0xffff_ffff, (1 << 28) - 1])));
                let extra = rng.below(6) as usize;
                v.extend(rng.bytes(extra));
                v
            } else {
                pick_or_raw(rng, &bloom_valid)
            };
            let origin = || json!({"decoder": "BloomFilter", "bytes": hex(&b)});
            shared_note(&origin().to_string());
            if let Some(Ok(f)) = cx.call(&["C15"], "BloomFilter::try_from", b.len(), &origin, || BloomFilter::try_from(&b[..])) {
                let h = hashes[i % hashes.len().max(1)];
                let _ = cx.call(&["C15"], "BloomFilter::contains_hash", b.len(), &origin, || f.contains_hash(&h));
                let _ = cx.call(&["C15"], "BloomFilter::to_bytes", b.len(), &origin, || f.to_bytes().len());
            }
            cx.rep.case(None);
        }
        // ObjId / cursor from bytes, then used
        {
            let b = pick_or_raw(rng, &valid_exid);
            let origin = || json!({"decoder": "ObjId", "bytes": hex(&b)});
            shared_note(&origin().to_string());
            if let Some(Ok(id)) = cx.call(&["C15"], "ObjId::try_from", b.len(), &origin, || ObjId::try_from(&b[..])) {
                let _ = cx.call(&["C15", "C37"], "use-decoded-ObjId", b.len(), &origin, || {
                    let _ = doc.object_type(&id);
                    let _ = doc.get(&id, "a");
                    let _ = doc.get(&id, 0usize);
                    let _ = doc.keys(&id).count();
                    let _ = doc.length(&id);
                    let _ = doc.text(&id);
                    let _ = doc.parents(&id).map(|p| p.count());
                    let _ = id.to_string();
                    let _ = id.to_bytes();
                });
            }
            let b = pick_or_raw(rng, &valid_cursor);
            let origin = || json!({"decoder": "Cursor(bytes)", "bytes": hex(&b)});
            shared_note(&origin().to_string());
            if let Some(Ok(c)) = cx.call(&["C15"], "Cursor::try_from(bytes)", b.len(), &origin, || Cursor::try_from(&b[..])) {
                let _ = cx.call(&["C15", "C37"], "use-decoded-Cursor", b.len(), &origin, || {
                    for t in text_objs.iter() {
                        let _ = doc.get_cursor_position(t, &c, None);
                    }
                    let _ = doc.get_cursor_position(ROOT, &c, None);
                    let _ = c.to_string();
                    let _ = c.to_bytes();
                });
            }
            cx.rep.case(None);
        }
        // strings
        {
            let s = if !valid_cursor_s.is_empty() && rng.chance(1, 2) {
                let v = rng.pick(&valid_cursor_s).clone();
                let mut chars: Vec<char> = v.chars().collect();
                if !chars.is_empty() {
                    let k = rng.below(chars.len() as u64) as usize;
                    match rng.below(4) {
                        0 => {
                            chars.remove(k);
                        }
                        1 => chars.insert(k, *rng.pick(&['@', '\u{e9}', '9', '-', 'g', '\u{1F600}'])),
                        2 => chars.truncate(k),
                        _ => chars[k] = *rng.pick(&['@', '\u{e9}', '9', '-', 'z', '|']),
                    }
                }
                chars.into_iter().collect()
            } else {
                rand_string(rng)
            };
            let origin = || json!({"decoder": "strings", "string": s});
            shared_note(&origin().to_string());
            if let Some(Ok(c)) = cx.call(&["C15"], "Cursor::try_from(str)", s.len(), &origin, || Cursor::try_from(s.as_str())) {
                let _ = cx.call(&["C15", "C37"], "use-decoded-Cursor", s.len(), &origin, || {
                    for t in text_objs.iter() {
                        let _ = doc.get_cursor_position(t, &c, None);
                    }
                });
            }
            let _ = cx.call(&["C15"], "ActorId::try_from(str)", s.len(), &origin, || ActorId::try_from(s.as_str()).is_ok());
            let _ = cx.call(&["C15"], "ActorId::from_str", s.len(), &origin, || ActorId::from_str(s.as_str()).is_ok());
            let _ = cx.call(&["C15"], "ChangeHash::from_str", s.len(), &origin, || ChangeHash::from_str(s.as_str()).is_ok());
            let _ = cx.call(&["C15"], "ChangeHash::try_from(bytes)", s.len(), &origin, || ChangeHash::try_from(s.as_bytes()).is_ok());
            if let Some(Ok((id, _))) = cx.call(&["C15"], "import", s.len(), &origin, || doc.import(s.as_str())) {
                let _ = cx.call(&["C15", "C37"], "use-decoded-ObjId", s.len(), &origin, || (doc.object_type(&id).is_ok(), doc.keys(&id).count()));
            }
            if let Some(Ok(id)) = cx.call(&["C15"], "import_obj", s.len(), &origin, || doc.import_obj(s.as_str())) {
                let _ = cx.call(&["C15", "C37"], "use-decoded-ObjId", s.len(), &origin, || (doc.object_type(&id).is_ok(), doc.get(&id, "a").is_ok(), doc.length(&id)));
            }
            cx.rep.case(None);
        }
        // sync state / message
        {
            let b = pick_or_raw(rng, &states);
            let origin = || json!({"decoder": "sync::State", "bytes": hex(&b)});
            shared_note(&origin().to_string());
            if let Some(Ok(st)) = cx.call(&["C15"], "State::decode", b.len(), &origin, || sync::State::decode(&b)) {
                let mut st = st;
                let _ = cx.call(&["C15"], "generate_sync_message", b.len(), &origin, || doc.generate_sync_message(&mut st).map(|m| m.encode().len()));
            }
            let b = pick_or_raw(rng, &msgs);
            let origin = || json!({"decoder": "sync::Message", "bytes": hex(&b)});
            shared_note(&origin().to_string());
            feed_message(cx, seed, &b, &origin);
            cx.rep.case(None);
        }
        // Change / Bundle / document loaders on short random bytes and on randomly mutated files (checksum NOT fixed:
        // the framing and checksum layer itself)
        {
            let pool: Vec<Vec<u8>> = vec![seeds[0].file_nc.clone(), seeds[0].changes[0].raw_bytes().to_vec(), seeds[0].bundle.clone().unwrap_or_default()];
            let b = pick_or_raw(rng, &pool);
            let origin = || json!({"decoder": "chunk", "bytes": hex(&b)});
            shared_note(&origin().to_string());
            let _ = feed_loaders(cx, &seeds[0], &b, &origin, true);
            feed_change(cx, &seeds[0], &b, &origin);
            feed_bundle(cx, &seeds[0], &b, &origin);
            // a random body under a correct frame
            let ty = rng.below(4) as u8;
            let body = raw.clone();
            let f = frame(ty, &body);
            let origin = || json!({"decoder": "chunk(random body, right checksum)", "bytes": hex(&f)});
            shared_note(&origin().to_string());
            let _ = feed_loaders(cx, &seeds[0], &f, &origin, true);
            feed_change(cx, &seeds[0], &f, &origin);
            cx.rep.case(None);
        }
        // hexane columns
        {
            let b = if rng.chance(1, 3) {
                // structured: run headers with extreme counts
                let mut v = vec![];
                for _ in 0..rng.range(1, 4) {
                    match rng.below(4) {
                        0 => {
                            v.extend(sleb(*rng.pick(&[2i64, 3, 64, i64::MAX, 1 << 40])));
                            v.extend(uleb(rng.below(300)));
                        }
                        1 => {
                            let k = rng.range(1, 3) as i64;
                            v.extend(sleb(-k));
                            for j in 0..k {
                                v.extend(uleb(rng.below(200) + j as u64 * 256));
                            }
                        }
                        2 => {
                            v.push(0);
                            v.extend(uleb(*rng.pick(&[1u64, 2, 1 << 32, u64::MAX, (1 << 63) - 1])));
                        }
                        _ => v.extend(sleb(*rng.pick(&[i64::MIN, i64::MIN + 1, -(1 << 40)]))),
                    }
                }
                v
            } else {
                raw.clone()
            };
            let origin = || json!({"decoder": "hexane::Column", "bytes": hex(&b)});
            shared_note(&origin().to_string());
            hexane_columns(cx, &b, &origin);
            cx.rep.case(None);
        }
                }),
        });
        if jobs.len() >= 250 {
            run_jobs(cx, std::mem::take(&mut jobs));
        }
    }
    run_jobs(cx, jobs);
}

fn hexane_columns(cx: &mut Cx, b: &[u8], origin: &dyn Fn() -> J) {
    use hexane::{Column, DeltaColumn};
    const CAP: usize = 2000;
    macro_rules! col {
        ($t:ty, $name:expr) => {
            if let Some(Ok(c)) = cx.call(&["C15"], concat!("hexane::Column::<", $name, ">::load"), b.len(), origin, || Column::<$t>::load(b)) {
                let _ = cx.call(&["C15"], concat!("hexane::Column::<", $name, ">::read"), b.len(), origin, || {
                    let n = c.iter().runs().take(CAP).count();
                    let m = c.iter().take(CAP).count();
                    let _ = c.get(0);
                    let l = c.len();
                    if l > 0 {
                        let _ = c.get(l - 1);
                    }
                    (n, m, c.save().len())
                });
            }
        };
    }
    col!(u64, "u64");
    col!(Option<u64>, "Option<u64>");
    col!(i64, "i64");
    col!(Option<i64>, "Option<i64>");
    col!(Vec<u8>, "Vec<u8>");
    col!(bool, "bool");
    // strings: every value handed out is re-validated
    if let Some(Ok(c)) = cx.call(&["C15"], "hexane::Column::<String>::load", b.len(), origin, || Column::<String>::load(b)) {
        if let Some(vals) = cx.call(&["C15"], "hexane::Column::<String>::read", b.len(), origin, || {
            c.iter().runs().take(CAP).map(|r| <String as hexane::ColumnValueRef>::to_owned(r.value)).collect::<Vec<String>>()
        }) {
            for s in vals {
                check_string(cx, &s, "hexane-string-column", origin);
            }
        }
    }
    if let Some(Ok(c)) = cx.call(&["C15"], "hexane::Column::<Option<String>>::load", b.len(), origin, || Column::<Option<String>>::load(b)) {
        if let Some(vals) = cx.call(&["C15"], "hexane::Column::<Option<String>>::read", b.len(), origin, || {
            c.iter().runs().take(CAP).filter_map(|r| <Option<String> as hexane::ColumnValueRef>::to_owned(r.value)).collect::<Vec<String>>()
        }) {
            for s in vals {
                check_string(cx, &s, "hexane-string-column", origin);
            }
        }
    }
    if let Some(Ok(c)) = cx.call(&["C15"], "hexane::DeltaColumn::<i64>::load", b.len(), origin, || DeltaColumn::<i64>::load(b)) {
        let _ = cx.call(&["C15"], "hexane::DeltaColumn::<i64>::read", b.len(), origin, || (c.iter().take(CAP).count(), c.len(), c.save().len()));
    }
    if let Some(Ok(c)) = cx.call(&["C15"], "hexane::DeltaColumn::<Option<u64>>::load", b.len(), origin, || DeltaColumn::<Option<u64>>::load(b)) {
        let _ = cx.call(&["C15"], "hexane::DeltaColumn::<Option<u64>>::read", b.len(), origin, || (c.iter().take(CAP).count(), c.len(), c.save().len()));
    }
}

// ---------------------------------------------------------------- stream 4: argument validation of the public API (C37)
struct Pools {
    objs: Vec<(ObjId, &'static str)>,
    heads: Vec<(Vec<ChangeHash>, &'static str)>,
    idx: Vec<usize>,
    cursors: Vec<Cursor>,
}

fn pools(doc: &Automerge, other: &Automerge, rng: &mut Rng) -> Pools {
    let changes = doc.get_changes(&[]);
    let mut objs: Vec<(ObjId, &'static str)> = vec![(ROOT, "root")];
    for (id, t) in object_ids(&changes).into_iter().skip(1).take(12) {
        objs.push((id, match t {
            ObjType::Map => "map",
            ObjType::Table => "table",
            ObjType::List => "list",
            ObjType::Text => "text",
        }));
    }
    let actor = doc.get_actor().clone();
    objs.push((ObjId::Id(9_999, actor.clone(), 0), "unknown-counter"));
    objs.push((ObjId::Id(1, ActorId::from(vec![0xde, 0xad]), 0), "unknown-actor"));
    objs.push((ObjId::Id(1, actor.clone(), 77), "wrong-index-hint"));
    objs.push((ObjId::Id(u64::MAX, actor.clone(), 0), "huge-counter"));
    objs.push((ObjId::Id(u32::MAX as u64 + 1, actor.clone(), usize::MAX), "counter-above-u32"));
    for (id, _) in object_ids(&other.get_changes(&[])).into_iter().skip(1).take(3) {
        objs.push((id, "foreign"));
    }
    let hs: Vec<ChangeHash> = changes.iter().map(|c| c.hash()).collect();
    let mut heads: Vec<(Vec<ChangeHash>, &'static str)> = vec![(vec![], "empty"), (doc.get_heads(), "current")];
    if !hs.is_empty() {
        let a = hs[rng.below(hs.len() as u64) as usize];
        let b = hs[rng.below(hs.len() as u64) as usize];
        heads.push((vec![a], "one"));
        heads.push((vec![hs[0], *hs.last().unwrap()], "non-antichain"));
        heads.push((vec![a, a], "duplicate"));
        heads.push((vec![a, b], "two"));
        heads.push((vec![a, ChangeHash([0xab; 32])], "known+unknown"));
        let mut all = hs.clone();
        all.reverse();
        heads.push((all, "all-reversed"));
    }
    heads.push((vec![ChangeHash([0xab; 32])], "unknown"));
    heads.push((other.get_heads(), "foreign"));
    let mut cursors = vec![];
    for d in [doc, other] {
        for (id, t) in object_ids(&d.get_changes(&[])) {
            if t.is_sequence() {
                let n = d.length(&id);
                for i in [0, n / 2, n.saturating_sub(1)] {
                    if let Ok(c) = d.get_cursor(&id, i, None) {
                        cursors.push(c);
                    }
                }
            }
        }
    }
    if let Ok(c) = Cursor::try_from("2@dead") {
        cursors.push(c);
    }
    if let Ok(c) = Cursor::try_from(&[0u8, 1, 0xff, 0xff, 0xff, 0xff, 0x1f, 0x10][..]) {
        cursors.push(c);
    }
    Pools { objs, heads, idx: vec![0, 1, 2, 5, 1000, usize::MAX / 2, usize::MAX - 1, usize::MAX], cursors }
}

fn stream_api(cx: &mut Cx, rng: &mut Rng, seeds: &[Seed], per_doc: usize) {
    for (si, seed) in seeds.iter().enumerate() {
        let other = &seeds[(si + 1) % seeds.len()].doc;
        let p = pools(&seed.doc, other, rng);
        let base = {
            let mut ac = AutoCommit::new_with_encoding(seed.enc).with_actor(ActorId::from(vec![0xA7, si as u8]));
            let _ = ac.apply_changes(seed.changes.clone());
            ac
        };
        let big: String = "x\u{1F600}".repeat(3_000);
        let (p, base, big) = (&p, &base, &big);
        let thorough = cx.thorough;
        let mut jobs: Vec<Job<'_>> = vec![];
        for k in 0..per_doc {
            let r0 = rng.fork();
            cx.rep.case(Some(fnv(format!("{}-{}", seed.name, k).as_bytes())));
            jobs.push(Job {
                size: 0,
                descr: Box::new(move || json!({"stream": "api", "seed": seed.name, "call#": k})),
                run: Box::new(move |cx: &mut Cx| {
                    let mut rr = r0.clone();
                    let rng = &mut rr;
                    let _ = thorough;
            let (obj, oname) = rng.pick(&p.objs).clone();
            let (heads, hname) = rng.pick(&p.heads).clone();
            let len = guard(|| seed.doc.length(&obj)).unwrap_or(0);
            let mut ix = p.idx.clone();
            ix.extend([len, len.saturating_sub(1), len + 1]);
            let i = *rng.pick(&ix);
            let j = *rng.pick(&ix);
            let key = rng.pick(&["", "a", "k\u{e9}", "text", "list", "c", "\0", "zz-absent"]).to_string();
            let origin = || json!({"seed": seed.name, "obj": format!("{} ({})", obj, oname), "heads": hname, "i": i.to_string(), "j": j.to_string(), "key": key, "call#": k});
            shared_note(&origin().to_string());
            let which = rng.below(40);
            let mut d = base.clone();
            let doc = &seed.doc;
            macro_rules! api {
                ($name:expr, $body:expr) => {{
                    cx.rep.count(&format!("api-args:{}:{}", oname, hname));
                    let _ = cx.call(&["C37"], concat!("api:", $name), 0, &origin, || $body);
                }};
            }
            match which {
                0 => api!("get", (doc.get(&obj, i).is_ok(), doc.get(&obj, key.as_str()).is_ok(), doc.get_all(&obj, i).is_ok(), doc.get_all(&obj, key.as_str()).is_ok())),
                1 => api!("get_at", (doc.get_at(&obj, i, &heads).is_ok(), doc.get_at(&obj, key.as_str(), &heads).is_ok(), doc.get_all_at(&obj, i, &heads).is_ok(), doc.get_all_at(&obj, key.as_str(), &heads).is_ok())),
                2 => api!("keys/length/values", (doc.keys(&obj).count(), doc.length(&obj), doc.values(&obj).count(), doc.object_type(&obj).is_ok())),
                3 => api!("keys_at/length_at/values_at", (doc.keys_at(&obj, &heads).count(), doc.length_at(&obj, &heads), doc.values_at(&obj, &heads).count())),
                4 => api!("list_range", (doc.list_range(&obj, i..j).count(), doc.list_range(&obj, j..i).count(), doc.list_range(&obj, i..).count(), doc.list_range(&obj, ..=j.min(usize::MAX - 1)).count())),
                5 => api!("list_range_at", (doc.list_range_at(&obj, i..j, &heads).count(), doc.list_range_at(&obj, j..i, &heads).count())),
                6 => api!("map_range", {
                    let (a, b) = (key.clone(), "m".to_string());
                    (doc.map_range(&obj, a.clone()..b.clone()).count(), doc.map_range(&obj, b.clone()..a.clone()).count(), doc.map_range_at(&obj, a..b, &heads).count())
                }),
                7 => api!("text/marks/spans", (doc.text(&obj).is_ok(), doc.marks(&obj).is_ok(), doc.spans(&obj).map(|s| s.count()).is_ok(), doc.get_marks(&obj, i, None).is_ok())),
                8 => api!("text_at/marks_at/spans_at", (doc.text_at(&obj, &heads).is_ok(), doc.marks_at(&obj, &heads).is_ok(), doc.spans_at(&obj, &heads).map(|s| s.count()).is_ok(), doc.get_marks(&obj, i, Some(&heads)).is_ok())),
                9 => api!("parents", (doc.parents(&obj).map(|p| p.count()).is_ok(), doc.parents_at(&obj, &heads).map(|p| p.count()).is_ok())),
                10 => api!("get_cursor", (doc.get_cursor(&obj, i, None).is_ok(), doc.get_cursor(&obj, i, Some(&heads)).is_ok(),
                    doc.get_cursor_moving(&obj, i, Some(&heads), automerge::MoveCursor::Before).is_ok())),
                11 => api!("get_cursor_position", {
                    let mut n = 0;
                    for c in &p.cursors {
                        n += doc.get_cursor_position(&obj, c, None).is_ok() as usize;
                        n += doc.get_cursor_position(&obj, c, Some(&heads)).is_ok() as usize;
                    }
                    n
                }),
                12 => api!("hydrate", (doc.hydrate(Some(&heads)), ReadDoc::hydrate(doc, &obj, Some(&heads)).is_ok(), ReadDoc::hydrate(doc, &obj, None).is_ok())),
                13 => api!("fork_at", doc.fork_at(&heads).map(|f| f.get_heads().len()).map_err(|e| e.to_string())),
                14 => api!("get_changes", (doc.get_changes(&heads).len(), doc.get_changes_meta(&heads).len(), doc.get_missing_deps(&heads).len(), doc.get_change_by_hash(heads.first().unwrap_or(&ChangeHash([0; 32]))).is_some())),
                15 => api!("diff", {
                    let (h2, _) = rng.pick(&p.heads).clone();
                    (doc.diff(&heads, &h2).len(), d.diff(&h2, &heads).len(), doc.diff_obj(&obj, &heads, &h2, true).map(|p| p.len()).is_ok())
                }),
                16 => api!("isolate", {
                    d.isolate(&heads);
                    let r = d.put(ROOT, "iso", 1).is_ok();
                    let l = d.length(&obj);
                    let g = d.get(&obj, i).is_ok();
                    d.commit();
                    d.integrate();
                    (r, l, g, d.get_heads().len())
                }),
                17 => api!("transaction_at", {
                    let mut a = doc.clone();
                    let r = match a.transaction_at(automerge::PatchLog::inactive(), &heads) {
                        Ok(mut tx) => {
                            let r = tx.put(&obj, key.as_str(), 1).is_ok();
                            let r2 = tx.insert(&obj, i, 1).is_ok();
                            let g = tx.get(&obj, i).is_ok();
                            tx.commit();
                            (r, r2, g)
                        }
                        Err(_) => (false, false, false),
                    };
                    r
                }),
                18 => api!("save_after", (doc.save_after(&heads).len(), d.save_after(&heads).len())),
                19 => api!("put", (d.put(&obj, key.as_str(), 1).is_ok(), d.put(&obj, i, "v").is_ok(), d.put(&obj, "", ScalarValue::Null).is_ok(), d.commit().is_some())),
                20 => api!("put_object", (d.put_object(&obj, key.as_str(), ObjType::Text).is_ok(), d.put_object(&obj, i, ObjType::Map).is_ok(), d.put_object(&obj, "t", ObjType::Table).is_ok(), d.commit().is_some())),
                21 => api!("insert", (d.insert(&obj, i, 1).is_ok(), d.insert_object(&obj, j, ObjType::List).is_ok(), d.commit().is_some())),
                22 => api!("delete", (d.delete(&obj, i).is_ok(), d.delete(&obj, key.as_str()).is_ok(), d.delete(&obj, j).is_ok(), d.commit().is_some())),
                23 => api!("increment", (d.increment(&obj, key.as_str(), i64::MIN).is_ok(), d.increment(&obj, key.as_str(), i64::MAX).is_ok(), d.increment(&obj, i, i64::MAX).is_ok(),
                    d.increment(&obj, "c", i64::MAX).is_ok(), d.increment(&obj, "c", i64::MAX).is_ok(), d.get(&obj, "c").is_ok(), d.commit().is_some())),
                24 => api!("splice", {
                    let del = *rng.pick(&[0isize, 1, -1, isize::MAX, isize::MIN, 1000]);
                    (d.splice(&obj, i, del, vec![ScalarValue::Int(1)]).is_ok(), d.splice(&obj, 0, del, Vec::<ScalarValue>::new()).is_ok(), d.commit().is_some())
                }),
                25 => api!("splice_text", {
                    let del = *rng.pick(&[0isize, 1, -1, isize::MAX, isize::MIN, 1000]);
                    (d.splice_text(&obj, i, del, "s\u{e9}").is_ok(), d.splice_text(&obj, 0, del, "").is_ok(), d.splice_text(&obj, len, 0, "e\u{301}\u{1F468}\u{200D}\u{1F469}").is_ok(), d.commit().is_some())
                }),
                26 => api!("mark", {
                    let ex = *rng.pick(&[ExpandMark::None, ExpandMark::Both, ExpandMark::Before, ExpandMark::After]);
                    (d.mark(&obj, Mark::new("m".into(), true, i, j), ex).is_ok(), d.mark(&obj, Mark::new("".into(), ScalarValue::Null, j, i), ex).is_ok(),
                        d.mark(&obj, Mark::new("m".into(), 1, 0, 0), ex).is_ok(), d.unmark(&obj, "m", i, j, ex).is_ok(), d.unmark(&obj, "absent", j, i, ex).is_ok(),
                        d.marks(&obj).is_ok(), d.commit().is_some())
                }),
                27 => api!("split_block/join_block", (d.split_block(&obj, i).is_ok(), d.join_block(&obj, i).is_ok(), d.replace_block(&obj, j).is_ok(), d.join_block(&obj, j).is_ok(), d.spans(&obj).map(|s| s.count()).is_ok(), d.commit().is_some())),
                28 => api!("update_text", (d.update_text(&obj, "new t\u{e9}xt").is_ok(), d.update_text(&obj, "").is_ok(), d.commit().is_some())),
                29 => api!("update_object", {
                    let v1 = automerge::hydrate::Value::from(vec![automerge::hydrate::Value::from(1), automerge::hydrate::Value::from("x")]);
                    let v2: automerge::hydrate::Value = automerge::hydrate::Map::from(std::collections::HashMap::from([("k".to_string(), automerge::hydrate::Value::from(1))])).into();
                    (d.update_object(&obj, &v1).is_ok(), d.update_object(&obj, &v2).is_ok(), d.commit().is_some())
                }),
                30 => api!("huge-string", (d.put(&obj, key.as_str(), big.as_str()).is_ok(), d.splice_text(&obj, 0, 0, &big).is_ok(), d.put(ROOT, big.as_str(), 1).is_ok(), d.commit().is_some(), d.save().len())),
                31 => api!("apply_patches", {
                    // patches the library itself produced, applied to the hydrated value they start from
                    let (h2, _) = rng.pick(&p.heads).clone();
                    let mut v = doc.hydrate(Some(&heads));
                    let patches = doc.diff(&heads, &h2);
                    let n = patches.len();
                    let r = v.apply_patches(seed.enc, patches);
                    (n, r.is_ok())
                }),
                32 => api!("hash_for_opid/import", (doc.hash_for_opid(&obj).is_some(), doc.import(&obj.to_string()).is_ok(), doc.import_obj(&obj.to_string()).is_ok())),
                33 => api!("bundle", {
                    let r = doc.bundle(heads.iter().copied()).map(|b| b.bytes().len()).map_err(|e| e.to_string());
                    r
                }),
                34 => api!("merge/get_changes_added", {
                    let mut o = other.clone();
                    let mut a = doc.clone();
                    (a.get_changes_added(&o).len(), a.merge(&mut o).map(|h| h.len()).map_err(|e| e.to_string()))
                }),
                35 => api!("iter", (doc.iter().take(500).count(), doc.iter_at(&obj, Some(&heads)).take(500).count())),
                36 => api!("fragments", (doc.fragments(..).len(), doc.get_fragment(*heads.first().unwrap_or(&ChangeHash([0; 32]))).is_some())),
                37 => api!("batch_create_object", {
                    let v: automerge::hydrate::Value = automerge::hydrate::Map::from(std::collections::HashMap::from([("k".to_string(), automerge::hydrate::Value::from("v"))])).into();
                    (d.batch_create_object(&obj, key.as_str(), &v, false).is_ok(), d.batch_create_object(&obj, i, &v, true).is_ok(), d.commit().is_some())
                }),
                38 => api!("update_spans", {
                    let spans = vec![automerge::iter::Span::Text { text: "ab".into(), marks: None }];
                    (d.update_spans(&obj, automerge::marks::UpdateSpansConfig::default(), spans).is_ok(), d.commit().is_some())
                }),
                _ => api!("text-counter", {
                    // a counter put into a sequence element, then incremented and read
                    let obj = p.objs.iter().find(|o| o.1 == (if k % 2 == 0 { "text" } else { "list" })).map(|o| o.0.clone()).unwrap_or(obj.clone());
                    let len = d.length(&obj);
                    let i = if len == 0 { 0 } else { i % len };
                    let r1 = d.put(&obj, i.min(len.saturating_sub(1)), ScalarValue::counter(1)).is_ok();
                    let r2 = d.increment(&obj, i.min(len.saturating_sub(1)), 2).is_ok();
                    let g = d.get(&obj, i.min(len.saturating_sub(1))).is_ok();
                    let ga = d.get_all(&obj, i.min(len.saturating_sub(1))).is_ok();
                    let t = d.text(&obj).is_ok();
                    (r1, r2, g, ga, t, d.commit().is_some())
                }),
            }
            // after a mutating call the document must still be readable / savable
            if which >= 16 && which != 30 && k % 8 == 0 {
                let dd = d.document().clone();
                let _ = read_everything(cx, &dd, "api", 0, &origin);
                let s = cx.call(&["C37"], "api:save-after-call", 0, &origin, || d.save());
                if let Some(s) = s {
                    if let Some(Err(e)) = cx.call(&["C37", "C15"], "api:reload-after-call", 0, &origin, || Automerge::load_with_options(&s, LoadOptions::new().text_encoding(seed.enc)).map(|_| ())) {
                        cx.fail(&["C37"], "api|save-rejected", &format!("after a (possibly failed) API call the document's save() output does not load: {}", e), 0, || origin());
                    }
                }
            }
                        }),
            });
        }
        run_jobs(cx, jobs);
    }
}

// ---------------------------------------------------------------- model cases: Rust's from_utf8 against the model validators
fn utf8_cases(cx: &mut Cx, rng: &mut Rng, cw: &mut CaseWriter, n: usize) {
    let samples: [&[u8]; 14] = [b"", b"abc", "\u{e9}".as_bytes(), "\u{6f22}\u{5b57}".as_bytes(), "\u{1F600}".as_bytes(), &[0xc0, 0x80], &[0xed, 0xa0, 0x80], &[0xf4, 0x90, 0x80, 0x80],
        &[0xe0, 0x80, 0x80], &[0xf0, 0x80, 0x80, 0x80], &[0xe6, 0xbc], &[0x80], &[0xff], "\u{10FFFF}\u{D7FF}\u{E000}\u{7ff}\u{800}\u{ffff}\u{10000}".as_bytes()];
    for k in 0..n {
        let b: Vec<u8> = if k < samples.len() {
            samples[k].to_vec()
        } else {
            let mut v = vec![];
            for _ in 0..rng.range(1, 4) {
                match rng.below(6) {
                    0 => v.push(rng.below(128) as u8),
                    1 => v.extend(rng.pick(&gen::STRS).as_bytes()),
                    2 => {
                        let c = char::from_u32(*rng.pick(&[0x7fu32, 0x80, 0x7ff, 0x800, 0xd7ff, 0xe000, 0xfffd, 0xffff, 0x10000, 0x10ffff])).unwrap();
                        v.extend(c.to_string().as_bytes());
                    }
                    3 => {
                        let l = rng.range(1, 4) as usize;
                        v.extend(bad_utf8(l, rng.below(5)));
                    }
                    4 => {
                        // boundary lead / continuation bytes
                        v.push(*rng.pick(&[0xc1u8, 0xc2, 0xdf, 0xe0, 0xe1, 0xec, 0xed, 0xee, 0xef, 0xf0, 0xf1, 0xf3, 0xf4, 0xf5]));
                        for _ in 0..rng.below(4) {
                            v.push(*rng.pick(&[0x7fu8, 0x80, 0x8f, 0x90, 0x9f, 0xa0, 0xbf, 0xc0]));
                        }
                    }
                    _ => {
                        let l = rng.below(4) as usize;
                        v.extend(rng.bytes(l));
                    }
                }
            }
            v
        };
        let ok = std::str::from_utf8(&b).is_ok();
        if ok != utf8_ok(&b) {
            cx.fail(&["C39"], "utf8|validators-disagree", "std::str::from_utf8 and the harness' table 3-7 validator disagree", b.len(), || json!({"bytes": hex(&b)}));
        }
        cw.push(format!("chk_utf8 {} {}", coq_bytes(&b), coq_bool(ok)), json!({"kind": "utf8", "props": ["C39"], "bytes": hex(&b)}));
        cx.rep.case(None);
    }
}

/// replay aid: ROBUST_PROBE=<hex bytes> [ROBUST_FIX=1 to recompute the checksum of the first chunk] runs every byte-level
/// entry point on that input, one after the other, each in the panic guard, and prints what happened
fn probe(hexs: &str) {
    if hexs == "textcounter" {
        let mut d = AutoCommit::new();
        let t = d.put_object(ROOT, "t", ObjType::Text).unwrap();
        d.splice_text(&t, 0, 0, "abc").unwrap();
        println!("put counter: {:?}", d.put(&t, 1, ScalarValue::counter(1)).map_err(|e| e.to_string()));
        println!("increment  : {:?}", d.increment(&t, 1, 2).map_err(|e| e.to_string()));
        println!("get        : {:?}", guard(|| format!("{:?}", d.get(&t, 1))).map_err(|p| p.message));
        return;
    }
    let mut b = unhex(hexs);
    if std::env::var("ROBUST_FIX").is_ok() {
        let ch = split_chunks(&b);
        if let Some((ty, d)) = ch.first() {
            b = frame(*ty, d);
        }
    }
    let show = |name: &str, r: Result<String, PanicInfo>| match r {
        Ok(s) => println!("{:28} -> {}", name, s),
        Err(p) => println!("{:28} -> PANIC {} at {}", name, p.message.lines().next().unwrap_or(""), p.location),
    };
    show("Automerge::load", guard(|| match Automerge::load(&b) {
        Ok(d) => format!("Ok heads={} changes={:?}", d.get_heads().len(), guard(|| d.get_changes(&[]).iter().map(|c| c.message().map(|m| hex(m.as_bytes()))).collect::<Vec<_>>()).map_err(|p| p.message)),
        Err(e) => format!("Err {}", e),
    }));
    if let Ok(Ok(d)) = guard(|| Automerge::load(&b)) {
        let mut cx = Cx::new(false);
        let o = || json!({});
        let r1 = read_everything(&mut cx, &d, "loaded", b.len(), &o);
        let saved = d.save();
        let r2 = match Automerge::load(&saved) {
            Ok(re) => read_everything(&mut cx, &re, "reloaded", b.len(), &o),
            Err(e) => {
                println!("reload of save(): Err {}", e);
                None
            }
        };
        if let (Some(a), Some(c)) = (r1, r2) {
            if a != c {
                let k = a.bytes().zip(c.bytes()).position(|(x, y)| x != y).unwrap_or(a.len().min(c.len()));
                let lo = k.saturating_sub(200);
                println!("load(save(doc)) differs from doc at byte {}:\n  doc     : ...{}\n  reloaded: ...{}", k,
                    a.chars().skip(lo).take(500).collect::<String>(), c.chars().skip(lo).take(500).collect::<String>());
            } else {
                println!("load(save(doc)) renders like doc");
            }
        }
        for (sig, f) in &cx.found {
            println!("  finding {} : {}", sig, f.what);
        }
    }
    show("load_incremental(fresh)", guard(|| format!("{:?}", Automerge::new().load_incremental(&b).map_err(|e| e.to_string()))));
    show("Automerge::rescue", guard(|| format!("{:?}", Automerge::rescue(&b).map(|_| ()).map_err(|e| e.to_string()))));
    show("Change::from_bytes", guard(|| match Change::from_bytes(b.clone()) {
        Ok(c) => format!("Ok seq={} start_op={} message={:?}", c.seq(), c.start_op(), c.message().map(|m| hex(m.as_bytes()))),
        Err(e) => format!("Err {}", e),
    }));
    show("Bundle::try_from", guard(|| match Bundle::try_from(&b[..]) {
        Ok(bd) => match guard(|| bd.to_changes()) {
            Ok(Ok(cs)) => format!("Ok; to_changes Ok: messages (hex) {:?} utf8_ok {:?}", cs.iter().map(|c| c.message().map(|m| hex(m.as_bytes()))).collect::<Vec<_>>(),
                cs.iter().map(|c| c.message().map(|m| utf8_ok(m.as_bytes()))).collect::<Vec<_>>()),
            Ok(Err(e)) => format!("Ok; to_changes Err {}", e),
            Err(p) => format!("Ok; to_changes PANIC {} at {}", p.message.lines().next().unwrap_or(""), p.location),
        },
        Err(e) => format!("Err {}", e),
    }));
    show("Message::decode", guard(|| format!("{:?}", Message::decode(&b).map(|_| ()).map_err(|e| e.to_string()))));
}

pub fn run(rng: &mut Rng, tier: &str, out: &str) -> Report {
    if let Ok(h) = std::env::var("ROBUST_PROBE") {
        probe(&h);
        std::process::exit(0);
    }
    let thorough = tier == "thorough";
    let mut cx = Cx::new(thorough);
    let mut cw = CaseWriter::new(out, "robust", HEADER, 100);
    let n_seeds = if thorough { 12 } else { 4 };
    let seeds: Vec<Seed> = (0..n_seeds).map(|i| build_seed(rng, if i < 3 { i } else { 3 }, i)).collect();
    for s in &seeds {
        cx.rep.add("seed_doc_bytes", s.file_nc.len() as u64);
        cx.rep.add("seed_changes", s.changes.len() as u64);
    }
    cx.rep.sample(json!({"kind": "seed", "name": seeds[1].name, "doc_bytes": seeds[1].file_nc.len(), "changes": seeds[1].changes.len(), "messages": seeds[1].messages.len()}));
    let t0 = wall_ms();
    let only = std::env::var("ROBUST_ONLY").unwrap_or_default();
    let want = |s: &str| only.is_empty() || only == s;
    if want("small") {
        stream_small(&mut cx, rng, &seeds, if thorough { 6_000 } else { 300 });
    }
    let t1 = wall_ms();
    let (nb, ns) = if thorough { (90, 130) } else { (40, 60) };
    if want("docs") {
        stream_documents(&mut cx, rng, &seeds, nb, ns);
    }
    let t2 = wall_ms();
    if want("api") {
        stream_api(&mut cx, rng, &seeds, if thorough { 1200 } else { 250 });
    }
    let t3 = wall_ms();
    utf8_cases(&mut cx, rng, &mut cw, if thorough { 2000 } else { 300 });
    cx.rep.extra.insert("wall_ms".into(), json!({"small_decoders": t1 - t0, "mutated_documents": t2 - t1, "api_arguments": t3 - t2}));
    if std::env::var("ROBUST_VERBOSE").is_ok() {
        eprintln!("small {} ms, docs {} ms, api {} ms", t1 - t0, t2 - t1, t3 - t2);
    }
    cx.rep.model_cases = cw.total as u64;
    cw.finish();
    cx.finish()
}
