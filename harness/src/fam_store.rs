// Family "store": C11 (save/load round trip), C12 (incremental saves compose),
// C13 (truncated storage), C14 (corrupted storage).
use crate::gen::{self, GenCfg};
use crate::model::*;
use crate::util::*;
use automerge::{
    AutoCommit, Automerge, Change, ChangeHash, LoadOptions, ObjId, ObjType, OnPartialLoad, ReadDoc, SaveOptions, TextEncoding,
};
use serde_json::json;

const HEADER: &str = "From AM Require Import Base.Prelude Exec.StoreExec.\nLocal Open Scope N_scope.\n";

const ENCODINGS: [TextEncoding; 4] = [
    TextEncoding::UnicodeCodePoint,
    TextEncoding::Utf8CodeUnit,
    TextEncoding::Utf16CodeUnit,
    TextEncoding::GraphemeCluster,
];

fn sorted(mut h: Vec<ChangeHash>) -> Vec<ChangeHash> {
    h.sort();
    h
}

/// everything observable that must survive storage: heads, full state, change bytes, missing deps
pub fn fingerprint(doc: &Automerge, cands: &[(ObjId, ObjType)]) -> String {
    let heads = sorted(doc.get_heads());
    let mut changes: Vec<String> = doc.get_changes(&[]).iter().map(|c| hex(c.raw_bytes())).collect();
    changes.sort();
    let texts: Vec<String> = cands
        .iter()
        .filter(|(_, t)| *t == ObjType::Text)
        .filter_map(|(id, _)| doc.text(id).ok().map(|t| format!("{}:{}", doc.length(id), t)))
        .collect();
    format!(
        "heads={:?}\nmissing={:?}\nstate={}\ntexts={:?}\nchanges={}",
        heads,
        sorted(doc.get_missing_deps(&[])),
        render_plain(doc, cands),
        texts,
        fnv(changes.join(",").as_bytes())
    )
}

/// chunk boundaries of a file, read from the headers by the harness itself
pub fn chunk_spans(file: &[u8]) -> Vec<(usize, usize, u8)> {
    let mut out = vec![];
    let mut pos = 0;
    while pos + 9 <= file.len() {
        let ty = file[pos + 8];
        let mut len: u64 = 0;
        let mut shift = 0;
        let mut i = pos + 9;
        loop {
            if i >= file.len() {
                return out;
            }
            let b = file[i];
            len |= ((b & 0x7f) as u64) << shift;
            shift += 7;
            i += 1;
            if b & 0x80 == 0 {
                break;
            }
        }
        let end = i + len as usize;
        if end > file.len() {
            return out;
        }
        out.push((pos, end, ty));
        pos = end;
    }
    out
}

fn load_ignore(bytes: &[u8], enc: TextEncoding) -> Result<Result<Automerge, String>, PanicInfo> {
    guard(|| {
        Automerge::load_with_options(bytes, LoadOptions::new().on_partial_load(OnPartialLoad::Ignore).text_encoding(enc))
            .map_err(|e| e.to_string())
    })
}
fn load_strict(bytes: &[u8], enc: TextEncoding) -> Result<Result<Automerge, String>, PanicInfo> {
    guard(|| {
        Automerge::load_with_options(bytes, LoadOptions::new().on_partial_load(OnPartialLoad::Error).text_encoding(enc))
            .map_err(|e| e.to_string())
    })
}

pub struct Written {
    pub file: Vec<u8>,
    pub piece_ends: Vec<usize>,          // byte offset after each written piece
    pub snapshots: Vec<String>,          // fingerprint of the writer after each piece
    pub writer: AutoCommit,
    pub cands: Vec<(ObjId, ObjType)>,
    pub log: Vec<String>,
    pub enc: TextEncoding,
}

/// a writer that saves once and then appends incremental saves at arbitrary points
pub fn write_file(rng: &mut Rng, enc: TextEncoding, pieces: usize, deflate: bool) -> Written {
    let cfg = GenCfg::default();
    let mut log = vec![];
    let mut w = AutoCommit::new_with_encoding(enc).with_actor(gen::actor(rng, 0));
    let mut other = w.fork().with_actor(gen::actor(rng, 1));
    for _ in 0..rng.range(2, 10) {
        if let Some(d) = gen::random_edit(&mut w, rng, &cfg) {
            log.push(d);
        }
        if rng.chance(1, 4) {
            w.commit();
        }
    }
    w.commit();
    let mut file = if deflate { w.save() } else { w.save_nocompress() };
    let mut piece_ends = vec![file.len()];
    let mut snap_docs: Vec<Automerge> = vec![w.document().clone()];
    for _ in 1..pieces {
        for _ in 0..rng.range(1, 6) {
            if rng.chance(1, 5) {
                // concurrent edits arrive from another replica
                let _ = gen::random_edit(&mut other, rng, &cfg);
                other.commit();
                let _ = w.merge(&mut other);
                log.push("merge other".into());
            } else if let Some(d) = gen::random_edit(&mut w, rng, &cfg) {
                log.push(d);
            }
            if rng.chance(1, 3) {
                w.commit();
            }
        }
        w.commit();
        let inc = w.save_incremental();
        file.extend(&inc);
        piece_ends.push(file.len());
        snap_docs.push(w.document().clone());
        log.push("save_incremental".into());
    }
    let cands = object_ids(&w.get_changes(&[]));
    let snapshots = snap_docs.iter().map(|d| fingerprint(d, &cands)).collect();
    Written { file, piece_ends, snapshots, writer: w, cands, log, enc }
}

pub fn run(rng: &mut Rng, tier: &str, out: &str) -> Report {
    let mut rep = Report::new("store");
    let mut cw = CaseWriter::new(out, "store", HEADER, 4);
    let thorough = tier == "thorough";

    // ---------------- C13: every cut point ----------------
    let n_files = if thorough { 200 } else { 24 };
    for fi in 0..n_files {
        let enc = ENCODINGS[fi % 4];
        let nch = rng.range(2, 5) as usize;
        let w = write_file(rng, enc, nch, fi % 3 != 0);
        let spans = chunk_spans(&w.file);
        let bounds: Vec<usize> = spans.iter().map(|s| s.1).collect();
        rep.add("c13_chunks", spans.len() as u64);
        rep.add("c13_bytes", w.file.len() as u64);
        if bounds.last() != Some(&w.file.len()) {
            rep.fail(&["C13", "C12"], "store|file-not-chunks", "a written file is not a sequence of complete chunks", json!({"file": hex(&w.file)}));
            continue;
        }
        // expected state at each chunk boundary: strict load of that (complete) prefix; at piece ends it must
        // be the writer's state at that point (C12)
        let mut at_bound: Vec<Option<String>> = vec![];
        for (bi, b) in bounds.iter().enumerate() {
            match load_strict(&w.file[..*b], enc) {
                Ok(Ok(d)) => at_bound.push(Some(fingerprint(&d, &w.cands))),
                Ok(Err(e)) => {
                    rep.fail(&["C13", "C12"], "store|strict-load-at-boundary-failed", &format!("strict load at a chunk boundary failed: {}", e),
                        json!({"file": hex(&w.file), "cut": b, "log": w.log}));
                    at_bound.push(None)
                }
                Err(p) => {
                    rep.fail(&["C13", "C15"], &format!("panic|load|{}", p.signature()), &format!("load panicked: {}", p.message), json!({"file": hex(&w.file), "cut": b}));
                    at_bound.push(None)
                }
            }
            if let Some(pi) = w.piece_ends.iter().position(|e| e == b) {
                if at_bound[bi].as_ref() != Some(&w.snapshots[pi]) {
                    rep.fail(&["C12", "C11"], "store|concat-differs-from-writer",
                        "loading save + incremental saves does not give the writer's document at that point",
                        json!({"file": hex(&w.file), "cut": b, "log": w.log, "encoding": format!("{:?}", enc)}));
                }
            }
        }
        let empty_fp = fingerprint(&Automerge::new_with_encoding(enc), &w.cands);
        let mut strict_ok_at: Vec<u128> = vec![];
        for k in 0..=w.file.len() {
            let cut = &w.file[..k];
            let n_complete = bounds.iter().filter(|b| **b <= k).count();
            // partial loads allowed
            match load_ignore(cut, enc) {
                Err(p) => rep.fail(&["C13", "C15"], &format!("panic|load|{}", p.signature()),
                    &format!("load (partial allowed) panicked at cut {}: {} at {}", k, p.message, p.location), json!({"file": hex(&w.file), "cut": k})),
                Ok(r) => {
                    let expect: Result<&String, ()> = if k == 0 { Ok(&empty_fp) } else if n_complete == 0 { Err(()) } else {
                        match &at_bound[n_complete - 1] { Some(s) => Ok(s), None => Err(()) }
                    };
                    let got = r.as_ref().map(|d| fingerprint(d, &w.cands)).map_err(|_| ());
                    let same = match (&expect, &got) { (Ok(a), Ok(b)) => *a == b, (Err(_), Err(_)) => true, _ => false };
                    if !same {
                        rep.fail(&["C13"], "store|truncated-load-wrong",
                            &format!("partial load of the first {} bytes is not the document of the last complete chunk ({} complete): expected {}, got {}",
                                k, n_complete, if expect.is_ok() { "a document" } else { "an error" }, if got.is_ok() { "a (different) document" } else { "an error" }),
                            json!({"file": hex(&w.file), "cut": k, "log": w.log, "encoding": format!("{:?}", enc)}));
                    }
                }
            }
            // strict loads succeed exactly at chunk boundaries (and on the empty prefix)
            match load_strict(cut, enc) {
                Err(p) => rep.fail(&["C13", "C15"], &format!("panic|load|{}", p.signature()),
                    &format!("strict load panicked at cut {}: {}", k, p.message), json!({"file": hex(&w.file), "cut": k})),
                Ok(r) => {
                    let at_boundary = k == 0 || bounds.contains(&k);
                    if r.is_ok() {
                        strict_ok_at.push(k as u128);
                    }
                    if r.is_ok() != at_boundary {
                        rep.fail(&["C13"], "store|strict-load-boundary",
                            &format!("strict load of the first {} bytes {} but the cut is {}a chunk boundary", k,
                                if r.is_ok() { "succeeded" } else { "failed" }, if at_boundary { "" } else { "not " }),
                            json!({"file": hex(&w.file), "cut": k}));
                    }
                }
            }
            rep.case(None);
        }
        rep.case(Some(fnv(&w.file)));
        rep.count("c13_files");
        if fi < 1 {
            rep.sample(json!({"kind": "truncation", "file_len": w.file.len(), "chunks": spans.len(), "pieces": w.piece_ends, "log": w.log.iter().take(12).collect::<Vec<_>>()}));
        }
        // model: the byte-level framing model computes the same chunk boundaries from the bytes
        if fi < (if thorough { 60 } else { 12 }) {
            cw.push(format!("chk_boundaries {} {}", coq_bytes(&w.file), coq_nlist(strict_ok_at.iter().copied())),
                json!({"kind": "boundaries", "props": ["C13", "C12"], "file": hex(&w.file)}));
        }
    }

    // ---------------- C14: every bit ----------------
    let n_c14 = if thorough { 60 } else { 6 };
    for fi in 0..n_c14 {
        let enc = ENCODINGS[fi % 4];
        let nch = rng.range(1, 3) as usize;
        let mut w = write_file(rng, enc, nch, fi % 2 == 0);
        // every target is loadable on its own by Automerge::load: a save followed by incremental saves, a bundle
        // of the whole history, and single ROOT changes (no dependencies), raw and DEFLATE-compressed.  A change
        // that has dependencies is not a loadable document by itself, and Change::from_bytes is not a load
        // (it does not verify the checksum and is not asked to by the property).
        let mut targets: Vec<(String, Vec<u8>, bool)> = vec![("save+incremental".into(), w.file.clone(), false)];
        let changes = w.writer.get_changes(&[]);
        let hashes: Vec<ChangeHash> = changes.iter().map(|c| c.hash()).collect();
        if let Ok(b) = w.writer.bundle(hashes.iter().copied()) {
            targets.push(("bundle".into(), b.bytes().to_vec(), false));
        }
        if let Some(root) = changes.iter().find(|c| c.deps().is_empty()) {
            targets.push(("root change raw_bytes()".into(), root.raw_bytes().to_vec(), false));
        }
        {
            let mut bigdoc = AutoCommit::new_with_encoding(enc).with_actor(gen::actor(rng, 3));
            let text: String = (0..rng.range(300, 500)).map(|i| (b'a' + ((i * 7 + fi as u64) % 26) as u8) as char).collect();
            let _ = automerge::transaction::Transactable::put(&mut bigdoc, automerge::ROOT, "t", text);
            bigdoc.commit();
            if let Some(mut c) = bigdoc.get_changes(&[]).into_iter().next() {
                let b = c.bytes().to_vec();
                if b.len() > 8 && b[8] == 2 {
                    rep.count("c14_compressed_changes");
                    targets.push(("compressed root change bytes()".into(), b, false));
                }
            }
        }
        let load_any = |m: &[u8], is_change: bool| -> Result<Result<String, String>, PanicInfo> {
            if is_change {
                guard(|| Change::from_bytes(m.to_vec()).map(|c| format!("{}:{}", c.hash(), hex(c.raw_bytes()))).map_err(|e| e.to_string()))
            } else {
                // reading an accepted document happens under the guard too: a document that loads but panics
                // when read is a failure of the load, not of the harness
                guard(|| {
                    Automerge::load_with_options(m, LoadOptions::new().on_partial_load(OnPartialLoad::Error).text_encoding(enc))
                        .map(|d| fingerprint(&d, &w.cands))
                        .map_err(|e| e.to_string())
                })
            }
        };
        for (what, data, is_change) in targets {
            let orig = match load_any(&data, is_change) {
                Ok(Ok(fp)) => fp,
                _ => {
                    rep.fail(&["C14", "C11"], "store|own-output-rejected", &format!("the library's own {} does not load", what), json!({"bytes": hex(&data)}));
                    continue;
                }
            };
            let spans = chunk_spans(&data);
            let ty_at = |pos: usize| spans.iter().find(|s| s.0 <= pos && pos < s.1).map(|s| s.2).unwrap_or(255);
            for bit in 0..data.len() * 8 {
                let mut m = data.clone();
                m[bit / 8] ^= 1 << (bit % 8);
                match load_any(&m, is_change) {
                    Err(p) => rep.fail(&["C14", "C15"], &format!("panic|load|{}", p.signature()),
                        &format!("load of {} with bit {} flipped panicked: {} at {}", what, bit, p.message, p.location), json!({"bytes": hex(&data), "bit": bit})),
                    Ok(Err(_)) => {}
                    Ok(Ok(fp)) => {
                        let same = fp == orig;
                        // where in its chunk the accepted flip sits: the last byte of a compressed change is where
                        // DEFLATE pads to a byte boundary (known finding); anything else is a different failure
                        let place = match spans.iter().find(|s| s.0 <= bit / 8 && bit / 8 < s.1) {
                            Some(s) if bit / 8 == s.1 - 1 => "last-byte",
                            Some(s) if bit / 8 < s.0 + 4 => "magic",
                            Some(s) if bit / 8 < s.0 + 8 => "checksum",
                            Some(s) if bit / 8 == s.0 + 8 => "type",
                            Some(_) => "body",
                            None => "outside",
                        };
                        let sig = format!("store|bitflip-accepted|{}|chunk-type-{}|{}", if same { "same-doc" } else { "different-doc" }, ty_at(bit / 8), place);
                        rep.fail(&["C14"], &sig, &format!("{} with bit {} of {} flipped loads without error ({} content)", what, bit, data.len() * 8,
                            if same { "the same" } else { "DIFFERENT" }), json!({"bytes": hex(&data), "bit": bit, "what": what}));
                    }
                }
                rep.case(None);
            }
            rep.case(Some(fnv(&data)));
            rep.add("c14_bits", data.len() as u64 * 8);
        }
        if fi < 1 {
            rep.sample(json!({"kind": "bitflips", "file_len": w.file.len()}));
        }
    }

    // ---------------- C11 / C12: round trips ----------------
    let n_rt = if thorough { 600 } else { 60 };
    for ri in 0..n_rt {
        let enc = ENCODINGS[ri % 4];
        let nch = rng.range(1, 4) as usize;
        let mut w = write_file(rng, enc, nch, true);
        // optionally hold an orphan: a change whose dependency is withheld
        let mut side = w.writer.fork().with_actor(gen::actor(rng, 7));
        let cfg = GenCfg::default();
        let _ = gen::random_edit(&mut side, rng, &cfg);
        side.commit();
        let h1 = side.get_heads();
        let _ = gen::random_edit(&mut side, rng, &cfg);
        side.commit();
        let orphan: Vec<Change> = side.get_changes(&h1);
        let with_orphan = ri % 3 == 0 && !orphan.is_empty() && side.get_heads() != h1;
        let mut doc = w.writer.document().clone();
        if ri % 4 == 1 {
            // values DEFLATE cannot shrink: raw value columns above the compression threshold that stay uncompressed
            use automerge::transaction::Transactable;
            let n = rng.range(300, 1500) as usize;
            let blob = rng.bytes(n);
            let keys = ["blob", "blob2"];
            let nk = rng.range(1, 2) as usize;
            let _ = doc.transact::<_, _, automerge::AutomergeError>(|tx| {
                for k in keys.iter().take(nk) {
                    tx.put(automerge::ROOT, *k, automerge::ScalarValue::Bytes(blob.clone()))?;
                }
                Ok(())
            });
            rep.count("c11_incompressible_values");
        }
        if with_orphan {
            let _ = doc.apply_changes(orphan.clone());
            rep.count("c11_with_orphans");
        }
        let mut cands = w.cands.clone();
        cands.extend(object_ids(&side.get_changes(&[])).into_iter().skip(1));
        let fp = fingerprint(&doc, &cands);
        for deflate in [true, false] {
            for retain in [true, false] {
                let bytes = doc.save_with_options(SaveOptions { deflate, retain_orphans: retain });
                match load_strict(&bytes, enc) {
                    Ok(Ok(l)) => {
                        let lf = fingerprint(&l, &cands);
                        let expect_same = retain || !with_orphan;
                        if expect_same && lf != fp {
                            rep.fail(&["C11"], "store|roundtrip-differs", "load(save(doc)) is observably different from doc",
                                json!({"log": w.log, "deflate": deflate, "retain_orphans": retain, "encoding": format!("{:?}", enc), "bytes": hex(&bytes)}));
                        }
                        let again = l.save_with_options(SaveOptions { deflate, retain_orphans: retain });
                        if again != bytes {
                            rep.fail(&["C11"], "store|resave-differs", "saving the loaded document again gives different bytes",
                                json!({"log": w.log, "deflate": deflate, "retain_orphans": retain, "encoding": format!("{:?}", enc)}));
                        }
                        // state at every historical heads
                        for c in doc.get_changes(&[]).iter().take(6) {
                            let hs = [c.hash()];
                            let a = observe(&doc, &cands, Some(&hs)).map(|x| x.0);
                            let b = observe(&l, &cands, Some(&hs)).map(|x| x.0);
                            if a != b {
                                rep.fail(&["C11"], "store|roundtrip-history-differs", "a historical read differs after load(save(doc))", json!({"log": w.log}));
                                break;
                            }
                        }
                    }
                    Ok(Err(e)) => rep.fail(&["C11"], "store|own-output-rejected", &format!("load(save(doc)) failed: {}", e),
                        json!({"log": w.log, "deflate": deflate, "retain_orphans": retain, "bytes": hex(&bytes)})),
                    Err(p) => rep.fail(&["C11", "C15"], &format!("panic|load|{}", p.signature()), &format!("load(save(doc)) panicked: {} at {}", p.message, p.location),
                        json!({"log": w.log, "bytes": hex(&bytes)})),
                }
                rep.case(None);
            }
        }
        // C12: a reader equal to the writer at the first save catches up through load_incremental,
        // pieces in order / shuffled / duplicated; feeding them again changes nothing
        let first_end = w.piece_ends[0];
        let pieces: Vec<Vec<u8>> = chunk_spans(&w.file[first_end..]).iter().map(|s| w.file[first_end + s.0..first_end + s.1].to_vec()).collect();
        for mode in 0..3 {
            let mut reader = match load_strict(&w.file[..first_end], enc) {
                Ok(Ok(d)) => d,
                _ => break,
            };
            let mut order: Vec<usize> = (0..pieces.len()).collect();
            if mode == 1 {
                rng.shuffle(&mut order);
            }
            if mode == 2 {
                rng.shuffle(&mut order);
                let dup = order.clone();
                order.extend(dup);
            }
            let mut ok = true;
            for i in &order {
                if guard(|| reader.load_incremental(&pieces[*i])).map(|r| r.is_err()).unwrap_or(true) {
                    ok = false;
                }
            }
            let want = w.snapshots.last().unwrap();
            if !ok || &fingerprint(&reader, &w.cands) != want {
                rep.fail(&["C12"], "store|catch-up-differs", &format!("a reader fed the incremental pieces (mode {}) does not equal the writer", mode),
                    json!({"log": w.log, "mode": mode, "file": hex(&w.file)}));
            }
            let before = fingerprint(&reader, &w.cands);
            for p in &pieces {
                let _ = guard(|| reader.load_incremental(p));
            }
            if fingerprint(&reader, &w.cands) != before {
                rep.fail(&["C12"], "store|refeed-changes-state", "feeding the same incremental pieces again changed the document", json!({"log": w.log}));
            }
            rep.case(None);
        }
        // C12 / C05: the earliest "earlier point" is the empty document: fed every piece of the file (the save and the
        // incremental saves) through load_incremental, in order or shuffled (a later piece that arrives first is
        // held back until the save arrives), it becomes equal to the writer
        {
            let all_pieces: Vec<Vec<u8>> = chunk_spans(&w.file).iter().map(|s| w.file[s.0..s.1].to_vec()).collect();
            for mode in 0..3 {
                let mut reader = Automerge::new_with_encoding(enc);
                let mut order: Vec<usize> = (0..all_pieces.len()).collect();
                if mode == 1 {
                    order.reverse();
                }
                if mode == 2 {
                    rng.shuffle(&mut order);
                }
                let mut ok = true;
                for i in &order {
                    if guard(|| reader.load_incremental(&all_pieces[*i])).map(|r| r.is_err()).unwrap_or(true) {
                        ok = false;
                    }
                }
                if !ok || &fingerprint(&reader, &w.cands) != w.snapshots.last().unwrap() {
                    rep.fail(&["C12", "C05"], "store|catch-up-from-empty-differs",
                        &format!("an empty document fed every piece of the file through load_incremental (order {:?}) does not equal the writer", order),
                        json!({"log": w.log, "order": order, "file": hex(&w.file)}));
                }
                rep.case(None);
                rep.count("c12_from_empty");
            }
        }
        // save_after(heads) = the changes since those heads
        {
            let mut wr = w.writer.clone();
            let all = wr.get_changes(&[]);
            if all.len() >= 2 {
                let k = rng.below(all.len() as u64 - 1) as usize;
                let mut early = Automerge::new_with_encoding(enc);
                let _ = early.apply_changes(all[..=k].to_vec());
                let hs = early.get_heads();
                let tail = wr.save_after(&hs);
                let _ = guard(|| early.load_incremental(&tail));
                if fingerprint(&early, &w.cands) != *w.snapshots.last().unwrap() {
                    rep.fail(&["C12"], "store|save_after-differs", "a document at earlier heads + save_after(heads) does not equal the writer", json!({"log": w.log}));
                }
            }
        }
        rep.case(Some(fnv(&w.file)));
        rep.count("c11_docs");
    }
    rep.model_cases = cw.total as u64;
    cw.finish();
    rep
}
