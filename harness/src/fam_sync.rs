// Family "sync": sessions of the sync protocol between 2 (C20, C22) or 3-4 (C21) peers.
//
// Every step performed on the implementation (generate, deliver the oldest in-order message, local
// edit + commit, drop a connection with its in-flight messages, replace a sync state by a fresh /
// persisted / read-only one, switch read-only) is recorded with what the implementation produced:
// all fields of the generated message (heads, need, have = last_sync + filter wire bytes, the
// hashes of the carried changes, flags), ALL fields of sync::State (they are public) and the
// document's heads / missing dependencies.  The same script is run through Sync/Proto.v by
// Exec/SyncExec.v (Bloom filter = the bit-exact model of Codec/Bloom.v, so false positives are
// reproduced, not assumed away).  The properties are also evaluated directly: quiescence within a
// round budget, equal heads and equal state (C20, C21 per connected component), a read-only peer's
// document bytes / heads never change on receive, the writer obtains all of the read-only peer's
// changes, and after switching back the peer obtains everything (C22).
use crate::fam_hist::build_universe;
use crate::fam_store::chunk_spans;
use crate::gen::{self, GenCfg};
use crate::model::*;
use crate::util::*;
use automerge::sync::{self, BloomFilter, Capability, Message, MessageFlags, State, SyncDoc};
use automerge::transaction::Transactable;
use automerge::{AutoCommit, Automerge, Change, ChangeHash, ObjId, ObjType, ROOT};
use serde_json::json;
use std::collections::{BTreeSet, HashMap, HashSet, VecDeque};

const HEADER: &str = "From AM Require Import Base.Prelude Base.Order Crdt.Types Crdt.Doc Sync.Proto Exec.SyncExec.\nLocal Open Scope N_scope.\n";

fn sorted(mut h: Vec<ChangeHash>) -> Vec<ChangeHash> {
    h.sort();
    h
}

/// a change without its operations (the protocol never looks at them): (actor, seq, start_op, dep indexes)
fn coq_change_meta(c: &Change, idx: &HashMap<ChangeHash, usize>) -> String {
    format!(
        "({},{},{},{})",
        coq_actor(c.actor_id()),
        c.seq(),
        c.start_op().get(),
        coq_nlist(c.deps().iter().map(|d| idx.get(d).map(|i| *i as u128).unwrap_or(999_999)))
    )
}

struct Link {
    a: usize,
    b: usize,
    st: [State; 2],                 // st[0]: a's state for b; st[1]: b's state for a
    chan: [VecDeque<Message>; 2],   // chan[0]: a -> b
    connected: bool,
}

struct Session {
    kind: &'static str,
    docs: Vec<AutoCommit>,
    links: Vec<Link>,
    universe: Vec<Change>,
    idx: HashMap<ChangeHash, usize>,
    known: Vec<HashSet<ChangeHash>>, // per peer: every change ever handed to it
    steps: Vec<String>,              // Coq script
    log: Vec<String>,                // replay log
    carried: usize,                  // changes carried by messages
    messages: usize,
    resets: usize,
    fp_hits: usize,
    whole_doc: usize,
    ro_receives: usize,
    failed: bool,
}

fn hs_idx(s: &Session, hs: &[ChangeHash]) -> String {
    // hashes are printed as indexes into the universe (H maps them back); unknown hashes literally
    let items: Vec<String> = hs
        .iter()
        .map(|h| match s.idx.get(h) {
            Some(i) => format!("{}", i),
            None => "999999".to_string(),
        })
        .collect();
    format!("(H {})", coq_list(&items))
}

fn coq_have(s: &Session, h: &sync::Have) -> String {
    format!("({},{})", hs_idx(s, &h.last_sync), coq_bytes(&h.bloom.to_bytes()))
}

fn flags_byte(f: &MessageFlags) -> u8 {
    let mut b = 0u8;
    for i in 0..7 {
        if f.contains(1 << i) {
            b |= 1 << i;
        }
    }
    b
}

/// hashes of the changes a message's chunks decode to (document chunk: all its changes)
fn carried_hashes(m: &Message) -> Result<Vec<ChangeHash>, String> {
    let mut out = vec![];
    for chunk in m.changes.iter() {
        let spans = chunk_spans(chunk);
        let mut covered = 0;
        for (st, en, ty) in spans {
            covered = en;
            let bytes = &chunk[st..en];
            if ty == 0 {
                let d = Automerge::load(bytes).map_err(|e| format!("document chunk in a message does not load: {}", e))?;
                out.extend(d.get_changes(&[]).iter().map(|c| c.hash()));
            } else {
                let c = Change::try_from(bytes).map_err(|e| format!("change chunk in a message does not parse: {}", e))?;
                out.push(c.hash());
            }
        }
        if covered != chunk.len() {
            return Err("trailing bytes in a message chunk".into());
        }
    }
    out.sort();
    out.dedup();
    Ok(out)
}

fn coq_msg(s: &Session, m: &Message, carried: &[ChangeHash]) -> String {
    let haves: Vec<String> = m.have.iter().map(|h| coq_have(s, h)).collect();
    let ch = if m.changes.is_empty() { "None".to_string() } else { format!("(Some {})", hs_idx(s, carried)) };
    let fl = match &m.flags {
        Some(f) => format!("(Some {})", flags_byte(f)),
        None => "None".to_string(),
    };
    format!("(mkMO {} {} {} {} {})", hs_idx(s, &m.heads), hs_idx(s, &m.need), coq_list(&haves), ch, fl)
}

fn coq_state(s: &Session, st: &State) -> String {
    let oh = |o: &Option<Vec<ChangeHash>>| match o {
        Some(v) => format!("(Some {})", hs_idx(s, v)),
        None => "None".to_string(),
    };
    let th = match &st.their_have {
        Some(v) => format!("(Some {})", coq_list(&v.iter().map(|h| coq_have(s, h)).collect::<Vec<_>>())),
        None => "None".to_string(),
    };
    let caps = match &st.their_capabilities {
        Some(v) => format!(
            "(Some {})",
            coq_list(
                &v.iter()
                    .map(|c| match c {
                        Capability::MessageV1 => "1".to_string(),
                        Capability::MessageV2 => "2".to_string(),
                        Capability::SyncReset => "3".to_string(),
                    })
                    .collect::<Vec<_>>()
            )
        ),
        None => "None".to_string(),
    };
    let sent: Vec<ChangeHash> = st.sent_hashes.iter().copied().collect();
    format!(
        "(mkSO {} {} {} {} {} {} {} {} {} {} {} {})",
        hs_idx(s, &st.shared_heads),
        hs_idx(s, &st.last_sent_heads),
        oh(&st.their_heads),
        oh(&st.their_need),
        th,
        hs_idx(s, &sent),
        coq_bool(st.in_flight),
        coq_bool(st.have_responded),
        caps,
        coq_bool(st.read_only),
        coq_bool(st.peer_read_only),
        coq_bool(st.needs_reset)
    )
}

fn all_hashes(d: &mut AutoCommit) -> HashSet<ChangeHash> {
    d.get_changes(&[]).iter().map(|c| c.hash()).collect()
}

impl Session {
    fn ends(&self, li: usize, dir: usize) -> (usize, usize) {
        let l = &self.links[li];
        if dir == 0 {
            (l.a, l.b)
        } else {
            (l.b, l.a)
        }
    }

    /// p generates for q on link li (dir 0: a->b)
    fn generate(&mut self, rep: &mut Report, li: usize, dir: usize) -> bool {
        let (p, q) = self.ends(li, dir);
        let mut st = self.links[li].st[dir].clone();
        // false positives the filter we hold will produce (statistics only)
        if let Some(Some(h)) = st.their_have.as_ref().map(|v| v.first().cloned()) {
            let theirs = all_hashes(&mut self.docs[q]);
            for c in self.docs[p].get_changes(&h.last_sync) {
                if !theirs.contains(&c.hash()) && h.bloom.contains_hash(&c.hash()) {
                    self.fp_hits += 1;
                }
            }
        }
        let state_before = st.clone();
        let r = guard(|| self.docs[p].sync().generate_sync_message(&mut st));
        let m = match r {
            Ok(m) => m,
            Err(pi) => {
                rep.fail(&["C20", "C21", "C22", "C37"], &format!("panic|generate_sync_message|{}", pi.signature()),
                    &format!("generate_sync_message panicked: {} at {}", pi.message, pi.location), json!({"kind": self.kind, "log": self.log}));
                self.failed = true;
                return false;
            }
        };
        self.links[li].st[dir] = st;
        let out = match &m {
            Some(msg) => match carried_hashes(msg) {
                Ok(ch) => {
                    self.carried += ch.len();
                    self.messages += 1;
                    if state_before == self.links[li].st[dir] {
                        self.resets += 1; // the reset path returns a message without touching the state
                    }
                    if msg.changes.len() == 1 && chunk_spans(msg.changes.iter().next().unwrap()).first().map(|x| x.2) == Some(0) {
                        self.whole_doc += 1;
                    }
                    format!("(Some {})", coq_msg(self, msg, &ch))
                }
                Err(e) => {
                    rep.fail(&["C20", "C21", "C22"], "sync|bad-chunk", &e, json!({"kind": self.kind, "log": self.log}));
                    self.failed = true;
                    return false;
                }
            },
            None => "None".to_string(),
        };
        let sto = coq_state(self, &self.links[li].st[dir]);
        self.steps.push(format!("SGen {} {} {} {}", p, q, out, sto));
        self.log.push(format!("gen {}->{} {}", p, q, if m.is_some() { "msg" } else { "none" }));
        match m {
            Some(msg) => {
                self.links[li].chan[dir].push_back(msg);
                true
            }
            None => false,
        }
    }

    /// q receives the oldest message of p->q (dir 0: a->b)
    fn deliver(&mut self, rep: &mut Report, li: usize, dir: usize) -> bool {
        let (p, q) = self.ends(li, dir);
        let msg = match self.links[li].chan[dir].pop_front() {
            Some(m) => m,
            None => return false,
        };
        let carried = carried_hashes(&msg).unwrap_or_default();
        let mut st = self.links[li].st[1 - dir].clone();
        let ro = st.read_only;
        let before_heads = sorted(self.docs[q].get_heads());
        let before_bytes = if ro { Some(self.docs[q].save()) } else { None };
        let r = guard(|| self.docs[q].sync().receive_sync_message(&mut st, msg));
        self.links[li].st[1 - dir] = st;
        let status = match r {
            Ok(Ok(())) => 0,
            Ok(Err(e)) => {
                rep.fail(&["C20", "C21", "C22"], "sync|receive-error", &format!("receive_sync_message of a message generated by the peer failed: {}", e),
                    json!({"kind": self.kind, "log": self.log}));
                self.failed = true;
                2
            }
            Err(pi) => {
                rep.fail(&["C20", "C21", "C22", "C37"], &format!("panic|receive_sync_message|{}", pi.signature()),
                    &format!("receive_sync_message panicked: {} at {}", pi.message, pi.location), json!({"kind": self.kind, "log": self.log}));
                self.failed = true;
                return false;
            }
        };
        let heads = sorted(self.docs[q].get_heads());
        let missing = sorted(self.docs[q].get_missing_deps(&[]));
        if ro {
            self.ro_receives += 1;
            let after = self.docs[q].save();
            if Some(&after) != before_bytes.as_ref() || heads != before_heads {
                rep.fail(&["C22"], "sync|read-only-applied", "a receive on a read-only sync state changed the document (save() bytes or heads)",
                    json!({"kind": self.kind, "log": self.log}));
                self.failed = true;
            }
        } else {
            for h in &carried {
                self.known[q].insert(*h);
            }
        }
        // C20 safety: nothing appears that was not handed to this peer
        let now = all_hashes(&mut self.docs[q]);
        if !now.iter().all(|h| self.known[q].contains(h)) {
            rep.fail(&["C20"], "sync|foreign-change", "after receive_sync_message the document holds a change that was neither there before nor carried by a message",
                json!({"kind": self.kind, "log": self.log}));
            self.failed = true;
        }
        let sto = coq_state(self, &self.links[li].st[1 - dir]);
        self.steps.push(format!("SRecv {} {} {} {} {} {}", p, q, status, sto, hs_idx(self, &heads), hs_idx(self, &missing)));
        self.log.push(format!("deliver {}->{} ({} changes)", p, q, carried.len()));
        true
    }

    fn push_change(&mut self, c: Change) -> usize {
        let i = self.universe.len();
        self.idx.insert(c.hash(), i);
        self.universe.push(c);
        i
    }

    /// random edit + commit on peer p; with `grind` the new change is chosen (among trial commits) so that
    /// the filter peer q would send now reports it present although q does not have it: a false positive
    fn local_edit(&mut self, rng: &mut Rng, cfg: &GenCfg, p: usize, grind: Option<usize>) {
        let before = self.docs[p].get_heads();
        let mut done = false;
        if let Some(q) = grind {
            // the filter q would build for p now
            let li = self.links.iter().position(|l| (l.a == p && l.b == q) || (l.a == q && l.b == p));
            if let Some(li) = li {
                let dir_q = if self.links[li].a == q { 0 } else { 1 };
                let shared = self.links[li].st[dir_q].shared_heads.clone();
                let hs: Vec<ChangeHash> = self.docs[q].get_changes(&shared).iter().map(|c| c.hash()).collect();
                if hs.len() >= 3 {
                    let f = BloomFilter::from_hashes(hs.iter());
                    for t in 0..600u64 {
                        let mut trial = self.docs[p].clone();
                        if trial.put(ROOT, "fp", (rng.next() % 1_000_000) as i64 + t as i64).is_err() {
                            break;
                        }
                        trial.commit();
                        let nh = trial.get_heads();
                        if nh.len() >= 1 && nh.iter().any(|h| !before.contains(h) && f.contains_hash(h)) {
                            self.docs[p] = trial;
                            done = true;
                            break;
                        }
                    }
                }
            }
        }
        if !done {
            for _ in 0..rng.range(1, 3) {
                let _ = gen::random_edit(&mut self.docs[p], rng, cfg);
            }
            self.docs[p].commit();
        }
        let news = self.docs[p].get_changes(&before);
        let mut idxs = vec![];
        for c in news {
            self.known[p].insert(c.hash());
            idxs.push(self.push_change(c) as u128);
        }
        if !idxs.is_empty() {
            let heads = sorted(self.docs[p].get_heads());
            let hs = hs_idx(self, &heads);
            self.steps.push(format!("SLocal {} {} {}", p, coq_nlist(idxs), hs));
        }
        self.log.push(format!("edit {}{}", p, if done { " (ground false positive)" } else { "" }));
    }

    fn drop_link(&mut self, li: usize) {
        let (a, b) = (self.links[li].a, self.links[li].b);
        self.links[li].chan[0].clear();
        self.links[li].chan[1].clear();
        self.links[li].connected = false;
        self.steps.push(format!("SDrop {} {}", a, b));
        self.log.push(format!("drop {}-{}", a, b));
    }

    fn new_state(&mut self, li: usize, dir: usize, mode: u64) {
        let (p, q) = self.ends(li, dir);
        let st = match mode {
            0 => State::new(),
            1 => State::decode(&self.links[li].st[dir].encode()).expect("decode(encode)"),
            _ => State::new_read_only(),
        };
        self.links[li].st[dir] = st;
        let sto = coq_state(self, &self.links[li].st[dir]);
        self.steps.push(format!("SNewState {} {} {} {}", p, q, mode, sto));
        self.log.push(format!("state {}->{} mode {}", p, q, mode));
    }

    fn set_ro(&mut self, li: usize, dir: usize, ro: bool) {
        let (p, q) = self.ends(li, dir);
        self.links[li].st[dir].set_read_only(ro);
        let sto = coq_state(self, &self.links[li].st[dir]);
        self.steps.push(format!("SSetRO {} {} {} {}", p, q, coq_bool(ro), sto));
        self.log.push(format!("set_read_only {}->{} {}", p, q, ro));
    }

    /// keep exchanging on the connected links until a whole round is silent; Some(rounds) or None (budget)
    fn quiesce(&mut self, rep: &mut Report, budget: usize) -> Option<usize> {
        for round in 0..budget {
            let mut active = false;
            for li in 0..self.links.len() {
                if !self.links[li].connected {
                    continue;
                }
                for dir in 0..2 {
                    while !self.links[li].chan[dir].is_empty() {
                        self.deliver(rep, li, dir);
                        active = true;
                        if self.failed {
                            return Some(round);
                        }
                    }
                }
                for dir in 0..2 {
                    if self.generate(rep, li, dir) {
                        active = true;
                    }
                    if self.failed {
                        return Some(round);
                    }
                }
            }
            if !active {
                return Some(round);
            }
        }
        None
    }
}

fn new_session(rng: &mut Rng, kind: &'static str, npeers: usize, steps: usize, cfg: &GenCfg, orphans: bool) -> Option<(Session, Vec<Vec<ChangeHash>>)> {
    let mut glog = vec![];
    let u = guard(|| build_universe(rng, npeers, steps, cfg, &mut glog)).ok()?;
    let universe = u.changes.clone();
    let idx: HashMap<ChangeHash, usize> = universe.iter().enumerate().map(|(i, c)| (c.hash(), i)).collect();
    let mut docs = u.replicas;
    // a peer that joins with an empty document (exercises the "peer has nothing" paths: whole-document
    // messages, the reset of last_sent_heads / sent_hashes on empty heads)
    if rng.chance(1, 5) {
        let p = rng.below(docs.len() as u64) as usize;
        docs[p] = AutoCommit::new_with_encoding(automerge::TextEncoding::UnicodeCodePoint).with_actor(automerge::ActorId::from(vec![rng.next() as u8, 0xEE, p as u8, 0x01]));
    }
    let mut orphan_src: Vec<Vec<ChangeHash>> = vec![vec![]; docs.len()];
    // some peers hold an orphan: a change of another peer whose dependencies they lack
    if orphans {
        for p in 0..docs.len() {
            if rng.chance(1, 2) {
                let have = all_hashes(&mut docs[p]);
                let cands: Vec<&Change> = universe.iter().filter(|c| !have.contains(&c.hash()) && c.deps().iter().any(|d| !have.contains(d))).collect();
                if !cands.is_empty() {
                    let c = (*rng.pick(&cands)).clone();
                    let h = c.hash();
                    if docs[p].apply_changes(vec![c]).is_ok() && !all_hashes(&mut docs[p]).contains(&h) {
                        orphan_src[p].push(h);
                    }
                }
            }
        }
    }
    let mut known: Vec<HashSet<ChangeHash>> = vec![];
    for p in 0..docs.len() {
        let mut k = all_hashes(&mut docs[p]);
        k.extend(orphan_src[p].iter().copied());
        known.push(k);
    }
    Some((Session {
        kind, docs, links: vec![], universe, idx, known, steps: vec![], log: vec![], carried: 0, messages: 0, resets: 0,
        fp_hits: 0, whole_doc: 0, ro_receives: 0, failed: false,
    }, orphan_src))
}

/// the initial documents as (applied indexes ascending, orphan indexes)
fn initial(s: &mut Session, orphan_src: &[Vec<ChangeHash>]) -> String {
    let mut items = vec![];
    for p in 0..s.docs.len() {
        let mut appl: Vec<usize> = s.docs[p].get_changes(&[]).iter().map(|c| s.idx[&c.hash()]).collect();
        appl.sort();
        let orph: Vec<usize> = orphan_src[p].iter().map(|h| s.idx[h]).collect();
        items.push(format!("({},{})", coq_nlist(appl.iter().map(|x| *x as u128)), coq_nlist(orph.iter().map(|x| *x as u128))));
    }
    coq_list(&items)
}

fn component_of(links: &[Link], n: usize) -> Vec<usize> {
    let mut comp: Vec<usize> = (0..n).collect();
    loop {
        let mut changed = false;
        for l in links.iter().filter(|l| l.connected) {
            let m = comp[l.a].min(comp[l.b]);
            if comp[l.a] != m || comp[l.b] != m {
                comp[l.a] = m;
                comp[l.b] = m;
                changed = true;
            }
        }
        if !changed {
            return comp;
        }
    }
}

/// Observation outside the three properties' assumptions (counted, never a failure): B (empty document) has
/// already spoken on its state and that message is LOST; A holds a change, starts from State::new_read_only()
/// and is switched to read-write before it has heard from B (no capabilities known), so its reset is the
/// "empty heads" form.  B then believes A is empty like itself and stays silent, A waits for an answer.
fn probe_lost_message_then_switch(rep: &mut Report) {
    let r = guard(|| {
        let mut a = AutoCommit::new().with_actor(automerge::ActorId::from(vec![1u8, 2, 3]));
        a.put(ROOT, "k", 1).unwrap();
        a.commit();
        let mut b = AutoCommit::new().with_actor(automerge::ActorId::from(vec![4u8, 5, 6]));
        let mut sb = State::new();
        let _lost = b.sync().generate_sync_message(&mut sb);
        let mut sa = State::new_read_only();
        sa.set_read_only(false);
        let m = a.sync().generate_sync_message(&mut sa).expect("first message");
        let announced_empty = m.heads.is_empty();
        b.sync().receive_sync_message(&mut sb, m).unwrap();
        let gb = b.sync().generate_sync_message(&mut sb);
        let ga = a.sync().generate_sync_message(&mut sa);
        (announced_empty, gb.is_none() && ga.is_none() && a.get_heads() != b.get_heads())
    });
    if let Ok((announced_empty, stuck)) = r {
        if announced_empty {
            rep.count("probe_switch_without_capabilities_announces_empty_heads");
        }
        if stuck {
            rep.count("probe_lost_first_message_then_switch_both_silent_heads_differ");
        }
    }
}

pub fn run(rng: &mut Rng, tier: &str, out: &str) -> Report {
    let mut rep = Report::new("sync");
    probe_lost_message_then_switch(&mut rep);
    let mut cw = CaseWriter::new(out, "sync", HEADER, 1);
    let thorough = tier == "thorough";
    let n_sessions = if thorough { 1500 } else { 330 };
    let n_model = if thorough { 480 } else { 96 };
    let mut rounds_max = 0usize;
    let mut group_defs: Vec<String> = vec![];
    let mut group_cases: Vec<(String, serde_json::Value)> = vec![];
    for si in 0..n_sessions {
        let kind: &'static str = match si % 3 {
            0 => "two-peer",
            1 => "read-only",
            _ => "multi-peer",
        };
        let npeers = if kind == "multi-peer" { rng.range(3, 4) as usize } else { 2 };
        let cfg = GenCfg { focus: si % 5 == 4, ..GenCfg::default() };
        let usteps = if thorough { rng.range(10, 90) } else { rng.range(8, 45) } as usize;
        let with_orphans = rng.chance(1, 4);
        let (mut s, orphan_src) = match new_session(rng, kind, npeers, usteps, &cfg, with_orphans) {
            Some(s) => s,
            None => {
                rep.count("generator_panics");
                continue;
            }
        };
        if orphan_src.iter().any(|o| !o.is_empty()) {
            rep.count("sessions_with_orphans");
        }
        if (0..npeers).any(|p| s.docs[p].get_heads().is_empty()) {
            rep.count("sessions_with_empty_peer");
        }
        let inis = initial(&mut s, &orphan_src);
        let start_sets: Vec<HashSet<ChangeHash>> = (0..npeers).map(|p| all_hashes(&mut s.docs[p])).collect();
        let differ = (1..npeers).any(|p| start_sets[p] != start_sets[0]);

        // links
        if npeers == 2 {
            s.links.push(Link { a: 0, b: 1, st: [State::new(), State::new()], chan: [VecDeque::new(), VecDeque::new()], connected: true });
        } else {
            for a in 0..npeers {
                for b in (a + 1)..npeers {
                    if rng.chance(2, 3) {
                        s.links.push(Link { a, b, st: [State::new(), State::new()], chan: [VecDeque::new(), VecDeque::new()], connected: true });
                    }
                }
            }
            if s.links.is_empty() {
                s.links.push(Link { a: 0, b: 1, st: [State::new(), State::new()], chan: [VecDeque::new(), VecDeque::new()], connected: true });
            }
        }
        let grind = rng.chance(1, 3);
        let sched = if thorough { rng.range(5, 80) } else { rng.range(5, 40) } as usize;
        let ro_side = rng.below(2) as usize; // read-only sessions: which end of link 0 is the read-only peer
        let mut ro_on = false;
        if kind == "read-only" && rng.chance(1, 2) {
            s.new_state(0, ro_side, 2);
            ro_on = true;
        }
        let ro_at = rng.below(sched as u64 + 1) as usize;
        // a third of the read-only sessions are "blips": the state turns read-only, receives whatever is in flight
        // and turns read-write again BEFORE it generates anything; nothing else is read-only in such a session, and
        // at quiescence the peer must hold every change it skipped during the blip
        let blip_mode = kind == "read-only" && !ro_on && rng.chance(1, 3);
        let blip_at = rng.below(sched as u64 + 1) as usize;
        let mut crashes = 0u64;

        // half of the multi-peer sessions first sync to quiescence, so that the links have shared heads worth
        // persisting (and worth losing) before connections drop and peers restart
        if kind == "multi-peer" && rng.chance(1, 2) {
            let _ = s.quiesce(&mut rep, 30);
            rep.count("multi_peer_sessions_presynced");
        }
        // ---------- random schedule ----------
        for t in 0..sched {
            if s.failed {
                break;
            }
            if blip_mode && t == blip_at {
                // make it likely that a message carrying changes is in flight towards the peer
                let other = if ro_side == 0 { s.links[0].b } else { s.links[0].a };
                s.local_edit(rng, &cfg, other, None);
                s.generate(&mut rep, 0, 1 - ro_side);
                s.set_ro(0, ro_side, true);
                while s.deliver(&mut rep, 0, 1 - ro_side) {}
                s.set_ro(0, ro_side, false);
                rep.count("read_only_blips");
            }
            if kind == "read-only" && !blip_mode && !ro_on && t == ro_at {
                s.set_ro(0, ro_side, true);
                ro_on = true;
            }
            let li = rng.below(s.links.len() as u64) as usize;
            let dir = rng.below(2) as usize;
            match rng.below(100) {
                0..=34 => {
                    if s.links[li].connected {
                        s.generate(&mut rep, li, dir);
                    }
                }
                35..=69 => {
                    if s.links[li].connected {
                        s.deliver(&mut rep, li, dir);
                    }
                }
                70..=89 => {
                    let p = rng.below(npeers as u64) as usize;
                    let g = if grind && rng.chance(1, 2) {
                        let (a, b) = (s.links[li].a, s.links[li].b);
                        if p == a { Some(b) } else if p == b { Some(a) } else { None }
                    } else {
                        None
                    };
                    s.local_edit(rng, &cfg, p, g);
                }
                _ => {
                    if kind == "multi-peer" && rng.chance(1, 5) {
                        // peer p crashes and restarts with an EMPTY document and fresh states; its partners keep
                        // (persist) theirs, so their last_sync names changes p no longer has: the reset path
                        let p = rng.below(npeers as u64) as usize;
                        let mine: Vec<usize> = (0..s.links.len()).filter(|i| s.links[*i].a == p || s.links[*i].b == p).collect();
                        for &l in &mine {
                            if s.links[l].connected {
                                s.drop_link(l);
                            }
                        }
                        // a fresh actor id, distinct from every other actor of the session (the restarted peer is a new replica)
                        s.docs[p] = AutoCommit::new_with_encoding(automerge::TextEncoding::UnicodeCodePoint).with_actor(automerge::ActorId::from(vec![rng.next() as u8, 0xED, p as u8, crashes as u8, (t & 0xff) as u8]));
                        s.steps.push(format!("SLoseDoc {}", p));
                        s.log.push(format!("peer {} loses its document", p));
                        crashes += 1;
                        for &l in &mine {
                            let pd = if s.links[l].a == p { 0 } else { 1 };
                            s.new_state(l, pd, 0);
                            s.new_state(l, 1 - pd, 1);
                            s.links[l].connected = true;
                        }
                    } else if kind == "multi-peer" {
                        if s.links[li].connected {
                            s.drop_link(li);
                        } else {
                            s.new_state(li, 0, rng.below(2));
                            s.new_state(li, 1, rng.below(2));
                            s.links[li].connected = true;
                            s.log.push(format!("reconnect link {}", li));
                        }
                    } else {
                        s.generate(&mut rep, li, dir);
                    }
                }
            }
        }
        if kind == "read-only" && !blip_mode && !ro_on && !s.failed {
            s.set_ro(0, ro_side, true);
        }
        // ---------- final topology (multi-peer): reconnect most dropped links ----------
        if kind == "multi-peer" && !s.failed {
            for li in 0..s.links.len() {
                if !s.links[li].connected && rng.chance(3, 4) {
                    s.new_state(li, 0, rng.below(2));
                    s.new_state(li, 1, rng.below(2));
                    s.links[li].connected = true;
                    s.log.push(format!("reconnect link {}", li));
                }
            }
        }
        // ---------- quiescence ----------
        let budget = 40 + 20 * npeers;
        let mut quiet = if s.failed { Some(0) } else { s.quiesce(&mut rep, budget) };
        let cands: Vec<(ObjId, ObjType)> = object_ids(&s.universe);
        if !s.failed {
            match quiet {
                None => {
                    let props: &[&str] = match kind { "two-peer" => &["C20"], "read-only" => &["C22", "C20"], _ => &["C21"] };
                    rep.fail(props, &format!("sync|no-quiescence|{}", kind),
                        &format!("edits stopped and messages kept flowing, but after {} rounds some peer still generates messages", budget),
                        json!({"kind": kind, "log": s.log}));
                    s.failed = true;
                }
                Some(r) => rounds_max = rounds_max.max(r),
            }
        }
        if !s.failed && kind == "two-peer" {
            let h0 = sorted(s.docs[0].get_heads());
            let h1 = sorted(s.docs[1].get_heads());
            let r0 = render_plain(s.docs[0].document(), &cands);
            let r1 = render_plain(s.docs[1].document(), &cands);
            if h0 != h1 || r0 != r1 {
                rep.fail(&["C20"], "sync|quiet-but-different", "both peers return None from generate_sync_message with nothing in flight, but heads or state differ",
                    json!({"kind": kind, "log": s.log}));
                s.failed = true;
            }
        }
        if !s.failed && kind == "multi-peer" {
            let comp = component_of(&s.links, npeers);
            for p in 0..npeers {
                for q in (p + 1)..npeers {
                    if comp[p] == comp[q] {
                        let hp = sorted(s.docs[p].get_heads());
                        let hq = sorted(s.docs[q].get_heads());
                        let same = hp == hq && render_plain(s.docs[p].document(), &cands) == render_plain(s.docs[q].document(), &cands);
                        if !same {
                            rep.fail(&["C21"], "sync|component-diverged", "all connected links are quiet but two peers of one connected component differ in heads or state",
                                json!({"kind": kind, "log": s.log, "peers": [p, q]}));
                            s.failed = true;
                        }
                    }
                }
            }
            let ncomp = comp.iter().collect::<BTreeSet<_>>().len();
            rep.add("components", ncomp as u64);
        }
        if !s.failed && blip_mode {
            let h0 = sorted(s.docs[0].get_heads());
            let h1 = sorted(s.docs[1].get_heads());
            if h0 != h1 || render_plain(s.docs[0].document(), &cands) != render_plain(s.docs[1].document(), &cands) {
                rep.fail(&["C22"], "sync|no-catch-up|after-blip",
                    "the state was read-only only while it received (no message generated in between); back in read-write the session went quiet but the peer still lacks changes it skipped",
                    json!({"kind": kind, "log": s.log}));
                s.failed = true;
            }
        }
        if !s.failed && kind == "read-only" && !blip_mode {
            let (r, w) = if ro_side == 0 { (s.links[0].a, s.links[0].b) } else { (s.links[0].b, s.links[0].a) };
            // the writer has everything the read-only peer has
            let rset = all_hashes(&mut s.docs[r]);
            let wset = all_hashes(&mut s.docs[w]);
            if !rset.iter().all(|h| wset.contains(h)) {
                rep.fail(&["C22"], "sync|read-only-did-not-send", "the session is quiet but the other peer lacks changes of the read-only peer",
                    json!({"kind": kind, "log": s.log}));
                s.failed = true;
            }
            let skipped = wset.iter().filter(|h| !rset.contains(h)).count();
            rep.add("read_only_skipped_changes", skipped as u64);
            // back to read-write: possibly with messages in flight and edits, then quiescence again
            if !s.failed {
                if rng.chance(1, 3) {
                    s.generate(&mut rep, 0, 1 - ro_side);
                }
                s.set_ro(0, ro_side, false);
                for _ in 0..rng.below(6) {
                    match rng.below(3) {
                        0 => {
                            let d = rng.below(2) as usize;
                            s.generate(&mut rep, 0, d);
                        }
                        1 => {
                            let d = rng.below(2) as usize;
                            s.deliver(&mut rep, 0, d);
                        }
                        _ => {
                            let p = rng.below(2) as usize;
                            s.local_edit(rng, &cfg, p, None);
                        }
                    }
                }
                quiet = s.quiesce(&mut rep, budget);
                if quiet.is_none() && !s.failed {
                    rep.fail(&["C22"], "sync|no-quiescence|after-read-write", "after switching back to read-write the session does not go quiet",
                        json!({"kind": kind, "log": s.log}));
                    s.failed = true;
                }
                if !s.failed {
                    let rset = all_hashes(&mut s.docs[r]);
                    let wset = all_hashes(&mut s.docs[w]);
                    let same = sorted(s.docs[r].get_heads()) == sorted(s.docs[w].get_heads())
                        && render_plain(s.docs[r].document(), &cands) == render_plain(s.docs[w].document(), &cands);
                    if rset != wset || !same {
                        rep.fail(&["C22"], "sync|no-catch-up", &format!("after switching the state back to read-write and syncing to quiescence the peer still lacks {} change(s) it skipped",
                            wset.iter().filter(|h| !rset.contains(h)).count()),
                            json!({"kind": kind, "log": s.log}));
                        s.failed = true;
                    }
                }
            }
        }
        rep.add("messages", s.messages as u64);
        rep.add("carried_changes", s.carried as u64);
        rep.add("reset_messages", s.resets as u64);
        if s.resets > 0 {
            rep.add(&format!("reset_messages_{}", kind), s.resets as u64);
        }
        rep.add("bloom_false_positive_hits", s.fp_hits as u64);
        rep.add("whole_document_messages", s.whole_doc as u64);
        rep.add("read_only_receives", s.ro_receives as u64);
        rep.add("steps", s.steps.len() as u64);
        rep.add("peer_crashes_with_data_loss", crashes);
        rep.count(&format!("sessions_{}", kind));
        let key = fnv(s.log.join("|").as_bytes()) ^ fnv(format!("{:?}", s.universe.iter().map(|c| c.hash()).collect::<Vec<_>>()).as_bytes());
        let nontrivial = differ && s.carried > 0;
        rep.case(if nontrivial { Some(key) } else { None });
        if si < 3 {
            rep.sample(json!({"kind": kind, "peers": npeers, "changes": s.universe.len(), "messages": s.messages, "log": s.log.iter().take(40).collect::<Vec<_>>()}));
        }
        if si < n_model {
            let props: Vec<&str> = match kind { "two-peer" => vec!["C20", "C21", "C22"], "read-only" => vec!["C22", "C20"], _ => vec!["C21", "C20"] };
            let k = group_cases.len();
            group_defs.push(format!("Definition hh{} : list N := {}.", k, coq_hashes(&s.universe.iter().map(|c| c.hash()).collect::<Vec<_>>())));
            group_defs.push(format!("Definition u{} : list change := mk_universe hh{} {}.", k, k,
                coq_list(&s.universe.iter().map(|c| coq_change_meta(c, &s.idx)).collect::<Vec<_>>())));
            group_defs.push(format!("Definition H{} (l : list N) : list N := map (hash_at hh{}) l.", k, k));
            let steps: Vec<String> = s.steps.iter().map(|x| format!("({})", x.replace("(H [", &format!("(H{} [", k)))).collect();
            let term = format!("chk_sync u{} {} {}", k, inis, coq_list(&steps));
            group_cases.push((term, json!({"kind": format!("session-{}", kind), "props": props, "session": si, "log": s.log})));
            if group_cases.len() >= 6 {
                cw.push_group(&group_defs, std::mem::take(&mut group_cases));
                group_defs.clear();
            }
        }
    }
    if !group_cases.is_empty() {
        cw.push_group(&group_defs, std::mem::take(&mut group_cases));
    }
    rep.extra.insert("max_rounds_to_quiescence".into(), json!(rounds_max));
    rep.model_cases = cw.total as u64;
    cw.finish();
    rep
}
