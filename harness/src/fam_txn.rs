// Family "txn": transactions as a whole — rollback (C28), isolation (C29), object ids (C30).
//
// C28  random transactions (manual `doc.transaction()`, AutoCommit, isolated AutoCommit,
//      `transaction_at`) on replicas of generated multi-replica histories, mixing every editing call
//      (puts, objects, inserts, deletes, increments on conflicted registers, splice, splice_text,
//      marks), often as an actor the document has never used (actor table grows, must shrink back):
//      save() bytes, heads, actor, actor-index hints of every returned id, missing deps, full
//      observation and the wider read rendering are compared before vs after rollback, for the whole
//      transaction and for every prefix of it; then the SAME edit program is applied to the
//      rolled-back document and to a clone taken before the transaction: the two changes must be
//      byte-identical and so must the saved documents.  Model cases (chk_rollback): the model
//      replays the calls (Crdt/Local.v on the scoped op set), rolls back, and must show the
//      observation, heads and actor table the implementation shows.
// C29  isolate(heads) / transaction_at(heads) at recorded head sets (earlier states, concurrent
//      branches): after every call the reads inside equal the reads of a fork_at(heads) copy that
//      received the same calls (structural rendering: the two write under different ids); the
//      committed change depends on exactly the heads (first) / the previous isolated change (next);
//      after integrate the document equals a clone of the non-isolated state that received the
//      isolated changes through apply_changes.  Model cases (chk_iso): actor / seq / start_op / deps,
//      every read inside, the ops op for op, the isolated and the integrated view afterwards.
// C30  object ids taken at creation and from reads, used in every replica and derived document
//      (merged, saved+loaded, forked, fork_at): with their original hint, a zero hint, a hint past
//      the table, and rebuilt from bytes; in documents that hold the object all hints read the same
//      data and edits land in that object; in documents that do not, every read is an error or
//      empty and every edit an error.  Model cases (chk_resolve): Ok(type) / Err for id x replica.
use crate::fam_hist::build_universe;
use crate::gen::{self, GenCfg};
use crate::model::{coq_actor, coq_objid, coq_objtype, coq_op, coq_scalar, coq_str, object_ids, render_reads};
use crate::util::*;
use automerge::marks::{ExpandMark, Mark};
use automerge::transaction::Transactable;
use automerge::{
    ActorId, AutoCommit, Automerge, AutomergeError, Change, ChangeHash, ObjId, ObjType, PatchLog, ReadDoc, ScalarValue, Value, ROOT,
};
use serde_json::json;
use std::collections::{BTreeMap, BTreeSet, HashMap};

const HEADER: &str = "From AM Require Import Base.Prelude Base.Order Codec.Bloom Codec.ExId Crdt.Types Crdt.Interp Crdt.Doc Crdt.Local Crdt.Commit Crdt.ClockProofs Crdt.Txn Crdt.Resolve Exec.EditExec Exec.TxnExec.\nLocal Open Scope N_scope.\n";

// set when an editing call panicked: the op set is then half-edited and whatever panics next (the rollback of
// the dropped transaction, a later read) is a consequence, not a second finding
static CALL_PANICKED: std::sync::atomic::AtomicBool = std::sync::atomic::AtomicBool::new(false);
fn take_call_panicked() -> bool {
    CALL_PANICKED.swap(false, std::sync::atomic::Ordering::SeqCst)
}
// where a program is (named in the report when the implementation panics)
static STAGE: std::sync::Mutex<&'static str> = std::sync::Mutex::new("");
fn stage(s: &'static str) {
    *STAGE.lock().unwrap() = s;
}
fn at_stage() -> &'static str {
    *STAGE.lock().unwrap()
}

/// a defect of the read path that is no business of this family's properties: parents() of a deleted object
/// whose list element still shows a concurrent value with a smaller op id trips the fast-vs-slow assertion of
/// seek_list_opid (a release build answers with an index that is one too high).  Reported for C37 only.
fn foreign_panic(rep: &mut Report, p: &PanicInfo, log: &[String]) -> bool {
    if p.location.contains("op_set2/op_set.rs") && p.message.contains("FoundOpId") {
        rep.count("foreign_panic_seek_list_opid");
        rep.fail(&["C37"], "panic|reads|parents|seek_list_opid-fast-slow-disagree",
            &format!("parents() of a deleted object in a list element that keeps a concurrent value: {}", p.message.chars().take(300).collect::<String>()), json!({"log": log}));
        true
    } else {
        false
    }
}

// ------------------------------------------------------------------ commands
#[derive(Clone, Debug)]
enum P {
    Map(String),
    Seq(usize),
}

#[derive(Clone, Debug)]
enum Cmd {
    Put(ObjId, P, ScalarValue),
    PutObj(ObjId, P, ObjType),
    Insert(ObjId, usize, ScalarValue),
    InsertObj(ObjId, usize, ObjType),
    Delete(ObjId, P),
    Inc(ObjId, P, i64),
    Splice(ObjId, usize, isize, Vec<ScalarValue>),
    SpliceText(ObjId, usize, isize, String),
    Mark(ObjId, usize, usize, String, ScalarValue, u8), // outside the model
    Unmark(ObjId, usize, usize, String, u8),            // outside the model
}

impl Cmd {
    fn kind(&self) -> &'static str {
        match self {
            Cmd::Put(..) => "put",
            Cmd::PutObj(..) => "put_object",
            Cmd::Insert(..) => "insert",
            Cmd::InsertObj(..) => "insert_object",
            Cmd::Delete(..) => "delete",
            Cmd::Inc(..) => "increment",
            Cmd::Splice(..) => "splice",
            Cmd::SpliceText(..) => "splice_text",
            Cmd::Mark(..) => "mark",
            Cmd::Unmark(..) => "unmark",
        }
    }
    fn obj(&self) -> &ObjId {
        match self {
            Cmd::Put(o, ..) | Cmd::PutObj(o, ..) | Cmd::Insert(o, ..) | Cmd::InsertObj(o, ..) | Cmd::Delete(o, ..) | Cmd::Inc(o, ..)
            | Cmd::Splice(o, ..) | Cmd::SpliceText(o, ..) | Cmd::Mark(o, ..) | Cmd::Unmark(o, ..) => o,
        }
    }
    fn with_obj(&self, n: ObjId) -> Cmd {
        let mut c = self.clone();
        match &mut c {
            Cmd::Put(o, ..) | Cmd::PutObj(o, ..) | Cmd::Insert(o, ..) | Cmd::InsertObj(o, ..) | Cmd::Delete(o, ..) | Cmd::Inc(o, ..)
            | Cmd::Splice(o, ..) | Cmd::SpliceText(o, ..) | Cmd::Mark(o, ..) | Cmd::Unmark(o, ..) => *o = n,
        }
        c
    }
    fn modelled(&self) -> bool {
        !matches!(self, Cmd::Mark(..) | Cmd::Unmark(..))
    }
    fn coq(&self) -> String {
        let p = |p: &P| match p {
            P::Map(k) => format!("(PMap {})", coq_str(k)),
            P::Seq(i) => format!("(PSeq {})", i),
        };
        match self {
            Cmd::Put(o, pr, v) => format!("(CPut {} {} {})", coq_objid(o), p(pr), coq_scalar(v)),
            Cmd::PutObj(o, pr, t) => format!("(CPutObj {} {} {})", coq_objid(o), p(pr), coq_objtype(*t)),
            Cmd::Insert(o, i, v) => format!("(CInsert {} {} {})", coq_objid(o), i, coq_scalar(v)),
            Cmd::InsertObj(o, i, t) => format!("(CInsertObj {} {} {})", coq_objid(o), i, coq_objtype(*t)),
            Cmd::Delete(o, pr) => format!("(CDelete {} {})", coq_objid(o), p(pr)),
            Cmd::Inc(o, pr, z) => format!("(CInc {} {} {})", coq_objid(o), p(pr), coq_z(*z as i128)),
            Cmd::Splice(o, i, d, vs) => format!("(CSplice {} {} {} {})", coq_objid(o), i, coq_z(*d as i128), coq_list(&vs.iter().map(coq_scalar).collect::<Vec<_>>())),
            Cmd::SpliceText(o, i, d, s) => format!("(CSpliceText {} {} {} {})", coq_objid(o), i, coq_z(*d as i128), coq_str(s)),
            _ => "(* not modelled *)".to_string(),
        }
    }
}

fn expand_of(e: u8) -> ExpandMark {
    match e % 4 {
        0 => ExpandMark::None,
        1 => ExpandMark::Before,
        2 => ExpandMark::After,
        _ => ExpandMark::Both,
    }
}
fn prop_of(p: &P) -> automerge::Prop {
    match p {
        P::Map(k) => automerge::Prop::Map(k.clone()),
        P::Seq(i) => automerge::Prop::Seq(*i),
    }
}
/// 0 ok, 1 InvalidObjId / NotAnObject, 2 InvalidOp, 3 InvalidIndex, 4 MissingCounter, 5 InvalidValueType, 9 other
fn err_class(e: &AutomergeError) -> u8 {
    match e {
        AutomergeError::InvalidObjId(_) | AutomergeError::NotAnObject => 1,
        AutomergeError::InvalidOp(_) => 2,
        AutomergeError::InvalidIndex(_) => 3,
        AutomergeError::MissingCounter => 4,
        AutomergeError::InvalidValueType { .. } => 5,
        _ => 9,
    }
}

fn exec<T: Transactable>(t: &mut T, c: &Cmd) -> Result<Option<ObjId>, AutomergeError> {
    match c {
        Cmd::Put(o, p, v) => t.put(o, prop_of(p), v.clone()).map(|_| None),
        Cmd::PutObj(o, p, ty) => t.put_object(o, prop_of(p), *ty).map(Some),
        Cmd::Insert(o, i, v) => t.insert(o, *i, v.clone()).map(|_| None),
        Cmd::InsertObj(o, i, ty) => t.insert_object(o, *i, *ty).map(Some),
        Cmd::Delete(o, p) => t.delete(o, prop_of(p)).map(|_| None),
        Cmd::Inc(o, p, z) => t.increment(o, prop_of(p), *z).map(|_| None),
        Cmd::Splice(o, i, d, vs) => t.splice(o, *i, *d, vs.iter().cloned()).map(|_| None),
        Cmd::SpliceText(o, i, d, s) => t.splice_text(o, *i, *d, s).map(|_| None),
        Cmd::Mark(o, s, e, name, v, ex) => t.mark(o, Mark::new(name.clone(), v.clone(), *s, *e), expand_of(*ex)).map(|_| None),
        Cmd::Unmark(o, s, e, name, ex) => t.unmark(o, name, *s, *e, expand_of(*ex)).map(|_| None),
    }
}

// ------------------------------------------------------------------ observations
fn exid_key(id: &ObjId) -> (u64, Vec<u8>) {
    match id {
        ObjId::Root => (0, vec![]),
        ObjId::Id(c, a, _) => (*c, a.to_bytes().to_vec()),
    }
}
fn coq_vobs(v: &Value<'_>) -> String {
    match v {
        Value::Object(t) => format!("(VO {})", coq_objtype(*t)),
        Value::Scalar(s) => match s.as_ref() {
            ScalarValue::Counter(c) => format!("(VC {})", coq_z(i64::from(c) as i128)),
            other => format!("(VS {})", coq_scalar(other)),
        },
    }
}
type Hints = BTreeSet<(Vec<u8>, usize)>;
fn note_hint(h: &mut Hints, id: &ObjId) {
    if let ObjId::Id(_, a, i) = id {
        h.insert((a.to_bytes().to_vec(), *i));
    }
}
fn coq_register(mut vals: Vec<(Value<'_>, ObjId)>, hints: &mut Hints) -> String {
    vals.sort_by(|a, b| exid_key(&a.1).cmp(&exid_key(&b.1)));
    for (_, id) in &vals {
        note_hint(hints, id);
    }
    let items: Vec<String> = vals.iter().map(|(v, id)| format!("({},{})", coq_objid(id), coq_vobs(v))).collect();
    coq_list(&items)
}
/// width (code points: every family document uses TextEncoding::UnicodeCodePoint) of a text element
fn reg_width(vals: &[(Value<'_>, ObjId)]) -> usize {
    match vals.iter().max_by_key(|x| exid_key(&x.1)) {
        Some((Value::Scalar(s), _)) => match s.as_ref() {
            ScalarValue::Str(s) => s.chars().count(),
            _ => 1,
        },
        Some(_) => 1,
        None => 0,
    }
}
/// the document (as the reader `doc` shows it: inside a transaction, through an isolation) as a Coq `obs` literal
type Scope = Option<std::collections::HashSet<(u64, Vec<u8>)>>;
/// objects (of `cands`) that exist in `doc`
fn scope_of<D: ReadDoc>(doc: &D, cands: &[(ObjId, ObjType)]) -> Scope {
    Some(cands.iter().filter(|c| doc.object_type(&c.0).is_ok()).map(|c| exid_key(&c.0)).collect())
}
/// `scope`: the objects that exist at the isolation heads (or were made by the transaction).  object_type() has
/// no scoped form: an isolated reader answers Ok for an object made after the heads (and shows it empty); such
/// objects are left out here and checked separately (`future_objects_are_empty`).
fn observe<D: ReadDoc>(doc: &D, cands: &[(ObjId, ObjType)], hints: &mut Hints, scope: &Scope) -> Result<String, String> {
    let mut objs = vec![];
    for (id, _) in cands {
        if let Some(s) = scope {
            if !s.contains(&exid_key(id)) {
                continue;
            }
        }
        let ty = match doc.object_type(id) {
            Ok(t) => t,
            Err(_) => continue,
        };
        let entries = if ty.is_sequence() {
            let len = doc.length(id);
            let mut regs = vec![];
            let mut i = 0usize;
            while i < len {
                let vals = doc.get_all(id, i).map_err(|e| format!("get_all({:?},{}) failed: {}", id, i, e))?;
                if vals.is_empty() {
                    return Err(format!("get_all({:?},{}) is empty below length {}", id, i, len));
                }
                let w = if ty == ObjType::Text { reg_width(&vals) } else { 1 };
                if w == 0 {
                    return Err(format!("get_all({:?},{}) returned a zero-width element", id, i));
                }
                regs.push(coq_register(vals, hints));
                i += w;
            }
            if i != len {
                return Err(format!("walking {:?} by element widths ends at {} but length is {}", id, i, len));
            }
            format!("(EL {})", coq_list(&regs))
        } else {
            let keys: Vec<String> = doc.keys(id).collect();
            let mut ents = vec![];
            for k in keys {
                let vals = doc.get_all(id, k.as_str()).map_err(|e| format!("get_all({:?},{:?}) failed: {}", id, k, e))?;
                ents.push(format!("({},{})", coq_str(&k), coq_register(vals, hints)));
            }
            format!("(EM {})", coq_list(&ents))
        };
        objs.push(format!("(mkO {} {} {})", coq_objid(id), coq_objtype(ty), entries));
    }
    Ok(coq_list(&objs))
}

/// structural rendering from the root, without ids: what two documents that wrote the same values under
/// different op ids must agree on (registers in ascending id order — a transaction's own ops are the greatest
/// in both)
fn render_tree<D: ReadDoc>(doc: &D, obj: &ObjId, ty: ObjType, depth: usize) -> String {
    if depth > 6 {
        return "…".into();
    }
    let val = |v: &Value<'_>, id: &ObjId| match v {
        Value::Object(t) => format!("{:?}{}", t, render_tree(doc, id, *t, depth + 1)),
        Value::Scalar(s) => format!("{:?}", s),
    };
    let mut s = String::new();
    if ty.is_sequence() {
        let len = doc.length(obj);
        s.push_str(&format!("[len {}:", len));
        let mut i = 0;
        while i < len {
            match doc.get_all(obj, i) {
                Ok(mut vals) => {
                    vals.sort_by(|a, b| exid_key(&a.1).cmp(&exid_key(&b.1)));
                    let w = if ty == ObjType::Text { reg_width(&vals).max(1) } else { 1 };
                    s.push_str(&format!(" {}=<{}>", i, vals.iter().map(|(v, id)| val(v, id)).collect::<Vec<_>>().join("|")));
                    i += w;
                }
                Err(_) => {
                    s.push_str(&format!(" {}=ERR", i));
                    i += 1;
                }
            }
        }
        if ty == ObjType::Text {
            s.push_str(&format!(" text={:?}", doc.text(obj).map_err(|_| ())));
            let marks = doc.marks(obj).map(|ms| ms.iter().map(|m| format!("{}..{} {}={:?}", m.start, m.end, m.name(), m.value())).collect::<Vec<_>>()).map_err(|_| ());
            s.push_str(&format!(" marks={:?}", marks));
        }
        s.push(']');
    } else {
        s.push('{');
        for k in doc.keys(obj) {
            match doc.get_all(obj, k.as_str()) {
                Ok(mut vals) => {
                    vals.sort_by(|a, b| exid_key(&a.1).cmp(&exid_key(&b.1)));
                    s.push_str(&format!(" {:?}=<{}>", k, vals.iter().map(|(v, id)| val(v, id)).collect::<Vec<_>>().join("|")));
                }
                Err(_) => s.push_str(&format!(" {:?}=ERR", k)),
            }
        }
        s.push('}');
    }
    s
}

/// objects outside the scope must read as nothing but their type
fn future_objects_are_empty<D: ReadDoc>(doc: &D, cands: &[(ObjId, ObjType)], scope: &Scope) -> Result<usize, String> {
    let mut n = 0;
    if let Some(s) = scope {
        for (id, _) in cands {
            if s.contains(&exid_key(id)) || doc.object_type(id).is_err() {
                continue;
            }
            n += 1;
            if doc.length(id) != 0 || doc.keys(id).count() != 0 || doc.values(id).count() != 0 || doc.text(id).map(|t| !t.is_empty()).unwrap_or(false) {
                return Err(format!("object {:?} does not exist at the isolation heads but the isolated reader shows content in it", id));
            }
        }
    }
    Ok(n)
}

/// the first line (object) on which two renderings differ
fn first_diff_line(a: &str, b: &str) -> (String, String) {
    for (x, y) in a.lines().zip(b.lines()) {
        if x != y {
            return (x.chars().take(1500).collect(), y.chars().take(1500).collect());
        }
    }
    (format!("{} lines", a.lines().count()), format!("{} lines", b.lines().count()))
}

fn sorted_hashes(mut h: Vec<ChangeHash>) -> Vec<ChangeHash> {
    h.sort();
    h
}

// ------------------------------------------------------------------ changes as model literals (small hashes)
struct ChMap {
    idx: HashMap<ChangeHash, usize>,
}
impl ChMap {
    fn new(changes: &[Change]) -> Self {
        let mut idx = HashMap::new();
        for (i, c) in changes.iter().enumerate() {
            idx.insert(c.hash(), i + 1);
        }
        ChMap { idx }
    }
    fn h(&self, h: &ChangeHash) -> usize {
        // a hash the document does not know: a number no change has
        *self.idx.get(h).unwrap_or(&999_999)
    }
    fn hs(&self, hs: &[ChangeHash]) -> String {
        coq_nlist(hs.iter().map(|h| self.h(h) as u128))
    }
    fn hs_sorted(&self, hs: &[ChangeHash]) -> String {
        let mut v: Vec<usize> = hs.iter().map(|h| self.h(h)).collect();
        v.sort();
        coq_nlist(v.into_iter().map(|x| x as u128))
    }
}
fn coq_ops_of(c: &Change) -> String {
    let e = c.decode();
    let start = e.start_op.get();
    let ops: Vec<String> = e.operations.iter().enumerate().map(|(i, op)| coq_op(op, start + i as u64, &e.actor_id)).collect();
    coq_list(&ops)
}
fn coq_change_small(c: &Change, m: &ChMap) -> String {
    let e = c.decode();
    format!("(mkChange {} {} {} {} {} {})", m.h(&c.hash()), coq_actor(&e.actor_id), e.seq, e.start_op.get(), m.hs(c.deps()), coq_ops_of(c))
}
fn actor_table(changes: &[Change]) -> Vec<Vec<u8>> {
    let s: BTreeSet<Vec<u8>> = changes.iter().map(|c| c.actor_id().to_bytes().to_vec()).collect();
    s.into_iter().collect()
}
fn coq_table(t: &[Vec<u8>]) -> String {
    coq_list(&t.iter().map(|a| coq_bytes(a)).collect::<Vec<_>>())
}
fn coq_pairs(h: &Hints) -> String {
    coq_list(&h.iter().map(|(a, i)| format!("({},{})", coq_bytes(a), i)).collect::<Vec<_>>())
}
fn defs_of(changes: &[Change], m: &ChMap, prefix: &str) -> (Vec<String>, String) {
    let mut defs = vec![];
    let mut names = vec![];
    for (i, c) in changes.iter().enumerate() {
        defs.push(format!("Definition {}ch{} : change := {}.", prefix, i, coq_change_small(c, m)));
        names.push(format!("{}ch{}", prefix, i));
    }
    defs.push(format!("Definition {}chs : list change := {}.", prefix, coq_list(&names)));
    (defs, format!("{}chs", prefix))
}

/// several programs per shard: loading the libraries costs coqc far more than evaluating a case
struct Groups {
    defs: Vec<String>,
    cases: Vec<(String, serde_json::Value)>,
    programs: usize,
    per_shard: usize,
}
impl Groups {
    fn add(&mut self, cw: &mut CaseWriter, defs: Vec<String>, cases: Vec<(String, serde_json::Value)>) {
        self.defs.extend(defs);
        self.cases.extend(cases);
        self.programs += 1;
        if self.programs >= self.per_shard {
            self.flush(cw);
        }
    }
    fn flush(&mut self, cw: &mut CaseWriter) {
        if !self.cases.is_empty() {
            cw.push_group(&self.defs, std::mem::take(&mut self.cases));
        }
        self.defs.clear();
        self.programs = 0;
    }
}

// ------------------------------------------------------------------ generation of calls
fn has_counter<D: ReadDoc>(doc: &D, obj: &ObjId, p: &P) -> bool {
    doc.get_all(obj, prop_of(p))
        .map(|vs| vs.iter().any(|(v, _)| matches!(v, Value::Scalar(s) if matches!(s.as_ref(), ScalarValue::Counter(_)))))
        .unwrap_or(false)
}
fn text_value(rng: &mut Rng) -> ScalarValue {
    loop {
        let v = gen::scalar(rng);
        if !matches!(v, ScalarValue::Counter(_)) {
            return v;
        }
    }
}
fn current_scalar<D: ReadDoc>(doc: &D, obj: &ObjId, p: &P) -> Option<ScalarValue> {
    match doc.get(obj, prop_of(p)) {
        Ok(Some((Value::Scalar(s), _))) => Some(s.into_owned()),
        _ => None,
    }
}

/// one call, mostly valid; `marks`: calls outside the model allowed
fn gen_cmd<D: ReadDoc>(doc: &D, rng: &mut Rng, objs: &[(ObjId, ObjType)], marks: bool) -> Option<Cmd> {
    if rng.chance(1, 12) {
        // invalid stream: unknown object, wrong key kind, index past the end, increment of a non-counter
        let (o, ty) = rng.pick(objs).clone();
        return Some(match rng.below(4) {
            0 => Cmd::Put(ObjId::Id(9_000 + rng.below(50), ActorId::from(vec![0x77u8, 0x01]), 0), P::Map("a".into()), ScalarValue::Int(1)),
            1 => {
                if ty.is_sequence() {
                    Cmd::Put(o, P::Map("k".into()), ScalarValue::Int(1))
                } else {
                    Cmd::Insert(o, 0, ScalarValue::Int(1))
                }
            }
            2 => {
                if ty.is_sequence() {
                    let len = doc.length(&o);
                    Cmd::Insert(o, len + 2, if ty == ObjType::Text { ScalarValue::Str("x".into()) } else { ScalarValue::Int(2) })
                } else {
                    Cmd::Inc(o, P::Map("nokey".into()), 1)
                }
            }
            _ => {
                let p = if ty.is_sequence() { P::Seq(doc.length(&o) + 1) } else { P::Map("nokey".into()) };
                Cmd::Delete(o, p)
            }
        });
    }
    let seqs: Vec<_> = objs.iter().filter(|o| o.1.is_sequence()).cloned().collect();
    let (obj, ty) = if !seqs.is_empty() && rng.chance(1, 2) { rng.pick(&seqs).clone() } else { rng.pick(objs).clone() };
    match ty {
        ObjType::Map | ObjType::Table => {
            let existing: Vec<String> = doc.keys(&obj).collect();
            let key = if !existing.is_empty() && rng.chance(2, 3) { rng.pick(&existing).clone() } else { rng.pick(&gen::KEYS).to_string() };
            let p = P::Map(key);
            match rng.below(12) {
                0 | 1 => Some(Cmd::Delete(obj, p)),
                2 | 3 | 4 => {
                    // increments go for conflicted registers first
                    let mut ks: Vec<(usize, String)> = existing
                        .iter()
                        .filter(|k| has_counter(doc, &obj, &P::Map((*k).clone())))
                        .map(|k| (doc.get_all(&obj, k.as_str()).map(|v| v.len()).unwrap_or(0), k.clone()))
                        .collect();
                    ks.sort();
                    match ks.pop() {
                        Some((_, k)) => Some(Cmd::Inc(obj, P::Map(k), rng.below(9) as i64 - 4)),
                        None => Some(Cmd::Put(obj, p, ScalarValue::counter(rng.below(5) as i64))),
                    }
                }
                5 | 6 => Some(Cmd::PutObj(obj, p, gen::objtype(rng))),
                7 => match current_scalar(doc, &obj, &p) {
                    Some(v) => Some(Cmd::Put(obj, p, v)),
                    None => Some(Cmd::Put(obj, p, gen::scalar(rng))),
                },
                _ => Some(Cmd::Put(obj, p, gen::scalar(rng))),
            }
        }
        ObjType::List => {
            let len = doc.length(&obj);
            match rng.below(14) {
                0 | 1 if len > 0 => Some(Cmd::Delete(obj, P::Seq(rng.below(len as u64) as usize))),
                2 | 3 if len > 0 => {
                    let i = if rng.chance(1, 2) { 0 } else { rng.below(len as u64) as usize };
                    let v = if rng.chance(1, 3) { ScalarValue::counter(rng.below(9) as i64) } else { gen::scalar(rng) };
                    Some(Cmd::Put(obj, P::Seq(i), v))
                }
                4 | 5 if len > 0 => {
                    for i in 0..len {
                        if has_counter(doc, &obj, &P::Seq(i)) {
                            return Some(Cmd::Inc(obj, P::Seq(i), rng.below(7) as i64 - 3));
                        }
                    }
                    Some(Cmd::Put(obj, P::Seq(rng.below(len as u64) as usize), ScalarValue::counter(1)))
                }
                6 => Some(Cmd::InsertObj(obj, rng.below(len as u64 + 1) as usize, gen::objtype(rng))),
                7 if len > 0 => Some(Cmd::PutObj(obj, P::Seq(rng.below(len as u64) as usize), gen::objtype(rng))),
                8 | 9 => {
                    let i = rng.below(len as u64 + 1) as usize;
                    let del = rng.below((len - i).min(3) as u64 + 1) as isize;
                    let n = rng.below(4) as usize;
                    Some(Cmd::Splice(obj, i, del, (0..n).map(|_| gen::scalar(rng)).collect()))
                }
                _ => Some(Cmd::Insert(obj, rng.below(len as u64 + 1) as usize, gen::scalar(rng))),
            }
        }
        ObjType::Text => {
            let len = doc.length(&obj);
            let pos = rng.below(len as u64 + 1) as usize;
            match rng.below(14) {
                0 if len > 0 => Some(Cmd::Delete(obj, P::Seq(rng.below(len as u64) as usize))),
                1 if len > 0 => {
                    let v = if rng.chance(2, 3) { ScalarValue::Str(rng.pick(&gen::STRS).to_string().into()) } else { text_value(rng) };
                    Some(Cmd::Put(obj, P::Seq(rng.below(len as u64) as usize), v))
                }
                2 => Some(Cmd::Insert(obj, pos, ScalarValue::Str(rng.pick(&gen::STRS).to_string().into()))),
                3 | 4 | 5 if marks && len > 0 => {
                    let s = rng.below(len as u64) as usize;
                    let e = s + rng.below((len - s) as u64 + 1) as usize;
                    let name = rng.pick(&["bold", "link", "i"]).to_string();
                    if rng.chance(1, 4) {
                        Some(Cmd::Unmark(obj, s, e, name, rng.below(4) as u8))
                    } else {
                        Some(Cmd::Mark(obj, s, e, name, if rng.chance(1, 2) { ScalarValue::Boolean(true) } else { ScalarValue::Str("u".into()) }, rng.below(4) as u8))
                    }
                }
                _ => {
                    let maxdel = (len - pos).min(3) as u64;
                    let mut del = if rng.chance(1, 3) { rng.below(maxdel + 1) as isize } else { 0 };
                    let mut pos = pos;
                    if del > 0 && rng.chance(1, 5) {
                        pos += del as usize;
                        del = -del;
                    }
                    let s = if rng.chance(1, 6) { String::new() } else { rng.pick(&gen::STRS).to_string() };
                    Some(Cmd::SpliceText(obj, pos, del, s))
                }
            }
        }
    }
}

/// does the transaction delete sequence elements through inner_splice (splice / splice_text with a deletion,
/// delete on a text)?  In a transaction scoped to older heads that path does not recompute the top flags
/// (known finding): a surviving concurrent value of the deleted element stays hidden until reload.
fn has_scoped_splice_delete(calls: &[CallRec], texts: &dyn Fn(&ObjId) -> bool) -> bool {
    calls.iter().any(|c| c.status == 0 && match &c.cmd {
        Cmd::Splice(_, _, d, _) | Cmd::SpliceText(_, _, d, _) => *d != 0,
        Cmd::Delete(o, P::Seq(_)) => texts(o),
        _ => false,
    })
}

struct CallRec {
    cmd: Cmd,
    status: u8,
    pending: usize,
    obs: Option<String>,
    created: Option<ObjId>,
}

/// generate and run `n` calls on an open transaction (or an AutoCommit); None when a call panicked (reported)
fn run_calls<T: Transactable>(t: &mut T, rng: &mut Rng, rep: &mut Report, cands: &mut Vec<(ObjId, ObjType)>, scope: &mut Scope, n: usize, marks: bool, with_obs: bool, props: &[&str], log: &mut Vec<String>) -> Option<Vec<CallRec>> {
    let mut out = vec![];
    for _ in 0..n {
        let reach = gen::reachable(t);
        let objs: Vec<(ObjId, ObjType)> = if rng.chance(1, 10) && cands.len() > 1 { cands.iter().filter(|c| t.object_type(&c.0).is_ok()).cloned().collect() } else { reach };
        if objs.is_empty() {
            continue;
        }
        let cmd = match gen_cmd(t, rng, &objs, marks) {
            Some(c) => c,
            None => continue,
        };
        log.push(format!("{:?}", cmd));
        let pending_before = t.pending_ops();
        let r = match guard(|| exec(t, &cmd)) {
            Ok(r) => r,
            Err(p) => {
                // an editing call that panics is a failure of that call (C37; C29 when the transaction is scoped
                // to older heads, C03 otherwise), whatever this part of the family is looking at
                rep.count("call_panics");
                let scoped = scope.is_some();
                let ps: Vec<&str> = if scoped { vec!["C29", "C37"] } else { vec!["C03", "C37"] };
                let _ = props;
                rep.fail(&ps, &format!("panic|txn|call|{}|{}|{}", if scoped { "scoped" } else { "plain" }, cmd.kind(), p.signature()),
                    &format!("{} ({} transaction) panicked: {} at {}", cmd.kind(), if scoped { "scoped" } else { "plain" }, p.message, p.location), json!({"log": log.clone()}));
                CALL_PANICKED.store(true, std::sync::atomic::Ordering::SeqCst);
                return None;
            }
        };
        let status = match &r {
            Ok(_) => 0,
            Err(e) => err_class(e),
        };
        rep.count(&format!("call:{}:{}", cmd.kind(), if status == 0 { "ok" } else { "err" }));
        if status != 0 && t.pending_ops() != pending_before {
            // a rejected call leaves nothing behind (C06; C03; C29 when the transaction is scoped to older heads)
            let ps: Vec<&str> = if scope.is_some() { vec!["C06", "C03", "C29"] } else { vec!["C06", "C03"] };
            rep.fail(&ps, &format!("txn|rejected-call-left-ops|{}", cmd.kind()),
                &format!("{} returned an error but the transaction's pending ops went from {} to {}", cmd.kind(), pending_before, t.pending_ops()), json!({"log": log.clone()}));
        }
        let created = match r {
            Ok(Some(id)) => {
                let ty = match &cmd {
                    Cmd::PutObj(_, _, t) | Cmd::InsertObj(_, _, t) => *t,
                    _ => ObjType::Map,
                };
                cands.push((id.clone(), ty));
                if let Some(s) = scope {
                    s.insert(exid_key(&id));
                }
                Some(id)
            }
            _ => None,
        };
        let obs = if with_obs {
            let mut h = Hints::new();
            match observe(t, cands, &mut h, scope) {
                Ok(o) => Some(o),
                Err(e) => {
                    rep.fail(props, &format!("txn|read-failed|{}", cmd.kind()), &e, json!({"log": log.clone()}));
                    return None;
                }
            }
        } else {
            None
        };
        out.push(CallRec { cmd, status, pending: t.pending_ops(), obs, created });
    }
    Some(out)
}

/// replay recorded calls (ids of objects created by the recorded run are translated through `map`)
fn replay<T: Transactable>(t: &mut T, calls: &[CallRec], map: &mut HashMap<(u64, Vec<u8>), ObjId>) -> Result<Vec<u8>, PanicInfo> {
    let mut st = vec![];
    for c in calls {
        let cmd = match map.get(&exid_key(c.cmd.obj())) {
            Some(n) => c.cmd.with_obj(n.clone()),
            None => c.cmd.clone(),
        };
        let r = guard(|| exec(t, &cmd))?;
        st.push(match &r {
            Ok(_) => 0,
            Err(e) => err_class(e),
        });
        if let (Ok(Some(new)), Some(old)) = (&r, &c.created) {
            map.insert(exid_key(old), new.clone());
        }
    }
    Ok(st)
}

fn calls_coq(calls: &[CallRec]) -> String {
    coq_list(&calls.iter().map(|c| format!("({},{},{},{})", c.cmd.coq(), c.status, c.pending, coq_opt(c.obs.clone()))).collect::<Vec<_>>())
}

// ------------------------------------------------------------------ snapshots
#[derive(PartialEq, Clone)]
struct Snap {
    save: Vec<u8>,
    heads: Vec<ChangeHash>,
    actor: Vec<u8>,
    obs: Result<String, String>,
    reads: String,
    hints: Hints,
    missing: Vec<ChangeHash>,
    nchanges: usize,
}
impl Snap {
    fn diff(&self, o: &Snap) -> Vec<&'static str> {
        let mut d = vec![];
        if self.save != o.save {
            d.push("save-bytes");
        }
        if self.heads != o.heads {
            d.push("heads");
        }
        if self.actor != o.actor {
            d.push("actor");
        }
        if self.obs != o.obs {
            d.push("observation");
        }
        if self.reads != o.reads {
            d.push("reads");
        }
        if self.hints != o.hints {
            d.push("actor-index-hints");
        }
        if self.missing != o.missing {
            d.push("missing-deps");
        }
        if self.nchanges != o.nchanges {
            d.push("change-count");
        }
        d
    }
}
fn snap_auto(d: &mut AutoCommit, cands: &[(ObjId, ObjType)], scope: &Scope) -> Snap {
    let mut hints = Hints::new();
    let obs = observe(d, cands, &mut hints, scope);
    Snap {
        save: d.save(),
        heads: d.get_heads(),
        actor: d.get_actor().to_bytes().to_vec(),
        obs,
        reads: render_reads(d, cands, None),
        hints,
        missing: sorted_hashes(d.get_missing_deps(&[])),
        nchanges: d.get_changes(&[]).len(),
    }
}
fn snap_manual(d: &mut Automerge, cands: &[(ObjId, ObjType)]) -> Snap {
    let mut hints = Hints::new();
    let obs = observe(d, cands, &mut hints, &None);
    Snap {
        save: d.save(),
        heads: d.get_heads(),
        actor: d.get_actor().to_bytes().to_vec(),
        obs,
        reads: render_reads(d, cands, None),
        hints,
        missing: sorted_hashes(d.get_missing_deps(&[])),
        nchanges: d.get_changes(&[]).len(),
    }
}

fn new_actor(rng: &mut Rng, n: usize) -> ActorId {
    // often sorts before every existing actor (first byte 0 / 1), sometimes after, sometimes anywhere
    let first = match rng.below(4) {
        0 => 0u8,
        1 => 1u8,
        2 => 0xFEu8,
        _ => rng.next() as u8,
    };
    let mut b = vec![first, 0xA0u8.wrapping_add(n as u8)];
    let extra = rng.below(3) as usize;
    b.extend(rng.bytes(extra));
    ActorId::from(b)
}

fn universe(rng: &mut Rng, thorough: bool, log: &mut Vec<String>) -> Option<crate::fam_hist::Universe> {
    let nrep = rng.range(2, 3) as usize;
    let steps = if thorough { rng.range(15, 60) } else { rng.range(12, 35) } as usize;
    let cfg = if rng.chance(1, 3) { GenCfg { focus: true, ..GenCfg::default() } } else { GenCfg::default() };
    let mut r2 = rng.fork();
    match guard(|| {
        let mut l = vec![];
        let u = build_universe(&mut r2, nrep, steps, &cfg, &mut l);
        (u, l)
    }) {
        Ok((u, l)) => {
            log.extend(l);
            Some(u)
        }
        Err(_) => None, // a generator panic is the business of C03 / C37 (family hist reports it)
    }
}

// ================================================================== C28
fn open_tx<'a>(d: &'a mut Automerge, iso: &Option<Vec<ChangeHash>>) -> Option<automerge::transaction::Transaction<'a>> {
    match iso {
        Some(hs) => d.transaction_at(PatchLog::inactive(), hs).ok(),
        None => Some(d.transaction()),
    }
}
#[derive(Clone, Copy, PartialEq, Debug)]
enum Variant {
    Manual,
    ManualAt,
    Auto,
    AutoIso,
}

fn part_rollback(rng: &mut Rng, rep: &mut Report, cw: &mut CaseWriter, gr: &mut Groups, thorough: bool, pi: usize, want_model: bool) {
    let mut log: Vec<String> = vec![];
    let u = match universe(rng, thorough, &mut log) {
        Some(u) => u,
        None => {
            rep.count("universe_abandoned");
            return;
        }
    };
    let mut reps = u.replicas;
    let r = rng.below(reps.len() as u64) as usize;
    let variant = *rng.pick(&[Variant::Manual, Variant::Manual, Variant::Auto, Variant::Auto, Variant::AutoIso, Variant::ManualAt]);
    let marks = !want_model && rng.chance(1, 2);
    log.push(format!("C28 program {} replica r{} variant {:?} marks {}", pi, r, variant, marks));
    rep.count(&format!("rollback_variant:{:?}", variant));
    let mut base: AutoCommit = reps.swap_remove(r);
    base.commit();
    // a merge right before the transaction (rollback after merges), sometimes
    if !reps.is_empty() && rng.chance(1, 2) {
        let o = rng.below(reps.len() as u64) as usize;
        let _ = base.merge(&mut reps[o]);
        log.push("merge before the transaction".into());
    }
    // the actor: the replica's own, or one the document has never seen
    let fresh_actor = rng.chance(1, 2);
    if fresh_actor {
        let a = new_actor(rng, pi);
        log.push(format!("set_actor {} (never used)", a));
        base.set_actor(a);
        rep.count("rollback_with_new_actor");
    }
    let changes = base.get_changes(&[]);
    let mut cands = object_ids(&changes);
    let iso_heads: Option<Vec<ChangeHash>> = match variant {
        Variant::AutoIso | Variant::ManualAt => {
            let known: Vec<&Vec<ChangeHash>> = u.head_sets.iter().filter(|hs| !hs.is_empty() && hs.iter().all(|h| base.get_change_by_hash(h).is_some())).collect();
            if known.is_empty() {
                None
            } else {
                Some((*rng.pick(&known)).clone())
            }
        }
        _ => None,
    };
    let variant = if iso_heads.is_none() {
        match variant {
            Variant::AutoIso => Variant::Auto,
            Variant::ManualAt => Variant::Manual,
            v => v,
        }
    } else {
        variant
    };
    let n = if thorough { rng.range(1, 12) } else { rng.range(1, 8) } as usize;
    // what exists at the isolation heads (reads inside an isolated transaction / AutoCommit are scoped)
    let mut scope: Scope = match &iso_heads {
        Some(hs) => match guard(|| base.fork_at(hs)) {
            Ok(Ok(f)) => scope_of(&f, &cands),
            _ => return,
        },
        None => None,
    };
    if let Ok(dir) = std::env::var("VERIF_TXN_DUMP") {
        let mut b = base.clone();
        std::fs::write(format!("{}/rb{}.bin", dir, pi), b.save()).unwrap();
        std::fs::write(format!("{}/rb{}.txt", dir, pi), format!("actor {}\nheads {:?}\n", base.get_actor(), iso_heads.as_ref().map(|h| h.iter().map(|x| hex(&x.0)).collect::<Vec<_>>()))).unwrap();
    }
    let props = ["C28"];
    let replay_json = |log: &Vec<String>| json!({"program": pi, "part": "rollback", "log": log});

    // ---- run on the document under test; everything under the panic guard
    let outcome = guard(|| -> Option<(Snap, Snap, Vec<CallRec>, Vec<Snap>, Option<Vec<u8>>, Option<Vec<u8>>, Snap, Snap)> {
        match variant {
            Variant::Auto | Variant::AutoIso => {
                let mut d = base.clone();
                if let Some(hs) = &iso_heads {
                    d.isolate(hs);
                }
                let mut untouched = d.clone();
                stage("snapshot-before");
                let before = snap_auto(&mut d, &cands, &scope);
                stage("calls");
                let calls = run_calls(&mut d, rng, rep, &mut cands, &mut scope, n, marks, want_model, &props, &mut log)?;
                let rolled = d.rollback();
                if rolled != calls.last().map(|c| c.pending).unwrap_or(0) {
                    rep.fail(&props, "txn|rollback|count", &format!("rollback() returned {} but {} ops were pending", rolled, calls.last().map(|c| c.pending).unwrap_or(0)), replay_json(&log));
                }
                stage("snapshot-after-rollback");
                let after = snap_auto(&mut d, &cands, &scope);
                stage("prefixes");
                // every prefix
                let mut prefix_snaps = vec![];
                for k in 0..calls.len() {
                    let mut p = untouched.clone();
                    let mut map = HashMap::new();
                    if replay(&mut p, &calls[..k], &mut map).is_err() {
                        return None;
                    }
                    p.rollback();
                    prefix_snaps.push(snap_auto(&mut p, &cands, &scope));
                }
                // the same edit program on the rolled-back document and on the untouched clone
                let mut cands2 = cands.clone();
                let mut l2 = vec![];
                let n2 = rng.range(1, 6) as usize;
                stage("next-edits-on-untouched-clone");
                let calls2 = run_calls(&mut untouched, rng, rep, &mut cands2, &mut None, n2, marks, false, &props, &mut l2)?;
                log.push(format!("then, on both: {:?}", l2));
                let mut map = HashMap::new();
                stage("next-edits-on-rolled-back");
                let st = match replay(&mut d, &calls2, &mut map) {
                    Ok(s) => s,
                    Err(p) => {
                        rep.fail(&["C28", "C37"], &format!("panic|txn|after-rollback|{}", p.signature()), &format!("an edit after rollback panicked: {} at {}", p.message, p.location), replay_json(&log));
                        return None;
                    }
                };
                if st != calls2.iter().map(|c| c.status).collect::<Vec<_>>() {
                    rep.fail(&props, "txn|rollback|next-edit-status", "after rollback the same editing calls answer differently than on the untouched clone", replay_json(&log));
                }
                let h1 = d.commit();
                let h2 = untouched.commit();
                let c1 = h1.and_then(|h| d.get_change_by_hash(&h)).map(|c| c.raw_bytes().to_vec());
                let c2 = h2.and_then(|h| untouched.get_change_by_hash(&h)).map(|c| c.raw_bytes().to_vec());
                stage("snapshot-untouched-after-next-edits");
                let s2 = snap_auto(&mut untouched, &cands2, &None);
                stage("snapshot-rolled-back-after-next-edits");
                let s1 = snap_auto(&mut d, &cands2, &None);
                Some((before, after, calls, prefix_snaps, c1, c2, s1, s2))
            }
            Variant::Manual | Variant::ManualAt => {
                let mut d: Automerge = base.document().clone();
                let mut untouched = d.clone();
                stage("snapshot-before");
                let before = snap_manual(&mut d, &cands);
                stage("calls");
                let calls;
                {
                    let mut tx = open_tx(&mut d, &iso_heads)?;
                    calls = run_calls(&mut tx, rng, rep, &mut cands, &mut scope, n, marks, want_model, &props, &mut log)?;
                    let rolled = tx.rollback();
                    if rolled != calls.last().map(|c| c.pending).unwrap_or(0) {
                        rep.fail(&props, "txn|rollback|count", "rollback() returned a count that differs from pending_ops()", replay_json(&log));
                    }
                }
                stage("snapshot-after-rollback");
                let after = snap_manual(&mut d, &cands);
                stage("prefixes");
                let mut prefix_snaps = vec![];
                for k in 0..calls.len() {
                    let mut p = untouched.clone();
                    {
                        let mut tx = open_tx(&mut p, &iso_heads)?;
                        let mut map = HashMap::new();
                        if replay(&mut tx, &calls[..k], &mut map).is_err() {
                            return None;
                        }
                        tx.rollback();
                    }
                    prefix_snaps.push(snap_manual(&mut p, &cands));
                }
                let mut cands2 = cands.clone();
                let mut l2 = vec![];
                let n2 = rng.range(1, 6) as usize;
                let calls2;
                let h2;
                stage("next-edits-on-untouched-clone");
                {
                    let mut tx = open_tx(&mut untouched, &iso_heads)?;
                    calls2 = run_calls(&mut tx, rng, rep, &mut cands2, &mut None, n2, marks, false, &props, &mut l2)?;
                    h2 = tx.commit().0;
                }
                log.push(format!("then, on both: {:?}", l2));
                let h1;
                stage("next-edits-on-rolled-back");
                {
                    let mut tx = open_tx(&mut d, &iso_heads)?;
                    let mut map = HashMap::new();
                    let st = match replay(&mut tx, &calls2, &mut map) {
                        Ok(s) => s,
                        Err(p) => {
                            rep.fail(&["C28", "C37"], &format!("panic|txn|after-rollback|{}", p.signature()), &format!("an edit after rollback panicked: {} at {}", p.message, p.location), replay_json(&log));
                            return None;
                        }
                    };
                    if st != calls2.iter().map(|c| c.status).collect::<Vec<_>>() {
                        rep.fail(&props, "txn|rollback|next-edit-status", "after rollback the same editing calls answer differently than on the untouched clone", replay_json(&log));
                    }
                    h1 = tx.commit().0;
                }
                let c1 = h1.and_then(|h| d.get_change_by_hash(&h)).map(|c| c.raw_bytes().to_vec());
                let c2 = h2.and_then(|h| untouched.get_change_by_hash(&h)).map(|c| c.raw_bytes().to_vec());
                stage("snapshot-untouched-after-next-edits");
                let s2 = snap_manual(&mut untouched, &cands2);
                stage("snapshot-rolled-back-after-next-edits");
                let s1 = snap_manual(&mut d, &cands2);
                Some((before, after, calls, prefix_snaps, c1, c2, s1, s2))
            }
        }
    });
    let (before, after, calls, prefix_snaps, c1, c2, s1, s2) = match outcome {
        Ok(Some(x)) => x,
        Ok(None) => {
            take_call_panicked();
            rep.count("rollback_program_abandoned");
            return;
        }
        Err(_) if take_call_panicked() => {
            rep.count("rollback_program_abandoned");
            return;
        }
        Err(p) if foreign_panic(rep, &p, &log) => return,
        Err(p) => {
            rep.fail(&["C28", "C37"], &format!("panic|txn|rollback|{}|{}", at_stage(), p.signature()), &format!("a rollback program panicked at stage {}: {} at {}", at_stage(), p.message, p.location), replay_json(&log));
            return;
        }
    };
    let pending = calls.last().map(|c| c.pending).unwrap_or(0);
    rep.add("rollback_calls", calls.len() as u64);
    rep.add("rollback_ops_undone", pending as u64);
    let d = before.diff(&after);
    if !d.is_empty() {
        rep.fail(&props, &format!("txn|rollback|differs|{}", d.join("+")), &format!("after rollback the document differs from its state before the transaction in: {}", d.join(", ")), replay_json(&log));
    }
    for (k, s) in prefix_snaps.iter().enumerate() {
        let d = before.diff(s);
        if !d.is_empty() {
            rep.fail(&props, &format!("txn|rollback-prefix|differs|{}", d.join("+")), &format!("after rolling back the first {} calls the document differs in: {}", k, d.join(", ")), replay_json(&log));
            break;
        }
    }
    rep.add("rollback_prefixes", prefix_snaps.len() as u64);
    if c1 != c2 {
        rep.fail(&props, "txn|rollback|next-change-differs", "the change created after rollback is not byte-identical to the one the untouched clone creates from the same calls", replay_json(&log));
    }
    let d2 = s1.diff(&s2);
    if !d2.is_empty() {
        rep.fail(&props, &format!("txn|rollback|next-state-differs|{}", d2.join("+")), &format!("after the same edits the rolled-back document and the untouched clone differ in: {}", d2.join(", ")), replay_json(&log));
    }
    if c1.is_some() {
        rep.count("rollback_next_change_compared");
    }
    let key = fnv(format!("{:?}", log).as_bytes());
    rep.case(if pending >= 1 && changes.len() >= 3 { Some(key) } else { None });
    if pi < 2 {
        rep.sample(json!({"part": "rollback", "variant": format!("{:?}", variant), "log": log.iter().rev().take(12).collect::<Vec<_>>()}));
    }
    // ---- model case
    if want_model && calls.iter().all(|c| c.cmd.modelled()) {
        if let Ok(after_obs) = &after.obs {
            let m = ChMap::new(&changes);
            let (defs, chs) = defs_of(&changes, &m, &format!("rb{}_", pi));
            let table = actor_table(&changes);
            let iso = match &iso_heads {
                Some(hs) => format!("(Some {})", m.hs(hs)),
                None => "None".to_string(),
            };
            let term = format!(
                "chk_rollback EncCP {} {} {} {} {} {} {} {}",
                chs,
                coq_table(&table),
                coq_bytes(&before.actor),
                iso,
                coq_bool(variant == Variant::AutoIso),
                calls_coq(&calls),
                after_obs,
                coq_pairs(&after.hints)
            );
            gr.add(cw, defs, vec![(term, json!({"kind": "rollback", "props": ["C28"], "program": pi, "variant": format!("{:?}", variant), "log": log}))]);
            rep.model_cases += 1;
        }
    }
}

/// a queued change of the document's own actor (it waits for a dependency) when a transaction is opened and
/// rolled back: transaction_args prunes the queue, rollback does not restore it
fn probe_rollback_queue(rep: &mut Report) {
    let r = guard(|| {
        let actor = ActorId::from(vec![7u8, 7]);
        let mut d = AutoCommit::new().with_actor(actor.clone());
        d.put(ROOT, "x", 1).unwrap();
        d.commit();
        // the same actor continues elsewhere (a copy of the device), on top of a change d has not seen
        let mut twin = d.clone();
        let mut other = d.fork().with_actor(ActorId::from(vec![9u8, 9]));
        other.put(ROOT, "y", 2).unwrap();
        other.commit();
        twin.merge(&mut other).unwrap();
        twin.put(ROOT, "x", 3).unwrap();
        let h = twin.commit().unwrap();
        let a2 = twin.get_change_by_hash(&h).unwrap();
        d.apply_changes(vec![a2]).unwrap(); // queued: its dependency (other's change) is missing
        let missing_before = sorted_hashes(d.get_missing_deps(&[]));
        let save_before = d.save();
        d.put(ROOT, "z", 1).unwrap();
        d.rollback();
        let missing_after = sorted_hashes(d.get_missing_deps(&[]));
        let save_after = d.save();
        (missing_before != missing_after, save_before != save_after, missing_before.len(), missing_after.len())
    });
    match r {
        Ok((dm, ds, nb, na)) => {
            rep.count("probe_rollback_queue");
            if dm || ds {
                rep.fail(&["C28"], "txn|rollback|queued-own-change-dropped",
                    &format!("a queued change of the document's own actor claiming the next seq is dropped when a transaction opens and not restored by rollback: get_missing_deps {} -> {} entries, save() bytes differ: {}", nb, na, ds),
                    json!({"probe": "d: actor A change a1; twin (same actor A) merges b1 and makes a2; d.apply_changes([a2]) (queued, b1 missing); d.put; d.rollback()"}));
            }
        }
        Err(p) => rep.fail(&["C28", "C37"], &format!("panic|txn|probe-queue|{}", p.signature()), &p.message, json!({})),
    }
}

// ================================================================== C29
fn part_iso(rng: &mut Rng, rep: &mut Report, cw: &mut CaseWriter, gr: &mut Groups, thorough: bool, pi: usize, want_model: bool) {
    let mut log: Vec<String> = vec![];
    let u = match universe(rng, thorough, &mut log) {
        Some(u) => u,
        None => {
            rep.count("universe_abandoned");
            return;
        }
    };
    let mut reps = u.replicas;
    let r = rng.below(reps.len() as u64) as usize;
    let mut base: AutoCommit = reps.swap_remove(r);
    base.commit();
    if !reps.is_empty() && rng.chance(2, 3) {
        let o = rng.below(reps.len() as u64) as usize;
        let _ = base.merge(&mut reps[o]);
    }
    let known: Vec<Vec<ChangeHash>> = u.head_sets.iter().filter(|hs| !hs.is_empty() && hs.iter().all(|h| base.get_change_by_hash(h).is_some())).cloned().collect();
    if known.is_empty() {
        return;
    }
    let current = base.get_heads();
    // prefer head sets that are not the current heads
    let older: Vec<&Vec<ChangeHash>> = known.iter().filter(|h| sorted_hashes((*h).clone()) != sorted_hashes(current.clone())).collect();
    let hs: Vec<ChangeHash> = if !older.is_empty() && rng.chance(5, 6) { (*rng.pick(&older)).clone() } else { rng.pick(&known).clone() };
    let manual = rng.chance(1, 3);
    let marks = !want_model && rng.chance(1, 2);
    let is_current = sorted_hashes(hs.clone()) == sorted_hashes(current.clone());
    rep.count(if is_current { "iso_at_current_heads" } else { "iso_at_older_heads" });
    if hs.len() > 1 {
        rep.count("iso_at_concurrent_heads");
    }
    log.push(format!("C29 program {} replica r{} manual {} heads {} (current: {})", pi, r, manual, hs.len(), is_current));
    let changes = base.get_changes(&[]);
    let props = ["C29"];
    let rj = |log: &Vec<String>| json!({"program": pi, "part": "iso", "log": log});
    let n = if thorough { rng.range(1, 10) } else { rng.range(1, 7) } as usize;

    struct IsoOut {
        calls: Vec<CallRec>,
        change: Option<Change>,
        second: Option<Change>,
        after_iso: Result<String, String>,
        after_full: Result<String, String>,
        cands: Vec<(ObjId, ObjType)>,
    }
    let outcome = guard(|| -> Option<IsoOut> {
        // the reference: a fork at the heads
        let mut f = match base.fork_at(&hs) {
            Ok(f) => f,
            Err(e) => {
                rep.fail(&props, "txn|iso|fork_at-failed", &format!("fork_at(known heads) failed: {}", e), rj(&log));
                return None;
            }
        };
        let mut cands = object_ids(&changes);
        let mut scope: Scope = scope_of(&f, &cands);
        let mut fmap: HashMap<(u64, Vec<u8>), ObjId> = HashMap::new();
        let mut calls: Vec<CallRec> = vec![];
        // clone of the non-isolated state, to receive the isolated changes later
        let mut plain = base.clone();
        let mut d = base.clone();
        let mut dm: Automerge = base.document().clone();
        let mut tx_holder;
        let mut created_changes: Vec<Change> = vec![];
        let mut later_calls: Vec<CallRec> = vec![];
        let change;
        let mut second = None;
        if manual {
            tx_holder = dm.transaction_at(PatchLog::inactive(), &hs).ok()?;
            // reads right after opening = reads at the heads
            let t0 = render_tree(&tx_holder, &ROOT, ObjType::Map, 0);
            let f0 = render_tree(&f, &ROOT, ObjType::Map, 0);
            if t0 != f0 {
                rep.fail(&props, "txn|iso|reads-at-open", "right after transaction_at(heads) the reads differ from fork_at(heads)", rj(&log));
            }
            for _ in 0..n {
                let one = run_calls(&mut tx_holder, rng, rep, &mut cands, &mut scope, 1, marks, want_model, &props, &mut log)?;
                if replay(&mut f, &one, &mut fmap).is_err() {
                    return None;
                }
                let a = render_tree(&tx_holder, &ROOT, ObjType::Map, 0);
                let b = render_tree(&f, &ROOT, ObjType::Map, 0);
                if a != b {
                    rep.fail(&props, &format!("txn|iso|reads-differ|{}", one.last().map(|c| c.cmd.kind()).unwrap_or("-")),
                        "inside transaction_at(heads) a read differs from the same read on fork_at(heads) after the same calls", json!({"program": pi, "log": log, "isolated": a, "fork": b}));
                    return None;
                }
                calls.extend(one);
            }
            let h = tx_holder.commit().0;
            change = h.and_then(|h| dm.get_change_by_hash(&h));
            if let Some(c) = &change {
                created_changes.push(c.clone());
            }
        } else {
            d.isolate(&hs);
            let t0 = render_tree(&d, &ROOT, ObjType::Map, 0);
            let f0 = render_tree(&f, &ROOT, ObjType::Map, 0);
            if t0 != f0 {
                rep.fail(&props, "txn|iso|reads-at-open", "right after isolate(heads) the reads differ from fork_at(heads)", json!({"program": pi, "log": log, "isolated": t0, "fork": f0}));
            }
            if sorted_hashes(d.get_heads()) != sorted_hashes(hs.clone()) {
                rep.fail(&props, "txn|iso|get_heads", "an isolated AutoCommit does not report the isolation heads", rj(&log));
            }
            for _ in 0..n {
                let one = run_calls(&mut d, rng, rep, &mut cands, &mut scope, 1, marks, want_model, &props, &mut log)?;
                match future_objects_are_empty(&d, &cands, &scope) {
                    Ok(k) => rep.add("iso_future_objects_typed_but_empty", k as u64),
                    Err(w) => rep.fail(&props, "txn|iso|future-object-content", &w, rj(&log)),
                }
                if replay(&mut f, &one, &mut fmap).is_err() {
                    return None;
                }
                let a = render_tree(&d, &ROOT, ObjType::Map, 0);
                let b = render_tree(&f, &ROOT, ObjType::Map, 0);
                if a != b {
                    rep.fail(&props, &format!("txn|iso|reads-differ|{}", one.last().map(|c| c.cmd.kind()).unwrap_or("-")),
                        "inside isolate(heads) a read differs from the same read on fork_at(heads) after the same calls", json!({"program": pi, "log": log, "isolated": a, "fork": b}));
                    return None;
                }
                calls.extend(one);
            }
            let h = d.commit();
            change = h.and_then(|h| d.get_change_by_hash(&h));
            if let Some(c) = &change {
                created_changes.push(c.clone());
            }
        }
        f.commit();
        // deps of the first isolated change = the heads
        if let Some(c) = &change {
            if sorted_hashes(c.deps().to_vec()) != sorted_hashes(hs.clone()) {
                rep.fail(&["C29", "C04"], "txn|iso|deps-first", "the first change of an isolated transaction does not depend on exactly the isolation heads", rj(&log));
            }
            rep.count("iso_changes");
        }
        let mut hd = Hints::new();
        let after_iso;
        let after_full;
        if manual {
            // transaction_at leaves no isolation behind: the document shows everything
            after_full = observe(&dm, &cands, &mut hd, &None);
            // the isolated view afterwards = the read at the new change (or at the heads)
            let at: Vec<ChangeHash> = change.as_ref().map(|c| vec![c.hash()]).unwrap_or_else(|| hs.clone());
            let fa = dm.fork_at(&at).ok()?;
            after_iso = observe(&fa, &cands, &mut hd, &None);
            // integrate == merge: the document vs the plain clone + the created changes
            let mut p: Automerge = plain.document().clone();
            if p.apply_changes(created_changes.clone()).is_err() {
                rep.fail(&props, "txn|iso|apply-created", "a replica holding the isolation heads rejects the isolated change", rj(&log));
            }
            let cs = object_ids(&dm.get_changes(&[]));
            let (ra, rb) = (render_reads(&p, &cs, None), render_reads(&dm, &cs, None));
            if sorted_hashes(p.get_heads()) != sorted_hashes(dm.get_heads()) || ra != rb {
                let reloaded = Automerge::load(&dm.save()).map(|l| render_reads(&l, &cs, None) == ra).unwrap_or(false);
                let cls = if has_scoped_splice_delete(&calls, &|o| dm.object_type(o).map(|t| t == ObjType::Text).unwrap_or(false)) { "after-scoped-splice-delete" } else { "other" };
                rep.fail(&["C29", "C02"], &format!("txn|iso|not-merge|{}", cls), &format!("after transaction_at + commit the document differs from the merge of the created change into the prior state (a saved and reloaded copy of the document agrees with the merge: {})", reloaded),
                    json!({"program": pi, "log": log, "merge": first_diff_line(&ra, &rb).0, "document": first_diff_line(&ra, &rb).1}));
            }
        } else {
            // a second isolated transaction: depends on the first isolated change only
            if change.is_some() && rng.chance(2, 3) {
                let two = run_calls(&mut d, rng, rep, &mut cands, &mut scope, 2, marks, false, &props, &mut log)?;
                if replay(&mut f, &two, &mut fmap).is_err() {
                    return None;
                }
                later_calls.extend(two);
                let h2 = d.commit();
                f.commit();
                second = h2.and_then(|h| d.get_change_by_hash(&h));
                if let (Some(c2), Some(c1)) = (&second, &change) {
                    if c2.deps() != [c1.hash()] {
                        rep.fail(&["C29", "C04"], "txn|iso|deps-next", "the second isolated change does not depend on exactly the first one", rj(&log));
                    }
                    if c2.actor_id() != c1.actor_id() || c2.seq() != c1.seq() + 1 {
                        rep.fail(&["C29", "C04"], "txn|iso|chain-actor", "the second isolated change is not the next change of the actor of the first", rj(&log));
                    }
                    created_changes.push(c2.clone());
                    rep.count("iso_second_changes");
                }
                let a = render_tree(&d, &ROOT, ObjType::Map, 0);
                let b = render_tree(&f, &ROOT, ObjType::Map, 0);
                if a != b {
                    rep.fail(&props, "txn|iso|reads-differ|second", "after the second isolated transaction the isolated reads differ from fork_at + the same calls", json!({"program": pi, "log": log, "isolated": a, "fork": b}));
                }
            }
            // meanwhile the non-isolated state grows: merges arrive while isolated (into both)
            let mut merged_while_isolated = false;
            if !want_model && !reps.is_empty() && rng.chance(1, 2) {
                let o = rng.below(reps.len() as u64) as usize;
                let mut other = reps[o].clone();
                other.commit();
                let before = render_tree(&d, &ROOT, ObjType::Map, 0);
                let _ = d.merge(&mut other);
                let _ = plain.merge(&mut other);
                merged_while_isolated = true;
                log.push("merge while isolated".into());
                rep.count("iso_merge_while_isolated");
                if render_tree(&d, &ROOT, ObjType::Map, 0) != before {
                    rep.fail(&props, "txn|iso|merge-visible", "a merge while isolated changed what the isolated document reads", rj(&log));
                }
            }
            let _ = merged_while_isolated;
            after_iso = if second.is_none() { observe(&d, &cands, &mut hd, &scope) } else { Err("second".into()) };
            d.integrate();
            log.push("integrate".into());
            after_full = if second.is_none() { observe(&d, &cands, &mut hd, &None) } else { Err("second".into()) };
            if plain.apply_changes(created_changes.clone()).is_err() {
                rep.fail(&props, "txn|iso|apply-created", "a replica holding the isolation heads rejects the isolated changes", rj(&log));
            }
            let cs = object_ids(&d.get_changes(&[]));
            let (hd1, hd2) = (sorted_hashes(d.get_heads()), sorted_hashes(plain.get_heads()));
            let (ra, rb) = (render_reads(&plain, &cs, None), render_reads(&d, &cs, None));
            if hd1 != hd2 || ra != rb {
                let reloaded = AutoCommit::load(&d.save()).map(|l| render_reads(&l, &cs, None) == ra).unwrap_or(false);
                let cls = if has_scoped_splice_delete(&calls, &|o| d.object_type(o).map(|t| t == ObjType::Text).unwrap_or(false)) || has_scoped_splice_delete(&later_calls, &|o| d.object_type(o).map(|t| t == ObjType::Text).unwrap_or(false)) { "after-scoped-splice-delete" } else { "other" };
                rep.fail(&["C29", "C02"], &format!("txn|iso|integrate-not-merge|{}", cls), &format!("after integrate the document differs from the merge of the isolated changes into the non-isolated state (a saved and reloaded copy of the document agrees with the merge: {})", reloaded),
                    json!({"program": pi, "log": log, "merge": first_diff_line(&ra, &rb).0, "document": first_diff_line(&ra, &rb).1}));
            }
            rep.count("iso_integrate_compared");
        }
        Some(IsoOut { calls, change, second, after_iso, after_full, cands })
    });
    let o = match outcome {
        Ok(Some(o)) => o,
        Ok(None) => {
            take_call_panicked();
            rep.count("iso_program_abandoned");
            return;
        }
        Err(_) if take_call_panicked() => {
            rep.count("iso_program_abandoned");
            return;
        }
        Err(p) if foreign_panic(rep, &p, &log) => return,
        Err(p) => {
            rep.fail(&["C29", "C37"], &format!("panic|txn|iso|{}", p.signature()), &format!("an isolation program panicked: {} at {}", p.message, p.location), rj(&log));
            return;
        }
    };
    rep.add("iso_calls", o.calls.len() as u64);
    let key = fnv(format!("{:?}", log).as_bytes());
    rep.case(if o.change.is_some() && !is_current { Some(key) } else { None });
    if pi < 2 {
        rep.sample(json!({"part": "iso", "log": log.iter().rev().take(12).collect::<Vec<_>>()}));
    }
    let _ = &o.cands;
    if want_model && o.second.is_none() && o.calls.iter().all(|c| c.cmd.modelled()) {
        if let (Ok(ai), Ok(af)) = (&o.after_iso, &o.after_full) {
            let m = ChMap::new(&changes);
            let (defs, chs) = defs_of(&changes, &m, &format!("iso{}_", pi));
            let table = actor_table(&changes);
            let (iactor, iseq, istart, ideps, iops) = match &o.change {
                Some(c) => (coq_actor(c.actor_id()), c.seq(), c.start_op().get(), m.hs_sorted(c.deps()), coq_ops_of(c)),
                None => ("[]".to_string(), 0, 0, "[]".to_string(), "[]".to_string()),
            };
            let term = if o.change.is_some() {
                format!(
                    "wf_hist_b {} && chk_iso EncCP {} {} {} {} {} {} {} {} {} {} {} {} {}",
                    chs, chs, coq_table(&table), coq_actor(base.get_actor()), m.hs(&hs), calls_coq(&o.calls), iactor, iseq, istart, ideps, iops, changes.len() + 1, ai, af
                )
            } else {
                // nothing was committed: the calls and the views only
                format!(
                    "wf_hist_b {} && chk_iso_nochange EncCP {} {} {} {} {} {} {}",
                    chs, chs, coq_table(&table), coq_actor(base.get_actor()), m.hs(&hs), calls_coq(&o.calls), ai, af
                )
            };
            gr.add(cw, defs, vec![(term, json!({"kind": "iso", "props": ["C29"], "program": pi, "manual": manual, "log": log}))]);
            rep.model_cases += 1;
        }
    }
}

/// regression probe (repaired by 982e3555b): isolate / merge / isolate / integrate with an actor that sorts first
/// arriving through the merge; also checks the result (k = 5 from the isolated change, j = 6 from the merge)
fn probe_known_integrate_panic(rep: &mut Report) {
    let r = guard(|| {
        let mut d = AutoCommit::new().with_actor(ActorId::from(vec![5u8, 0]));
        let mut e = d.fork().with_actor(ActorId::from(vec![9u8, 99]));
        d.set_actor(ActorId::from(vec![194u8, 2]));
        e.put(ROOT, "j", 6).unwrap();
        e.commit();
        d.put(ROOT, "k", 6).unwrap();
        let h1 = d.commit().unwrap();
        d.isolate(&[h1]);
        d.put(ROOT, "k", 5).unwrap();
        d.commit();
        d.merge(&mut e).unwrap();
        d.isolate(&[h1]);
        d.integrate();
        format!("{:?} {:?}", d.get(ROOT, "k").map(|o| o.map(|x| x.0.to_string())).map_err(|_| ()), d.get(ROOT, "j").map(|o| o.map(|x| x.0.to_string())).map_err(|_| ()))
    });
    rep.count("probe_integrate");
    if let Ok(s) = &r {
        if s != "Ok(Some(\"5\")) Ok(Some(\"6\"))" {
            rep.fail(&["C29"], "txn|probe-integrate|wrong-result", &format!("after isolate / merge / isolate / integrate the document reads k, j = {}", s), json!({}));
        }
    }
    if let Err(p) = r {
        rep.fail(&["C29", "C37"], &format!("panic|txn|isolate-merge-integrate|{}", p.signature()),
            &format!("isolate(h1); edit; commit; merge(other); isolate(h1); integrate() panicked: {} at {}", p.message, p.location),
            json!({"probe": "d actor [5,0]; e = d.fork() actor [9,99]; d.set_actor([194,2]); e.put(j,6); e.commit(); d.put(k,6); h1 = d.commit(); d.isolate([h1]); d.put(k,5); d.commit(); d.merge(e); d.isolate([h1]); d.integrate()"}));
    }
}

/// regression probe (repaired by 9da869ded): increment inside a transaction scoped to heads at which a register
/// holds a counter and a concurrent non-counter, both deleted since (add_succ_with_undo exposed the superseded
/// counter as top op and reset_top's assert!(v) fired); afterwards memory and a reloaded copy must agree
/// probe: a REJECTED editing call inside a transaction scoped to older heads leaves nothing behind (C06 / C03 / C29).
/// Indexes are checked against the length the scope can address: a text that has grown since the heads, a mark / splice /
/// insert / delete / put whose index lies between the scoped length and the current length must fail as a whole.
fn probe_scoped_rejected_calls(rep: &mut Report) {
    use automerge::marks::{ExpandMark, Mark};
    let r = guard(|| {
        let mut out: Vec<String> = vec![];
        for enc in [automerge::TextEncoding::UnicodeCodePoint, automerge::TextEncoding::Utf8CodeUnit, automerge::TextEncoding::Utf16CodeUnit] {
            let mut a = AutoCommit::new_with_encoding(enc).with_actor(ActorId::from(vec![1u8]));
            let t = a.put_object(ROOT, "t", ObjType::Text).unwrap();
            a.splice_text(&t, 0, 0, "abc").unwrap();
            let l = a.put_object(ROOT, "l", ObjType::List).unwrap();
            a.insert(&l, 0, 1).unwrap();
            a.commit();
            let hs = a.get_heads(); // text of width 3, list of length 1
            a.splice_text(&t, 3, 0, "defgh").unwrap();
            a.insert(&l, 1, 2).unwrap();
            a.insert(&l, 2, 3).unwrap();
            a.commit(); // now width 8, length 3
            let before = a.document().save();
            let calls: Vec<(&str, Box<dyn Fn(&mut automerge::transaction::Transaction<'_>) -> Result<(), automerge::AutomergeError>>)> = vec![
                ("mark(1,6)", Box::new(|tx| tx.mark(&t, Mark::new("bold".to_string(), true, 1, 6), ExpandMark::None))),
                ("mark(5,7)", Box::new(|tx| tx.mark(&t, Mark::new("bold".to_string(), true, 5, 7), ExpandMark::Both))),
                ("unmark(1,6)", Box::new(|tx| tx.unmark(&t, "bold", 1, 6, ExpandMark::None))),
                ("splice_text(5,0)", Box::new(|tx| tx.splice_text(&t, 5, 0, "x"))),
                ("splice_text(1,4)", Box::new(|tx| tx.splice_text(&t, 1, 4, ""))),
                ("insert(l,2)", Box::new(|tx| tx.insert(&l, 2, 9))),
                ("put(l,1)", Box::new(|tx| tx.put(&l, 1, 9))),
                ("delete(l,2)", Box::new(|tx| tx.delete(&l, 2))),
                ("splice(l,1,1)", Box::new(|tx| tx.splice(&l, 1, 1, Vec::<ScalarValue>::new()))),
            ];
            for (name, call) in calls.iter() {
                let mut m: Automerge = a.document().clone();
                let heads0 = m.get_heads();
                let mut tx = m.transaction_at(PatchLog::inactive(), &hs).unwrap();
                let res = call(&mut tx);
                let pending = tx.pending_ops();
                if res.is_err() && pending != 0 {
                    out.push(format!("{:?}: {} returned an error but left {} pending op(s)", enc, name, pending));
                }
                if res.is_err() {
                    tx.commit();
                    if m.get_heads() != heads0 || m.save() != before {
                        out.push(format!("{:?}: after the rejected {} and commit the document changed (heads / saved bytes)", enc, name));
                    }
                } else {
                    tx.rollback();
                }
            }
        }
        out
    });
    rep.count("probe_scoped_rejected_calls");
    match r {
        Ok(v) => {
            for w in v {
                rep.fail(&["C06", "C03", "C29"], "txn|probe-scoped-rejected-call|left-ops", &w,
                    json!({"probe": "text abc / list [1] at heads hs; later text abcdefgh / list [1,2,3]; transaction_at(hs): calls whose index lies between the scoped and the current length"}));
            }
        }
        Err(p) => rep.fail(&["C29", "C37"], &format!("panic|txn|probe-scoped-rejected|{}", p.signature()),
            &format!("a rejected call in a scoped transaction panicked: {} at {}", p.message, p.location), json!({})),
    }
}

fn probe_scoped_increment(rep: &mut Report) {
    let r = guard(|| {
        let mut a = AutoCommit::new().with_actor(ActorId::from(vec![1u8]));
        a.put(ROOT, "x", 0).unwrap();
        a.commit();
        let mut b = a.fork().with_actor(ActorId::from(vec![2u8]));
        a.put(ROOT, "a", ScalarValue::counter(8)).unwrap();
        a.commit();
        b.put(ROOT, "a", ScalarValue::Null).unwrap();
        b.commit();
        a.merge(&mut b).unwrap();
        let hs = a.get_heads(); // "a" = counter | null (conflict)
        a.delete(ROOT, "a").unwrap();
        a.commit(); // both gone in the document
        let mut m: Automerge = a.document().clone();
        let mut tx = m.transaction_at(PatchLog::inactive(), &hs).unwrap();
        let r = guard(|| tx.increment(ROOT, "a", 3).map_err(|e| e.to_string()));
        if r.is_err() {
            std::mem::forget(tx); // the op set is half-edited after a panic: do not roll back
            return r.map(|_| String::new());
        }
        tx.commit();
        let re = Automerge::load(&m.save()).map(|l| format!("{:?}", l.get_all(ROOT, "a").map(|v| v.len()).map_err(|_| ()))).unwrap_or_else(|e| e.to_string());
        let mem = format!("{:?}", m.get_all(ROOT, "a").map(|v| v.len()).map_err(|_| ()));
        Ok(if mem == re { String::new() } else { format!("memory {} reloaded {}", mem, re) })
    });
    rep.count("probe_scoped_increment");
    match r {
        Ok(Ok(s)) if s.is_empty() => {}
        Ok(Ok(s)) => rep.fail(&["C29", "C02"], "txn|probe-scoped-increment|memory-differs-from-reload", &s, json!({})),
        Ok(Err(p)) | Err(p) => {
            rep.fail(&["C29", "C37"], &format!("panic|txn|call|scoped|increment|{}", p.signature()),
                &format!("increment in a transaction scoped to heads where the register held a counter and a concurrent non-counter that were both deleted later: {} at {}", p.message, p.location),
                json!({"probe": "A: put a = counter(8); B (fork): put a = null; A merge B; hs = heads; A: delete a; transaction_at(hs).increment(a, 3)"}));
        }
    }
}

/// regression probe (repaired by 32c572db3): splice / splice_text deletions (and delete on a text) in a transaction
/// scoped to older heads did not recompute the top flags: when the deleted value had won a conflict against a value the scope does not cover, the
/// survivor stays without a top flag — get() / values() miss it although length() and list_range() show it
fn probe_scoped_splice_delete(rep: &mut Report) {
    let r = guard(|| {
        let mut a = AutoCommit::new().with_actor(ActorId::from(vec![9u8]));
        let l = a.put_object(ROOT, "l", ObjType::List).unwrap();
        a.insert(&l, 0, 1).unwrap();
        a.commit();
        let mut b = a.fork().with_actor(ActorId::from(vec![1u8]));
        a.put(&l, 0, "a").unwrap();
        a.commit();
        let ha = a.get_heads();
        b.put(&l, 0, "b").unwrap();
        b.commit();
        a.merge(&mut b).unwrap();
        let mut m: Automerge = a.document().clone();
        {
            let mut tx = m.transaction_at(PatchLog::inactive(), &ha).unwrap();
            tx.splice(&l, 0, 1, Vec::<ScalarValue>::new()).unwrap();
            tx.commit();
        }
        let re = Automerge::load(&m.save()).unwrap();
        let f = |d: &Automerge| format!("len {} get0 {:?} values {}", d.length(&l), d.get(&l, 0).map(|o| o.map(|x| format!("{:?}", x.0))).map_err(|_| ()), d.values(&l).count());
        (f(&m), f(&re))
    });
    rep.count("probe_scoped_splice_delete");
    match r {
        Ok((mem, reloaded)) => {
            if mem != reloaded {
                rep.fail(&["C29", "C02"], "txn|iso|not-merge|after-scoped-splice-delete",
                    &format!("after transaction_at(hs).splice(l, 0, 1, []) + commit the document reads {} but its saved and reloaded copy (and the merge of the change) reads {}", mem, reloaded),
                    json!({"probe": "A (actor 09): l = [1]; B = fork (actor 01); A: put(l,0,'a'); hs = A's heads; B: put(l,0,'b'); A.merge(B); transaction_at(hs).splice(l,0,1,[]); commit"}));
            }
        }
        Err(p) => rep.fail(&["C29", "C37"], &format!("panic|txn|probe-splice-delete|{}", p.signature()), &p.message, json!({})),
    }
}

// ================================================================== C30
fn with_hint(id: &ObjId, hint: usize) -> ObjId {
    match id {
        ObjId::Root => ObjId::Root,
        ObjId::Id(c, a, _) => ObjId::Id(*c, a.clone(), hint),
    }
}
fn via_bytes(id: &ObjId) -> Option<ObjId> {
    ObjId::try_from(&id.to_bytes()[..]).ok()
}
/// everything one can read through an id, rendered without the id itself
fn read_all<D: ReadDoc>(doc: &D, id: &ObjId) -> String {
    let ty = doc.object_type(id);
    let mut s = format!("type={:?}", ty.as_ref().map_err(|_| ()));
    s.push_str(&format!(" len={} keys={:?}", doc.length(id), doc.keys(id).collect::<Vec<_>>()));
    s.push_str(&format!(" text={:?}", doc.text(id).map_err(|_| ())));
    s.push_str(&format!(" values={:?}", doc.values(id).map(|(v, i)| format!("{:?}/{}", v, i)).collect::<Vec<_>>()));
    s.push_str(&format!(" maprange={:?}", doc.map_range(id, ..).map(|i| format!("{}={:?}", i.key, i.value)).collect::<Vec<_>>()));
    s.push_str(&format!(" listrange={:?}", doc.list_range(id, ..).map(|i| format!("{}={:?}", i.index, i.value)).collect::<Vec<_>>()));
    s.push_str(&format!(" get0={:?} geta={:?}", doc.get(id, 0usize).map_err(|_| ()), doc.get(id, "a").map_err(|_| ())));
    s.push_str(&format!(" getall0={:?}", doc.get_all(id, 0usize).map_err(|_| ())));
    s.push_str(&format!(" parents={:?}", doc.parents(id).map(|p| p.map(|x| format!("{}/{:?}", x.obj, x.prop)).collect::<Vec<_>>()).map_err(|_| ())));
    s.push_str(&format!(" marks={:?}", doc.marks(id).map(|m| m.len()).map_err(|_| ())));
    s
}
/// does reading through `id` give nothing at all
fn reads_nothing<D: ReadDoc>(doc: &D, id: &ObjId) -> Result<(), String> {
    if doc.object_type(id).is_ok() {
        return Err("object_type is Ok".into());
    }
    if doc.length(id) != 0 {
        return Err(format!("length is {}", doc.length(id)));
    }
    if doc.keys(id).count() != 0 {
        return Err("keys is not empty".into());
    }
    if doc.values(id).count() != 0 {
        return Err("values is not empty".into());
    }
    if doc.map_range(id, ..).count() != 0 || doc.list_range(id, ..).count() != 0 {
        return Err("a range iterator is not empty".into());
    }
    if let Ok(t) = doc.text(id) {
        if !t.is_empty() {
            return Err(format!("text is {:?}", t));
        }
    }
    match doc.get(id, "a") {
        Ok(None) | Err(_) => {}
        Ok(Some(v)) => return Err(format!("get(id, \"a\") = {:?}", v)),
    }
    match doc.get(id, 0usize) {
        Ok(None) | Err(_) => {}
        Ok(Some(v)) => return Err(format!("get(id, 0) = {:?}", v)),
    }
    match doc.get_all(id, "a") {
        Ok(v) if !v.is_empty() => return Err(format!("get_all(id, \"a\") = {:?}", v)),
        _ => {}
    }
    if let Ok(p) = doc.parents(id) {
        if p.count() != 0 {
            return Err("parents is not empty".into());
        }
    }
    Ok(())
}

fn part_ids(rng: &mut Rng, rep: &mut Report, cw: &mut CaseWriter, gr: &mut Groups, thorough: bool, pi: usize, want_model: bool) {
    let mut log: Vec<String> = vec![];
    let u = match universe(rng, thorough, &mut log) {
        Some(u) => u,
        None => {
            rep.count("universe_abandoned");
            return;
        }
    };
    let props = ["C30"];
    let rj = |log: &Vec<String>, extra: serde_json::Value| json!({"program": pi, "part": "ids", "log": log, "detail": extra});
    let outcome = guard(|| {
        // ids as the API returned them: walk every replica (hints are that replica's indexes)
        let mut ids: Vec<(ObjId, ObjType, usize)> = vec![];
        let mut reps: Vec<AutoCommit> = u.replicas.clone();
        for (ri, r) in reps.iter_mut().enumerate() {
            r.commit();
            for (id, ty) in gen::reachable(r) {
                if id != ROOT {
                    ids.push((id, ty, ri));
                }
            }
        }
        // ids taken at creation, in a replica whose actor is new and sorts first / last
        for ri in 0..reps.len() {
            if rng.chance(1, 2) {
                let a = new_actor(rng, pi + ri);
                reps[ri].set_actor(a);
                let t = *rng.pick(&[ObjType::Map, ObjType::List, ObjType::Text]);
                if let Ok(id) = reps[ri].put_object(ROOT, format!("made{}", ri), t) {
                    // filled so that "another object's data" would be visible
                    match t {
                        ObjType::Map => {
                            let _ = reps[ri].put(&id, "a", format!("in-made{}", ri));
                        }
                        ObjType::List => {
                            let _ = reps[ri].insert(&id, 0, format!("in-made{}", ri));
                        }
                        _ => {
                            let _ = reps[ri].splice_text(&id, 0, 0, &format!("in-made{}", ri));
                        }
                    }
                    ids.push((id, t, ri));
                }
                reps[ri].commit();
            }
        }
        // derived documents: merged (actor tables shift), saved + loaded, forked, forked at older heads
        let mut docs: Vec<(String, Automerge)> = vec![];
        for (ri, r) in reps.iter_mut().enumerate() {
            docs.push((format!("r{}", ri), r.document().clone()));
        }
        let nrep = reps.len();
        for ri in 0..nrep {
            let o = (ri + 1) % nrep;
            let mut m = docs[ri].1.clone();
            let mut other = docs[o].1.clone();
            if m.merge(&mut other).is_ok() {
                docs.push((format!("r{}+r{}", ri, o), m));
            }
        }
        {
            let mut all = docs[0].1.clone();
            for k in 1..nrep {
                let mut o = docs[k].1.clone();
                let _ = all.merge(&mut o);
            }
            let bytes = all.save();
            if let Ok(l) = Automerge::load(&bytes) {
                docs.push(("load(save(all))".into(), l));
            }
            docs.push(("fork(all)".into(), all.fork().with_actor(new_actor(rng, 77))));
            for hs in u.head_sets.iter().take(4) {
                if let Ok(f) = all.fork_at(hs) {
                    docs.push((format!("fork_at({} heads)", hs.len()), f));
                }
            }
            docs.push(("all".into(), all));
        }
        // a foreign document with an actor of the universe but other objects under the same counters
        (ids, docs)
    });
    let (ids, mut docs) = match outcome {
        Ok(x) => x,
        Err(p) => {
            rep.fail(&["C30", "C37"], &format!("panic|txn|ids-setup|{}", p.signature()), &format!("building the id program panicked: {} at {}", p.message, p.location), rj(&log, json!({})));
            return;
        }
    };
    let mut cases: Vec<(String, serde_json::Value)> = vec![];
    let mut defs: Vec<String> = vec![];
    let budget = if thorough { 60 } else { 24 };
    let mut checked = 0u64;
    for (di, (dname, doc)) in docs.iter_mut().enumerate() {
        let changes = doc.get_changes(&[]);
        let have: BTreeMap<(u64, Vec<u8>), ObjType> = object_ids(&changes).into_iter().filter(|x| x.0 != ROOT).map(|x| (exid_key(&x.0), x.1)).collect();
        let table = actor_table(&changes);
        let mut doc_def_done = false;
        for (id, ty, from) in ids.iter() {
            let key = exid_key(id);
            let present = have.get(&key).copied();
            // the same id under every hint
            let orig_hint = match id {
                ObjId::Id(_, _, h) => *h,
                _ => 0,
            };
            let variants: Vec<(String, ObjId)> = vec![
                ("as-returned".into(), id.clone()),
                ("hint-0".into(), with_hint(id, 0)),
                ("hint-1".into(), with_hint(id, 1)),
                ("hint-past-table".into(), with_hint(id, table.len() + 3)),
                ("hint-huge".into(), with_hint(id, usize::MAX)),
                ("via-bytes".into(), via_bytes(&with_hint(id, orig_hint + 1)).unwrap_or_else(|| id.clone())),
            ];
            let res = guard(|| {
                let mut first: Option<String> = None;
                for (vn, vid) in &variants {
                    match present {
                        Some(t) => {
                            match doc.object_type(vid) {
                                Ok(t2) if t2 == t && t == *ty => {}
                                other => return Err((format!("txn|ids|present-not-resolved|{}", vn), format!("{}: object_type({:?}) = {:?}, the document holds its make op ({:?})", dname, vid, other.map_err(|e| e.to_string()), t))),
                            }
                            let r = read_all(doc, vid);
                            match &first {
                                None => first = Some(r),
                                Some(f) if *f != r => return Err((format!("txn|ids|hint-changes-read|{}", vn), format!("{}: reads through {:?} differ with the hint", dname, vid))),
                                _ => {}
                            }
                        }
                        None => {
                            if let Err(w) = reads_nothing(doc, vid) {
                                return Err((format!("txn|ids|absent-reads-data|{}", vn), format!("{}: the document does not hold object {:?} (from r{}) but {}", dname, vid, from, w)));
                            }
                        }
                    }
                }
                // the id the document itself hands out for the object reads the same
                if let (Some(_), Some(f)) = (present, &first) {
                    let own: Vec<ObjId> = gen::reachable(doc).into_iter().map(|x| x.0).filter(|x| exid_key(x) == key).collect();
                    if let Some(o) = own.first() {
                        if read_all(doc, o) != *f {
                            return Err(("txn|ids|own-id-reads-differently".into(), format!("{}: reads through the replica's own id for {:?} differ", dname, id)));
                        }
                    }
                }
                // edits: on a copy, through the stalest variant
                let mut c = doc.clone();
                let vid = &variants[3].1;
                let mut tx = c.transaction();
                let r = match ty {
                    ObjType::Map | ObjType::Table => tx.put(vid, "c30probe", "landed"),
                    ObjType::List => tx.insert(vid, 0, "landed"),
                    ObjType::Text => tx.splice_text(vid, 0, 0, "L"),
                };
                match (present, r) {
                    (Some(_), Err(e)) => return Err(("txn|ids|edit-rejected".into(), format!("{}: an edit through {:?} (object present) failed: {}", dname, vid, e))),
                    (None, Ok(())) => return Err(("txn|ids|edit-accepted-absent".into(), format!("{}: an edit through {:?} succeeded although the document does not hold the object", dname, vid))),
                    (Some(_), Ok(())) => {
                        let (h, _) = tx.commit();
                        let ch = h.and_then(|h| c.get_change_by_hash(&h));
                        let landed = ch.map(|ch| {
                            let e = ch.decode();
                            e.operations.iter().all(|op| match &op.obj {
                                automerge::legacy::ObjectId::Id(oid) => (oid.counter(), oid.actor().to_bytes().to_vec()) == key,
                                _ => false,
                            })
                        });
                        if landed != Some(true) {
                            return Err(("txn|ids|edit-landed-elsewhere".into(), format!("{}: the op of an edit through {:?} does not name that object", dname, vid)));
                        }
                        // ... and is read back through the id as returned
                        let seen = match ty {
                            ObjType::Map | ObjType::Table => matches!(c.get(id, "c30probe"), Ok(Some(_))),
                            ObjType::List => matches!(c.get(id, 0usize), Ok(Some((Value::Scalar(s), _))) if s.to_str() == Some("landed")),
                            ObjType::Text => c.text(id).map(|t| t.starts_with('L')).unwrap_or(false),
                        };
                        if !seen {
                            return Err(("txn|ids|edit-not-read-back".into(), format!("{}: an edit through a stale-hint id is not visible through the original id {:?}", dname, id)));
                        }
                    }
                    (None, Err(_)) => {
                        tx.rollback();
                    }
                }
                Ok(())
            });
            checked += 1;
            rep.count(if present.is_some() { "ids_present_checked" } else { "ids_absent_checked" });
            match res {
                Ok(Ok(())) => {}
                Ok(Err((sig, what))) => {
                    rep.fail(&props, &sig, &what, rj(&log, json!({"doc": dname, "id": format!("{:?}", id)})));
                }
                Err(p) if foreign_panic(rep, &p, &log) => {}
                Err(p) => {
                    rep.fail(&["C30", "C37"], &format!("panic|txn|ids|{}", p.signature()), &format!("{}: using id {:?} panicked: {} at {}", dname, id, p.message, p.location), rj(&log, json!({})));
                }
            }
            // model case: resolution only depends on the table, the make ops and (counter, actor)
            if want_model && cases.len() < budget && rng.chance(1, 3) {
                if !doc_def_done {
                    let ops: Vec<String> = changes.iter().map(coq_ops_of).collect();
                    defs.push(format!("Definition id{}_ops{} : list op := {}.", pi, di, ops.iter().map(|o| o.as_str()).collect::<Vec<_>>().join(" ++ ")));
                    defs.push(format!("Definition id{}_tab{} : list (list N) := {}.", pi, di, coq_table(&table)));
                    doc_def_done = true;
                }
                let hint = *rng.pick(&[orig_hint, 0usize, 1, table.len() + 3]);
                let expect = match doc.object_type(with_hint(id, hint)) {
                    Ok(t) => format!("(Some {})", coq_objtype(t)),
                    Err(_) => "None".to_string(),
                };
                cases.push((
                    format!("chk_resolve id{}_tab{} id{}_ops{} {} {} {} {}", pi, di, pi, di, key.0, coq_bytes(&key.1), hint, expect),
                    json!({"kind": "resolve", "props": ["C30"], "program": pi, "doc": dname, "id": format!("{:?}", id), "present": present.is_some()}),
                ));
            }
        }
    }
    rep.add("ids_checked", checked);
    let key = fnv(format!("{:?}{:?}", log, ids.len()).as_bytes());
    rep.case(if ids.len() >= 2 && docs.len() >= 5 { Some(key) } else { None });
    if pi < 1 {
        rep.sample(json!({"part": "ids", "ids": ids.len(), "documents": docs.iter().map(|d| d.0.clone()).collect::<Vec<_>>()}));
    }
    if !cases.is_empty() {
        rep.model_cases += cases.len() as u64;
        gr.add(cw, defs, cases);
    }
}

/// an id with counter 0 names the root whatever its actor (ObjId::is_root looks at the counter only): recorded
/// in the evidence, not a failure — no API call returns such an id
fn probe_counter_zero(rep: &mut Report) {
    let r = guard(|| {
        let a = ActorId::from(vec![3u8, 3]);
        let mut d = AutoCommit::new().with_actor(a.clone());
        d.put(ROOT, "k", 1).unwrap();
        d.commit();
        let odd = ObjId::Id(0, a, 0);
        matches!(d.get(&odd, "k"), Ok(Some(_)))
    });
    if let Ok(true) = r {
        rep.count("probe_counter_zero_id_reads_root");
    }
}

pub fn run(rng: &mut Rng, tier: &str, out: &str) -> Report {
    let mut rep = Report::new("txn");
    let mut cw = CaseWriter::new(out, "txn", HEADER, 1);
    let thorough = tier == "thorough";
    let (n_rb, n_iso, n_ids) = if thorough { (1500, 1200, 150) } else { (220, 180, 36) };
    let (m_rb, m_iso, m_ids) = if thorough { (160, 160, 40) } else { (30, 30, 8) };
    let mut gr = Groups { defs: vec![], cases: vec![], programs: 0, per_shard: 6 };
    probe_rollback_queue(&mut rep);
    probe_known_integrate_panic(&mut rep);
    probe_counter_zero(&mut rep);
    probe_scoped_increment(&mut rep);
    probe_scoped_rejected_calls(&mut rep);
    probe_scoped_splice_delete(&mut rep);
    let only = std::env::var("VERIF_TXN_ONLY").ok();
    let skip = |part: &str, pi: usize| only.as_ref().map(|o| *o != format!("{}:{}", part, pi)).unwrap_or(false);
    for pi in 0..n_rb {
        let mut r = rng.fork();
        if skip("rb", pi) {
            continue;
        }
        part_rollback(&mut r, &mut rep, &mut cw, &mut gr, thorough, pi, pi < m_rb);
    }
    gr.flush(&mut cw);
    for pi in 0..n_iso {
        let mut r = rng.fork();
        if skip("iso", pi) {
            continue;
        }
        part_iso(&mut r, &mut rep, &mut cw, &mut gr, thorough, pi, pi < m_iso);
    }
    gr.flush(&mut cw);
    gr.per_shard = 3;
    for pi in 0..n_ids {
        let mut r = rng.fork();
        if skip("ids", pi) {
            continue;
        }
        part_ids(&mut r, &mut rep, &mut cw, &mut gr, thorough, pi, pi < m_ids);
    }
    gr.flush(&mut cw);
    cw.finish();
    rep
}
