// Random edit programs over the public editing API (mostly valid edits; a labelled invalid stream
// is generated where a family asks for it).
use crate::util::*;
use automerge::transaction::Transactable;
use automerge::{ActorId, AutoCommit, ObjId, ObjType, ReadDoc, ScalarValue, Value, ROOT};

pub const KEYS: [&str; 7] = ["a", "b", "c", "k1", "\u{e9}", "zz", "\u{1F600}"];
pub const STRS: [&str; 9] = ["", "x", "hello", "\u{e9}", "\u{6f22}\u{5b57}", "\u{1F600}", "e\u{301}", "a\u{1F468}\u{200D}\u{1F469}b", "line\n"];

pub fn scalar(rng: &mut Rng) -> ScalarValue {
    match rng.below(12) {
        0 => ScalarValue::Null,
        1 => ScalarValue::Boolean(rng.chance(1, 2)),
        2 => ScalarValue::Int(*rng.pick(&[0i64, 1, -1, 42, i64::MAX, i64::MIN, 1 << 53])),
        3 => ScalarValue::Int(rng.below(100) as i64 - 50),
        4 => ScalarValue::Uint(*rng.pick(&[0u64, 7, u64::MAX, 1 << 63])),
        5 => ScalarValue::F64(f64::from_bits(*rng.pick(&[0u64, 0x3ff0000000000000, 0x8000000000000000, 0x7ff0000000000000, 0x400921fb54442d18]))),
        6 | 7 => ScalarValue::Str(rng.pick(&STRS).to_string().into()),
        8 => {
            let n = rng.below(5) as usize;
            ScalarValue::Bytes(rng.bytes(n))
        }
        9 => ScalarValue::counter(rng.below(20) as i64 - 5),
        10 => ScalarValue::Timestamp(*rng.pick(&[0i64, 1_700_000_000_000, -5])),
        _ => ScalarValue::Int(rng.below(10) as i64),
    }
}

pub fn objtype(rng: &mut Rng) -> ObjType {
    // ObjType::Table is not generated: the implementation never registers a table as an object
    // (ObjType::try_from(Action::MakeTable) fails), see the known finding under C30
    *rng.pick(&[ObjType::Map, ObjType::List, ObjType::Text, ObjType::Map, ObjType::List])
}

/// reachable objects (through winners and conflict losers), bounded
pub fn reachable<D: ReadDoc>(doc: &D) -> Vec<(ObjId, ObjType)> {
    let mut out = vec![(ROOT, ObjType::Map)];
    let mut i = 0;
    while i < out.len() && out.len() < 64 {
        let (id, ty) = out[i].clone();
        i += 1;
        if ty.is_sequence() {
            let len = doc.length(&id);
            for k in 0..len.min(40) {
                if let Ok(vals) = doc.get_all(&id, k) {
                    for (v, cid) in vals {
                        if let Value::Object(t) = v {
                            out.push((cid, t));
                        }
                    }
                }
            }
        } else {
            let keys: Vec<String> = doc.keys(&id).collect();
            for k in keys {
                if let Ok(vals) = doc.get_all(&id, k.as_str()) {
                    for (v, cid) in vals {
                        if let Value::Object(t) = v {
                            out.push((cid, t));
                        }
                    }
                }
            }
        }
    }
    out
}

#[derive(Clone, Copy)]
pub struct GenCfg {
    pub text_weight: u64,
    pub counters: bool,
    pub objects: bool,
    /// conflict-focused profile: few registers, counters and overwrites on the same slots
    pub focus: bool,
}
impl Default for GenCfg {
    fn default() -> Self {
        GenCfg { text_weight: 2, counters: true, objects: true, focus: false }
    }
}

fn small_value(rng: &mut Rng) -> ScalarValue {
    match rng.below(5) {
        0 | 1 => ScalarValue::counter(rng.below(9) as i64),
        2 => ScalarValue::Str(rng.pick(&["x", "text", "\u{e9}"]).to_string().into()),
        3 => ScalarValue::Int(rng.below(5) as i64),
        _ => ScalarValue::Null,
    }
}

/// edits concentrated on root key "a", a list at "l" (elements 0..2) and a text at "t"
fn focused_edit(doc: &mut AutoCommit, rng: &mut Rng) -> Option<String> {
    let list = match doc.get(ROOT, "l") {
        Ok(Some((Value::Object(ObjType::List), id))) => id,
        _ => {
            let id = doc.put_object(ROOT, "l", ObjType::List).ok()?;
            doc.insert(&id, 0, ScalarValue::Null).ok()?;
            return Some("focus: make l".into());
        }
    };
    let len = doc.length(&list);
    let has_counter = |doc: &AutoCommit, vs: Result<Vec<(Value<'_>, ObjId)>, automerge::AutomergeError>| {
        let _ = doc;
        vs.map(|vs| vs.iter().any(|(v, _)| matches!(v, Value::Scalar(s) if matches!(s.as_ref(), ScalarValue::Counter(_))))).unwrap_or(false)
    };
    match rng.below(12) {
        0 | 1 | 2 if len > 0 => {
            let i = rng.below(len.min(2) as u64) as usize;
            let v = small_value(rng);
            doc.put(&list, i, v.clone()).ok()?;
            Some(format!("focus: lput {} {:?}", i, v))
        }
        3 | 4 if len > 0 => {
            let i = rng.below(len.min(2) as u64) as usize;
            if has_counter(doc, doc.get_all(&list, i)) {
                doc.increment(&list, i, 5).ok()?;
                Some(format!("focus: linc {}", i))
            } else {
                None
            }
        }
        5 => {
            let v = small_value(rng);
            doc.put(ROOT, "a", v.clone()).ok()?;
            Some(format!("focus: put a {:?}", v))
        }
        6 | 7 => {
            if has_counter(doc, doc.get_all(ROOT, "a")) {
                doc.increment(ROOT, "a", 3).ok()?;
                Some("focus: inc a".into())
            } else {
                None
            }
        }
        8 if len > 1 => {
            doc.delete(&list, 0).ok()?;
            Some("focus: ldel 0".into())
        }
        9 => {
            let i = rng.below(len as u64 + 1) as usize;
            let v = small_value(rng);
            doc.insert(&list, i, v.clone()).ok()?;
            Some(format!("focus: lins {} {:?}", i, v))
        }
        10 => {
            doc.delete(ROOT, "a").ok()?;
            Some("focus: del a".into())
        }
        _ => {
            let text = match doc.get(ROOT, "t") {
                Ok(Some((Value::Object(ObjType::Text), id))) => id,
                _ => {
                    doc.put_object(ROOT, "t", ObjType::Text).ok()?;
                    return Some("focus: make t".into());
                }
            };
            let tl = doc.length(&text);
            let pos = rng.below(tl as u64 + 1) as usize;
            let del = if tl > pos && rng.chance(1, 2) { 1 } else { 0 };
            let s: &str = *rng.pick(&["a", "bc", ""]);
            doc.splice_text(&text, pos, del, s).ok()?;
            Some(format!("focus: tsplice {} {}", pos, del))
        }
    }
}

/// perform one random, valid edit; returns a short description (None if nothing was done)
pub fn random_edit(doc: &mut AutoCommit, rng: &mut Rng, cfg: &GenCfg) -> Option<String> {
    if cfg.focus {
        return focused_edit(doc, rng);
    }
    let objs = reachable(doc);
    // prefer sequences a little so that lists / texts grow
    let (obj, ty) = {
        let seqs: Vec<_> = objs.iter().filter(|o| o.1.is_sequence()).cloned().collect();
        if !seqs.is_empty() && rng.chance(cfg.text_weight, cfg.text_weight + 2) {
            rng.pick(&seqs).clone()
        } else {
            rng.pick(&objs).clone()
        }
    };
    match ty {
        ObjType::Map | ObjType::Table => {
            let key = rng.pick(&KEYS).to_string();
            let existing: Vec<String> = doc.keys(&obj).collect();
            match rng.below(10) {
                0 | 1 if !existing.is_empty() => {
                    let k = rng.pick(&existing).clone();
                    doc.delete(&obj, k.as_str()).ok()?;
                    Some(format!("del {}", k))
                }
                2 if cfg.counters && !existing.is_empty() => {
                    // increment a counter if there is one
                    // (a counter anywhere in a conflicted register counts)
                    for k in existing {
                        let has_counter = doc.get_all(&obj, k.as_str()).map(|vs| vs.iter().any(|(v, _)| matches!(v, Value::Scalar(s) if matches!(s.as_ref(), ScalarValue::Counter(_))))).unwrap_or(false);
                        if has_counter {
                            let by = rng.below(7) as i64 - 3;
                            doc.increment(&obj, k.as_str(), by).ok()?;
                            return Some(format!("inc {} {}", k, by));
                        }
                    }
                    None
                }
                3 | 4 if cfg.objects && ty == ObjType::Map => {
                    let t = objtype(rng);
                    doc.put_object(&obj, key.as_str(), t).ok()?;
                    Some(format!("put_object {} {:?}", key, t))
                }
                _ => {
                    if ty == ObjType::Table {
                        // a table only accepts objects
                        let t = ObjType::Map;
                        doc.put_object(&obj, key.as_str(), t).ok()?;
                        return Some(format!("put_object {} {:?}", key, t));
                    }
                    let v = scalar(rng);
                    doc.put(&obj, key.as_str(), v.clone()).ok()?;
                    Some(format!("put {} {:?}", key, v))
                }
            }
        }
        ObjType::List => {
            let len = doc.length(&obj);
            match rng.below(10) {
                0 | 1 if len > 0 => {
                    let i = rng.below(len as u64) as usize;
                    doc.delete(&obj, i).ok()?;
                    Some(format!("ldel {}", i))
                }
                2 | 3 if len > 0 => {
                    // low indexes and counters are favoured so that replicas conflict on one element
                    let i = if rng.chance(1, 2) { 0 } else { rng.below(len as u64) as usize };
                    let v = if cfg.counters && rng.chance(1, 3) { ScalarValue::counter(rng.below(9) as i64) } else { scalar(rng) };
                    doc.put(&obj, i, v.clone()).ok()?;
                    Some(format!("lput {} {:?}", i, v))
                }
                4 if cfg.counters && len > 0 => {
                    for i in 0..len {
                        let has_counter = doc.get_all(&obj, i).map(|vs| vs.iter().any(|(v, _)| matches!(v, Value::Scalar(s) if matches!(s.as_ref(), ScalarValue::Counter(_))))).unwrap_or(false);
                        if has_counter {
                            doc.increment(&obj, i, 2).ok()?;
                            return Some(format!("linc {}", i));
                        }
                    }
                    None
                }
                5 if cfg.objects => {
                    let i = rng.below(len as u64 + 1) as usize;
                    let t = *rng.pick(&[ObjType::Map, ObjType::List, ObjType::Text]);
                    doc.insert_object(&obj, i, t).ok()?;
                    Some(format!("linsobj {} {:?}", i, t))
                }
                6 if len > 0 => {
                    let i = rng.below(len as u64) as usize;
                    let del = rng.below((len - i).min(3) as u64 + 1) as isize;
                    let n = rng.below(3) as usize;
                    let vals: Vec<ScalarValue> = (0..n).map(|_| scalar(rng)).collect();
                    doc.splice(&obj, i, del, vals).ok()?;
                    Some(format!("lsplice {} {} {}", i, del, n))
                }
                _ => {
                    let i = rng.below(len as u64 + 1) as usize;
                    let v = scalar(rng);
                    doc.insert(&obj, i, v.clone()).ok()?;
                    Some(format!("lins {} {:?}", i, v))
                }
            }
        }
        ObjType::Text => {
            let len = doc.length(&obj);
            // overwrite one text element (replicas doing this concurrently make conflicted text elements;
            // a later splice then deletes winners and losers)
            if len > 0 && rng.chance(1, 7) {
                let i = rng.below(len.min(3) as u64) as usize;
                let v: ScalarValue = match rng.below(4) {
                    0 => ScalarValue::Str("ab".into()),
                    1 if cfg.counters => ScalarValue::counter(rng.below(5) as i64),
                    _ => ScalarValue::Str(rng.pick(&["q", "\u{e9}", "w"]).to_string().into()),
                };
                doc.put(&obj, i, v.clone()).ok()?;
                return Some(format!("tput {} {:?}", i, v));
            }
            let pos = rng.below(len as u64 + 1) as usize;
            let del = if len > pos && rng.chance(1, 3) { rng.below((len - pos).min(3) as u64 + 1) as isize } else { 0 };
            let s = if rng.chance(1, 5) { "" } else { *rng.pick(&STRS) };
            if s.is_empty() && del == 0 {
                return None;
            }
            doc.splice_text(&obj, pos, del, s).ok()?;
            Some(format!("tsplice {} {} {:?}", pos, del, s))
        }
    }
}

/// actor ids chosen so that later actors often sort before earlier ones, with varying lengths
pub fn actor(rng: &mut Rng, i: usize) -> ActorId {
    let first = match rng.below(4) {
        0 => 0xF0u8.wrapping_sub(i as u8 * 16),
        1 => 0x10u8.wrapping_add(i as u8),
        _ => rng.next() as u8,
    };
    let mut b = vec![first, i as u8];
    let extra = rng.below(4) as usize;
    b.extend(rng.bytes(extra));
    ActorId::from(b)
}
