// amv — correspondence and search harness.
//   amv <family> <outdir>      env: VERIF_SEED, VERIF_TIER
// writes <outdir>/<family>_NNN.v (model cases for coqc), <outdir>/<family>_index.json (case
// descriptors) and <outdir>/<family>_report.json (counts, samples, direct failures).
#![allow(dead_code)]
mod alloc;
mod util;
mod fam_bloom;
mod fam_hist;
mod fam_conf;
mod fam_store;
mod fam_cursor;
mod fam_meta;
mod fam_hexenc;
mod fam_ids;
mod fam_sync;
mod fam_hexcol;
mod fam_edit;
mod fam_chg;
mod fam_robust;
mod fam_txn;
mod fam_marks;
mod fam_patch;
mod fam_recon;
mod fam_anon;
mod fam_doc;
mod gen;
mod model;

#[global_allocator]
static GLOBAL: alloc::Counting = alloc::Counting;

fn main() {
    let args: Vec<String> = std::env::args().collect();
    if args.len() < 3 {
        eprintln!("usage: amv <family> <outdir>");
        std::process::exit(2);
    }
    let seed: u64 = std::env::var("VERIF_SEED").ok().and_then(|s| s.parse().ok()).unwrap_or(1);
    let tier = std::env::var("VERIF_TIER").unwrap_or_else(|_| "quick".to_string());
    util::install_panic_hook();
    let fam = args[1].as_str();
    let out = args[2].as_str();
    std::fs::create_dir_all(out).unwrap();
    let mut rng = util::Rng::new(seed ^ util::fnv(fam.as_bytes()));
    let rep = match fam {
        "bloom" => fam_bloom::run(&mut rng, &tier, out),
        "hist" => fam_hist::run(&mut rng, &tier, out),
        "conf" => fam_conf::run(&mut rng, &tier, out),
        "store" => fam_store::run(&mut rng, &tier, out),
        "cursor" => fam_cursor::run(&mut rng, &tier, out),
        "meta" => fam_meta::run(&mut rng, &tier, out),
        "hexenc" => fam_hexenc::run(&mut rng, &tier, out),
        "ids" => fam_ids::run(&mut rng, &tier, out),
        "sync" => fam_sync::run(&mut rng, &tier, out),
        "hexcol" => fam_hexcol::run(&mut rng, &tier, out),
        "edit" => fam_edit::run(&mut rng, &tier, out),
        "chg" => fam_chg::run(&mut rng, &tier, out),
        "robust" => fam_robust::run(&mut rng, &tier, out),
        "txn" => fam_txn::run(&mut rng, &tier, out),
        "marks" => fam_marks::run(&mut rng, &tier, out),
        "patch" => fam_patch::run(&mut rng, &tier, out),
        "recon" => fam_recon::run(&mut rng, &tier, out),
        "anon" => fam_anon::run(&mut rng, &tier, out),
        "doc" => fam_doc::run(&mut rng, &tier, out),
        _ => {
            eprintln!("unknown family {}", fam);
            std::process::exit(2);
        }
    };
    let path = format!("{}/{}_report.json", out, fam);
    std::fs::write(&path, serde_json::to_string_pretty(&rep.to_json()).unwrap()).unwrap();
    println!("family={} evaluations={} nontrivial={} failures={} model_cases={}",
        fam, rep.evaluations, rep.nontrivial.len(), rep.failures.len(), rep.model_cases);
}
