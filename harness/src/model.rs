// Conversion of implementation values (changes, ops, observations) into Coq literals of the
// model's types (Crdt/Types.v, Crdt/Interp.v), plus the canonical observation of a document.
use crate::util::*;
use automerge::{
    legacy, ActorId, Automerge, Change, ChangeHash, ExpandedChange, ObjId, ObjType, ReadDoc, ScalarValue, Value,
    ROOT,
};
use std::fmt::Write as _;

pub fn coq_str(s: &str) -> String {
    coq_nlist(s.chars().map(|c| c as u128))
}

pub fn coq_hash(h: &ChangeHash) -> String {
    // big-endian number of the 32 bytes
    let mut s = String::from("0x");
    for b in h.0.iter() {
        let _ = write!(s, "{:02x}", b);
    }
    s
}
pub fn coq_hashes(hs: &[ChangeHash]) -> String {
    coq_list(&hs.iter().map(coq_hash).collect::<Vec<_>>())
}

pub fn coq_actor(a: &ActorId) -> String {
    coq_bytes(a.to_bytes())
}

pub fn coq_opid(ctr: u64, actor: &ActorId) -> String {
    format!("({},{})", ctr, coq_actor(actor))
}
pub fn coq_legacy_opid(id: &legacy::OpId) -> String {
    coq_opid(id.counter(), id.actor())
}

/// ExId / ObjId -> model opid ((0,[]) for the root)
pub fn coq_objid(id: &ObjId) -> String {
    match id {
        ObjId::Root => "(0,[])".to_string(),
        ObjId::Id(ctr, actor, _) => coq_opid(*ctr, actor),
    }
}

pub fn coq_scalar(v: &ScalarValue) -> String {
    match v {
        ScalarValue::Null => "SNull".into(),
        ScalarValue::Boolean(b) => format!("(SBool {})", coq_bool(*b)),
        ScalarValue::Int(i) => format!("(SInt {})", coq_z(*i as i128)),
        ScalarValue::Uint(u) => format!("(SUint {})", u),
        ScalarValue::F64(f) => format!("(SF64 {})", f.to_bits()),
        ScalarValue::Str(s) => format!("(SStr {})", coq_str(s)),
        ScalarValue::Bytes(b) => format!("(SBytes {})", coq_bytes(b)),
        ScalarValue::Counter(c) => format!("(SCounter {})", coq_z(i64::from(c) as i128)),
        ScalarValue::Timestamp(t) => format!("(STimestamp {})", coq_z(*t as i128)),
        ScalarValue::Unknown { type_code, bytes } => format!("(SUnknown {} {})", type_code, coq_bytes(bytes)),
    }
}

pub fn coq_objtype(t: ObjType) -> &'static str {
    match t {
        ObjType::Map => "OMap",
        ObjType::List => "OList",
        ObjType::Text => "OText",
        ObjType::Table => "OTable",
    }
}

pub fn coq_op(op: &legacy::Op, ctr: u64, actor: &ActorId) -> String {
    let obj = match &op.obj {
        legacy::ObjectId::Root => "(0,[])".to_string(),
        legacy::ObjectId::Id(id) => coq_legacy_opid(id),
    };
    let key = match &op.key {
        legacy::Key::Map(s) => format!("(KMap {})", coq_str(s)),
        legacy::Key::Seq(legacy::ElementId::Head) => "(KSeq (0,[]))".to_string(),
        legacy::Key::Seq(legacy::ElementId::Id(id)) => format!("(KSeq {})", coq_legacy_opid(id)),
    };
    let action = match &op.action {
        legacy::OpType::Make(t) => format!("(AMake {})", coq_objtype(*t)),
        legacy::OpType::Delete => "ADel".to_string(),
        legacy::OpType::Increment(i) => format!("(AInc {})", coq_z(*i as i128)),
        legacy::OpType::Put(v) => format!("(APut {})", coq_scalar(v)),
        legacy::OpType::MarkBegin(m) => format!(
            "(AMarkBegin {} {} {})",
            coq_bool(m.expand),
            coq_str(&m.name),
            coq_scalar(&m.value)
        ),
        legacy::OpType::MarkEnd(e) => format!("(AMarkEnd {})", coq_bool(*e)),
    };
    let preds: Vec<String> = op.pred.iter().map(coq_legacy_opid).collect();
    format!(
        "(mkOp {} {} {} {} {} {})",
        coq_opid(ctr, actor),
        obj,
        key,
        coq_bool(op.insert),
        action,
        coq_list(&preds)
    )
}

pub fn coq_change(c: &Change) -> String {
    let e: ExpandedChange = c.decode();
    let start = e.start_op.get();
    let ops: Vec<String> = e
        .operations
        .iter()
        .enumerate()
        .map(|(i, op)| coq_op(op, start + i as u64, &e.actor_id))
        .collect();
    format!(
        "(mkChange {} {} {} {} {} {})",
        coq_hash(&c.hash()),
        coq_actor(&e.actor_id),
        e.seq,
        start,
        coq_hashes(c.deps()),
        coq_list(&ops)
    )
}

/// ids of every object created by a set of changes, as ExIds (root first), ascending id
pub fn object_ids(changes: &[Change]) -> Vec<(ObjId, ObjType)> {
    let mut out: Vec<(u64, Vec<u8>, ObjId, ObjType)> = vec![];
    for c in changes {
        let e = c.decode();
        let start = e.start_op.get();
        for (i, op) in e.operations.iter().enumerate() {
            if let legacy::OpType::Make(t) = &op.action {
                let ctr = start + i as u64;
                out.push((ctr, e.actor_id.to_bytes().to_vec(), ObjId::Id(ctr, e.actor_id.clone(), 0), *t));
            }
        }
    }
    out.sort_by(|a, b| (a.0, &a.1).cmp(&(b.0, &b.1)));
    // diverged replicas using one actor id can create two objects with one id: list it once
    out.dedup_by(|a, b| a.0 == b.0 && a.1 == b.1);
    let mut v = vec![(ROOT, ObjType::Map)];
    v.extend(out.into_iter().map(|x| (x.2, x.3)));
    v
}

fn exid_key(id: &ObjId) -> (u64, Vec<u8>) {
    match id {
        ObjId::Root => (0, vec![]),
        ObjId::Id(c, a, _) => (*c, a.to_bytes().to_vec()),
    }
}

fn coq_vobs(v: &Value<'_>) -> String {
    match v {
        Value::Object(t) => format!("(VO {})", coq_objtype(*t)),
        Value::Scalar(s) => match s.as_ref() {
            ScalarValue::Counter(c) => format!("(VC {})", coq_z(i64::from(c) as i128)),
            other => format!("(VS {})", coq_scalar(other)),
        },
    }
}

fn coq_register(mut vals: Vec<(Value<'_>, ObjId)>) -> String {
    vals.sort_by(|a, b| exid_key(&a.1).cmp(&exid_key(&b.1)));
    let items: Vec<String> = vals.iter().map(|(v, id)| format!("({},{})", coq_objid(id), coq_vobs(v))).collect();
    coq_list(&items)
}

pub struct ObsStats {
    pub objects: usize,
    pub conflicts: usize,
    pub entries: usize,
}

/// Canonical observation of a document as a Coq `obs` literal: every object in `candidates`
/// that the document knows, with all registers.  Err(text) when a read fails unexpectedly.
pub fn observe<D: ReadDoc>(doc: &D, candidates: &[(ObjId, ObjType)], heads: Option<&[ChangeHash]>) -> Result<(String, ObsStats), String> {
    let mut objs: Vec<String> = vec![];
    let mut st = ObsStats { objects: 0, conflicts: 0, entries: 0 };
    for (id, _t) in candidates {
        let ty = match doc.object_type(id) {
            Ok(t) => t,
            Err(_) => continue,
        };
        st.objects += 1;
        let entries = if ty.is_sequence() {
            let len = match heads {
                None => doc.length(id),
                Some(h) => doc.length_at(id, h),
            };
            let mut regs = vec![];
            let mut prev_ids: Option<Vec<ObjId>> = None;
            for i in 0..len {
                let vals = match heads {
                    None => doc.get_all(id, i),
                    Some(h) => doc.get_all_at(id, i, h),
                }
                .map_err(|e| format!("get_all({:?},{}) failed: {}", id, i, e))?;
                // a text element wider than one unit (a multi-character string put into one element) answers
                // at each of its unit indexes: list the element once (two elements never share op ids)
                let ids: Vec<ObjId> = vals.iter().map(|(_, x)| x.clone()).collect();
                if ty == ObjType::Text && !ids.is_empty() && prev_ids.as_ref() == Some(&ids) {
                    continue;
                }
                prev_ids = Some(ids);
                if vals.len() > 1 {
                    st.conflicts += 1;
                }
                st.entries += 1;
                // direct: get() returns the greatest id
                regs.push(coq_register(vals));
            }
            format!("(EL {})", coq_list(&regs))
        } else {
            let keys: Vec<String> = match heads {
                None => doc.keys(id).collect(),
                Some(h) => doc.keys_at(id, h).collect(),
            };
            let mut ents = vec![];
            for k in keys {
                let vals = match heads {
                    None => doc.get_all(id, k.as_str()),
                    Some(h) => doc.get_all_at(id, k.as_str(), h),
                }
                .map_err(|e| format!("get_all({:?},{:?}) failed: {}", id, k, e))?;
                if vals.len() > 1 {
                    st.conflicts += 1;
                }
                st.entries += 1;
                ents.push(format!("({},{})", coq_str(&k), coq_register(vals)));
            }
            format!("(EM {})", coq_list(&ents))
        };
        objs.push(format!("(mkO {} {} {})", coq_objid(id), coq_objtype(ty), entries));
    }
    Ok((coq_list(&objs), st))
}

/// Plain (non-Coq) canonical rendering used to compare two implementation documents directly.
pub fn render_plain(doc: &Automerge, candidates: &[(ObjId, ObjType)]) -> String {
    match observe(doc, candidates, None) {
        Ok((s, _)) => s,
        Err(e) => format!("ERR {}", e),
    }
}

/// A second, wider rendering used to compare reads at historical heads with the same reads on
/// fork_at(heads) (C07): range iterators, values, point reads, text, parents — everything formatted
/// without actor indexes so that documents with different actor tables compare equal.
pub fn render_reads<D: ReadDoc>(doc: &D, candidates: &[(ObjId, ObjType)], heads: Option<&[ChangeHash]>) -> String {
    use std::fmt::Write as _;
    let mut s = String::new();
    for (id, _t) in candidates {
        let ty = match doc.object_type(id) {
            Ok(t) => t,
            Err(_) => continue,
        };
        let _ = write!(s, "\n#{} {:?}:", id, ty);
        if ty.is_sequence() {
            let items: Vec<String> = match heads {
                None => doc.list_range(id, ..).map(|i| format!("{}={:?}/{}/{}", i.index, i.value, i.conflict, i.id())).collect(),
                Some(h) => doc.list_range_at(id, .., h).map(|i| format!("{}={:?}/{}/{}", i.index, i.value, i.conflict, i.id())).collect(),
            };
            let _ = write!(s, " range[{}]", items.join(","));
            let n = items.len();
            let vals: Vec<String> = match heads {
                None => doc.values(id).map(|(v, i)| format!("{:?}/{}", v, i)).collect(),
                Some(h) => doc.values_at(id, h).map(|(v, i)| format!("{:?}/{}", v, i)).collect(),
            };
            let _ = write!(s, " values[{}]", vals.join(","));
            for k in 0..n.min(12) {
                let g = match heads {
                    None => doc.get(id, k),
                    Some(h) => doc.get_at(id, k, h),
                };
                let _ = write!(s, " get{}={:?}", k, g.map(|o| o.map(|(v, i)| format!("{:?}/{}", v, i))).map_err(|_| ()));
            }
            if ty == ObjType::Text {
                let t = match heads {
                    None => doc.text(id),
                    Some(h) => doc.text_at(id, h),
                };
                let _ = write!(s, " text={:?}", t.map_err(|_| ()));
            }
        } else {
            let items: Vec<String> = match heads {
                None => doc.map_range(id, ..).map(|i| format!("{}={:?}/{}/{}", i.key, i.value, i.conflict, i.id())).collect(),
                Some(h) => doc.map_range_at(id, .., h).map(|i| format!("{}={:?}/{}/{}", i.key, i.value, i.conflict, i.id())).collect(),
            };
            let _ = write!(s, " range[{}]", items.join(","));
            let vals: Vec<String> = match heads {
                None => doc.values(id).map(|(v, i)| format!("{:?}/{}", v, i)).collect(),
                Some(h) => doc.values_at(id, h).map(|(v, i)| format!("{:?}/{}", v, i)).collect(),
            };
            let _ = write!(s, " values[{}]", vals.join(","));
            let keys: Vec<String> = match heads {
                None => doc.keys(id).collect(),
                Some(h) => doc.keys_at(id, h).collect(),
            };
            for k in keys.iter().take(12) {
                let g = match heads {
                    None => doc.get(id, k.as_str()),
                    Some(h) => doc.get_at(id, k.as_str(), h),
                };
                let _ = write!(s, " get{}={:?}", k, g.map(|o| o.map(|(v, i)| format!("{:?}/{}", v, i))).map_err(|_| ()));
            }
        }
        let parents = match heads {
            None => doc.parents(id).map(|p| p.map(|x| format!("{}/{:?}/{}", x.obj, x.prop, x.visible)).collect::<Vec<_>>()),
            Some(h) => doc.parents_at(id, h).map(|p| p.map(|x| format!("{}/{:?}/{}", x.obj, x.prop, x.visible)).collect::<Vec<_>>()),
        };
        let _ = write!(s, " parents={:?}", parents.map_err(|_| ()));
    }
    s
}

/// canonical rendering of a hydrated value: map keys sorted (the value's own Debug walks a HashMap)
pub fn render_hydrate(v: &automerge::hydrate::Value) -> String {
    use automerge::hydrate::Value as H;
    match v {
        H::Scalar(s) => format!("{:?}", s),
        H::Map(m) => {
            let mut items: Vec<(&String, String)> = m.iter().map(|(k, mv)| (k, format!("{}{}", render_hydrate(&mv.value), if mv.conflict { "!" } else { "" }))).collect();
            items.sort();
            format!("{{{}}}", items.iter().map(|(k, v)| format!("{:?}:{}", k, v)).collect::<Vec<_>>().join(","))
        }
        H::List(l) => format!("[{}]", l.iter().map(|lv| format!("{}{}", render_hydrate(&lv.value), if lv.conflict { "!" } else { "" })).collect::<Vec<_>>().join(",")),
        H::Text(t) => format!("T{:?}", t),
    }
}
