// Shared infrastructure: PRNG, Coq literal printing, report collection, panic capture.
use serde_json::{json, Value};
use std::collections::{BTreeMap, HashSet};
use std::fmt::Write as _;
use std::panic::{catch_unwind, AssertUnwindSafe};
use std::sync::Mutex;

/// splitmix64 — every random choice of a run derives from one seed.
#[derive(Clone)]
pub struct Rng(pub u64);
impl Rng {
    pub fn new(seed: u64) -> Self {
        Rng(seed.wrapping_mul(0x9E3779B97F4A7C15) ^ 0xD1B54A32D192ED03)
    }
    pub fn next(&mut self) -> u64 {
        self.0 = self.0.wrapping_add(0x9E3779B97F4A7C15);
        let mut z = self.0;
        z = (z ^ (z >> 30)).wrapping_mul(0xBF58476D1CE4E5B9);
        z = (z ^ (z >> 27)).wrapping_mul(0x94D049BB133111EB);
        z ^ (z >> 31)
    }
    pub fn below(&mut self, n: u64) -> u64 {
        if n == 0 {
            0
        } else {
            self.next() % n
        }
    }
    pub fn range(&mut self, lo: u64, hi: u64) -> u64 {
        lo + self.below(hi - lo + 1)
    }
    pub fn chance(&mut self, num: u64, den: u64) -> bool {
        self.below(den) < num
    }
    pub fn pick<'a, T>(&mut self, xs: &'a [T]) -> &'a T {
        &xs[self.below(xs.len() as u64) as usize]
    }
    pub fn bytes(&mut self, n: usize) -> Vec<u8> {
        (0..n).map(|_| self.next() as u8).collect()
    }
    pub fn shuffle<T>(&mut self, xs: &mut [T]) {
        for i in (1..xs.len()).rev() {
            let j = self.below(i as u64 + 1) as usize;
            xs.swap(i, j);
        }
    }
    pub fn fork(&mut self) -> Rng {
        Rng(self.next())
    }
}

// ---------- Coq literals (always over N, printed flat) ----------
pub fn coq_bytes(b: &[u8]) -> String {
    let mut s = String::with_capacity(b.len() * 4 + 2);
    s.push('[');
    for (i, x) in b.iter().enumerate() {
        if i > 0 {
            s.push(';');
        }
        let _ = write!(s, "{}", x);
    }
    s.push(']');
    s
}
pub fn coq_nlist<I: IntoIterator<Item = u128>>(it: I) -> String {
    let mut s = String::from("[");
    for (i, x) in it.into_iter().enumerate() {
        if i > 0 {
            s.push(';');
        }
        let _ = write!(s, "{}", x);
    }
    s.push(']');
    s
}
pub fn coq_list(items: &[String]) -> String {
    format!("[{}]", items.join(";"))
}
pub fn coq_bool(b: bool) -> &'static str {
    if b {
        "true"
    } else {
        "false"
    }
}
pub fn coq_z(x: i128) -> String {
    if x < 0 {
        format!("({})%Z", x)
    } else {
        format!("{}%Z", x)
    }
}
pub fn coq_opt(o: Option<String>) -> String {
    match o {
        Some(s) => format!("(Some {})", s),
        None => "None".to_string(),
    }
}

// ---------- panic capture ----------
static LAST_PANIC: Mutex<Option<(String, String)>> = Mutex::new(None);

pub fn install_panic_hook() {
    std::panic::set_hook(Box::new(|info| {
        let loc = info
            .location()
            .map(|l| format!("{}:{}", l.file(), l.line()))
            .unwrap_or_default();
        let msg = if let Some(s) = info.payload().downcast_ref::<&str>() {
            s.to_string()
        } else if let Some(s) = info.payload().downcast_ref::<String>() {
            s.clone()
        } else {
            "<non-string panic>".to_string()
        };
        if GUARD_DEPTH.load(std::sync::atomic::Ordering::SeqCst) == 0 {
            eprintln!("harness panic (outside guard): {} at {}", msg, loc);
        }
        *LAST_PANIC.lock().unwrap() = Some((loc, msg));
    }));
}
static GUARD_DEPTH: std::sync::atomic::AtomicUsize = std::sync::atomic::AtomicUsize::new(0);

#[derive(Debug, Clone)]
pub struct PanicInfo {
    pub location: String,
    pub message: String,
}
impl PanicInfo {
    /// signature that survives unrelated edits: source file (no line) + message with numerals erased
    pub fn signature(&self) -> String {
        let file = self.location.rsplit_once(':').map(|x| x.0).unwrap_or(&self.location);
        let file = file.rsplit("/rust/").next().unwrap_or(file);
        let msg: String = self
            .message
            .chars()
            .map(|c| if c.is_ascii_digit() { '#' } else { c })
            .collect();
        let mut out = String::new();
        let mut prev_hash = false;
        for c in msg.chars() {
            if c == '#' {
                if !prev_hash {
                    out.push('#');
                }
                prev_hash = true;
            } else {
                out.push(c);
                prev_hash = false;
            }
        }
        let out: String = out.chars().take(80).collect();
        format!("{}|{}", file, out)
    }
}

pub fn guard<T>(f: impl FnOnce() -> T) -> Result<T, PanicInfo> {
    GUARD_DEPTH.fetch_add(1, std::sync::atomic::Ordering::SeqCst);
    let r = catch_unwind(AssertUnwindSafe(f));
    GUARD_DEPTH.fetch_sub(1, std::sync::atomic::Ordering::SeqCst);
    match r {
        Ok(v) => Ok(v),
        Err(_) => {
            let (location, message) = LAST_PANIC.lock().unwrap().take().unwrap_or_default();
            Err(PanicInfo { location, message })
        }
    }
}

// ---------- report ----------
pub struct Report {
    pub family: String,
    pub evaluations: u64,
    pub nontrivial: HashSet<u64>,
    pub samples: Vec<Value>,
    pub failures: Vec<Value>,
    pub dist: BTreeMap<String, u64>,
    pub model_cases: u64,
    pub extra: BTreeMap<String, Value>,
}
impl Report {
    pub fn new(family: &str) -> Self {
        Report {
            family: family.to_string(),
            evaluations: 0,
            nontrivial: HashSet::new(),
            samples: vec![],
            failures: vec![],
            dist: BTreeMap::new(),
            model_cases: 0,
            extra: BTreeMap::new(),
        }
    }
    pub fn count(&mut self, key: &str) {
        *self.dist.entry(key.to_string()).or_insert(0) += 1;
    }
    pub fn add(&mut self, key: &str, n: u64) {
        *self.dist.entry(key.to_string()).or_insert(0) += n;
    }
    /// one evaluated case; `nontrivial_key` is Some(hash of canonical form) when the case is
    /// non-trivial by the family's rule
    pub fn case(&mut self, nontrivial_key: Option<u64>) {
        self.evaluations += 1;
        if let Some(k) = nontrivial_key {
            self.nontrivial.insert(k);
        }
    }
    pub fn sample(&mut self, v: Value) {
        if self.samples.len() < 3 {
            self.samples.push(v);
        }
    }
    /// a direct failure of a property on the implementation
    pub fn fail(&mut self, props: &[&str], signature: &str, what: &str, replay: Value) {
        if self.failures.len() < 200 {
            self.failures.push(json!({
                "properties": props, "signature": signature, "what": what, "replay": replay
            }));
        }
    }
    pub fn to_json(&self) -> Value {
        json!({
            "family": self.family,
            "evaluations": self.evaluations,
            "distinct_nontrivial": self.nontrivial.len(),
            "samples": self.samples,
            "failures": self.failures,
            "distribution": self.dist,
            "model_cases": self.model_cases,
            "extra": self.extra,
        })
    }
}

pub fn fnv(data: &[u8]) -> u64 {
    let mut h: u64 = 0xcbf29ce484222325;
    for b in data {
        h ^= *b as u64;
        h = h.wrapping_mul(0x100000001b3);
    }
    h
}

pub fn hex(b: &[u8]) -> String {
    let mut s = String::with_capacity(b.len() * 2);
    for x in b {
        let _ = write!(s, "{:02x}", x);
    }
    s
}
pub fn unhex(s: &str) -> Vec<u8> {
    (0..s.len() / 2)
        .map(|i| u8::from_str_radix(&s[2 * i..2 * i + 2], 16).unwrap())
        .collect()
}

/// Writer of sharded Coq case files.  Each case is a Coq term of type `bool` (or whatever
/// `ty` says); shard k is `cases_k.v`, containing `Eval vm_compute in [c0; c1; ...]`.
pub struct CaseWriter {
    pub dir: String,
    pub prefix: String,
    pub header: String,
    pub per_shard: usize,
    cur: Vec<String>,
    pub ids: Vec<Value>, // one descriptor per case, in global order
    shard: usize,
    pub total: usize,
}
impl CaseWriter {
    pub fn new(dir: &str, prefix: &str, header: &str, per_shard: usize) -> Self {
        std::fs::create_dir_all(dir).unwrap();
        CaseWriter {
            dir: dir.to_string(),
            prefix: prefix.to_string(),
            header: header.to_string(),
            per_shard,
            cur: vec![],
            ids: vec![],
            shard: 0,
            total: 0,
        }
    }
    pub fn push(&mut self, term: String, descr: Value) {
        self.cur.push(term);
        self.ids.push(descr);
        self.total += 1;
        if self.cur.len() >= self.per_shard {
            self.flush();
        }
    }
    pub fn flush(&mut self) {
        if self.cur.is_empty() {
            return;
        }
        let path = format!("{}/{}_{:03}.v", self.dir, self.prefix, self.shard);
        let mut s = String::new();
        s.push_str(&self.header);
        s.push('\n');
        for (i, c) in self.cur.iter().enumerate() {
            let _ = writeln!(s, "Definition c{} : bool := {}.", i, c);
        }
        s.push_str("Eval vm_compute in [");
        for i in 0..self.cur.len() {
            if i > 0 {
                s.push(';');
            }
            let _ = write!(s, "c{}", i);
        }
        s.push_str("].\n");
        std::fs::write(&path, s).unwrap();
        self.cur.clear();
        self.shard += 1;
    }
    /// a group of cases sharing definitions: written as one shard of its own
    pub fn push_group(&mut self, defs: &[String], cases: Vec<(String, Value)>) {
        self.flush();
        if cases.is_empty() {
            return;
        }
        let path = format!("{}/{}_{:03}.v", self.dir, self.prefix, self.shard);
        let mut s = String::new();
        s.push_str(&self.header);
        s.push('\n');
        for d in defs {
            s.push_str(d);
            s.push('\n');
        }
        let n = cases.len();
        for (i, (c, descr)) in cases.into_iter().enumerate() {
            let _ = writeln!(s, "Definition c{} : bool := {}.", i, c);
            self.ids.push(descr);
            self.total += 1;
        }
        s.push_str("Eval vm_compute in [");
        for i in 0..n {
            if i > 0 {
                s.push(';');
            }
            let _ = write!(s, "c{}", i);
        }
        s.push_str("].\n");
        std::fs::write(&path, s).unwrap();
        self.shard += 1;
    }
    pub fn finish(mut self) -> Vec<Value> {
        self.flush();
        let path = format!("{}/{}_index.json", self.dir, self.prefix);
        std::fs::write(&path, serde_json::to_string(&self.ids).unwrap()).unwrap();
        self.ids
    }
}
