#!/bin/bash
# commit everything except DELETIONS of evidence files (a running check removes its evidence file first)
cd "$(dirname "$0")/.."
git add -A -- . ':!evidence'
for f in evidence/*.json; do [ -s "$f" ] && python3 -c "import json,sys;json.load(open('$f'))" 2>/dev/null && git add "$f"; done
git commit -qm "${1:-wip}" && git log --oneline | head -1
