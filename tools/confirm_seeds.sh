#!/bin/bash
# tools/confirm_seeds.sh <name>...   — confirm seeded changes in ONE scratch worktree of /repo (reused, incremental):
# demo passes without the patch, fails with it, and the repository's own suite passes with it.
# Appends one JSON line per seed to work/confirm_seeds.log.  Development tool.
V="$(cd "$(dirname "$0")/.." && pwd)"
CD=/tmp/confirm_$1; WT=$CD/repo
mkdir -p $CD "$V/work"
git -C /repo worktree prune
[ -d "$WT" ] || git -C /repo worktree add -q --detach "$WT" HEAD || exit 2
for name in "$@"; do
  d="$V/seeded/$name"
  ( cd "$WT" && git checkout -q -- . && git clean -fdq rust/automerge/tests rust/hexane/tests 2>/dev/null; true )
  git -C "$WT" checkout -q --detach "$(git -C /repo rev-parse HEAD)"
  demo="$d/demo.rs"; [ -f "$demo" ] || demo="$d/seed_demo.rs"
  crate=automerge; grep -q "^diff --git a/rust/hexane" "$d/patch.diff" && crate=hexane
  cp "$demo" "$WT/rust/$crate/tests/seed_demo.rs"
  ( cd "$WT/rust" && CARGO_NET_OFFLINE=true timeout 3000 cargo test -p $crate --test seed_demo --offline >$CD/$name.without.log 2>&1 ); rc_without=$?
  if ! git -C "$WT" apply "$d/patch.diff"; then echo "{\"seed\":\"$name\",\"error\":\"patch does not apply\"}" >> "$V/work/confirm_seeds.log"; continue; fi
  ( cd "$WT/rust" && CARGO_NET_OFFLINE=true timeout 3000 cargo test -p $crate --test seed_demo --offline >$CD/$name.with.log 2>&1 ); rc_with=$?
  rm -f "$WT/rust/$crate/tests/seed_demo.rs"
  ( cd "$WT/rust" && timeout 6000 cargo nextest run --workspace --no-fail-fast --tool-config-file pb:/w/lib/nextest.toml --profile pb --test-threads 8 --offline >$CD/$name.suite.log 2>&1 ); rc_suite=$?
  summary="$(grep -E "Summary" $CD/$name.suite.log | tail -1 | sed 's/"/ /g')"
  echo "{\"seed\":\"$name\",\"demo_without_patch_rc\":$rc_without,\"demo_with_patch_rc\":$rc_with,\"suite_with_patch_rc\":$rc_suite,\"suite\":\"$summary\"}" >> "$V/work/confirm_seeds.log"
done
( cd "$WT" && git checkout -q -- . )
git -C /repo worktree remove --force "$WT"
rm -rf $CD
