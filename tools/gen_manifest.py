#!/usr/bin/env python3
"""Write MANIFEST.json from tools/props.py (one source of truth for what is claimed)."""
import json, os, sys
ROOT = os.path.join(os.path.dirname(os.path.abspath(__file__)), "..")
sys.path.insert(0, os.path.dirname(os.path.abspath(__file__)))
from props import PROPS, NOT_APPLICABLE  # noqa

ids = [json.loads(l)["id"] for l in open(os.path.join(ROOT, "properties.jsonl"))]
baseline = json.load(open("/root/.vp/BASELINE.json"))["cmd"] if os.path.exists("/root/.vp/BASELINE.json") else ""
checks, na = [], []
for pid in ids:
    if pid in PROPS:
        c = PROPS[pid]
        checks.append({
            "property_id": pid,
            "quick_cmd": "./check %s --tier quick" % pid,
            "thorough_cmd": "./check %s --tier thorough" % pid,
            "evidence_file": "/verif/evidence/%s.json" % pid,
            "replay_cmd_template": "./check %s --replay {path}" % pid,
            "engine": "coq+amv",
            "level_claimed": {
                "category": "proof",
                "text": c["level_text"],
                "design_ref": "DESIGN.md §6 %s" % pid,
            },
            "level_note": c.get("level_note", "Trusted: Coq 8.16.1 kernel + vm_compute; constants translator; hand-written model tied to the code by the correspondence harness (DESIGN.md §8)."),
            "technique": c.get("technique", "Coq proof over a hand-written model + differential correspondence check against the implementation"),
        })
    else:
        na.append({"property_id": pid, "reason": NOT_APPLICABLE.get(pid, "not claimed in this revision: the Coq development does not cover it yet")})
man = {
    "version": 1,
    "setup_cmd": "bash tools/setup.sh",
    "hooks": {
        "guard": "--cfg automerge_verif",
        "enable": "RUSTFLAGS=\"--cfg automerge_verif\" cargo build --offline (in /verif/harness, path dependencies on /repo/rust/{automerge,hexane})",
        "baseline_off_cmd": baseline,
        "source_commits": [],
        "add_only": True,
    },
    "engines": [
        {"name": "coq+amv", "path": "/verif/check",
         "serves_properties": [c["property_id"] for c in checks],
         "kind_free_text": "Coq 8.16.1 development (coq/theories) + Rust correspondence/search harness (harness/) driven by ./check"}
    ],
    "checks": checks,
    "not_applicable": na,
    "notes": "See DESIGN.md. Every check: proof obligations (make Props/<id>.vo, Print Assumptions, pins) + correspondence of the Coq model with the implementation on generated cases + direct search on the implementation.",
}
json.dump(man, open(os.path.join(ROOT, "MANIFEST.json"), "w"), indent=1)
print("checks:", len(checks), "not_applicable:", len(na))
