#!/bin/bash
# tools/mutant_test.sh <name> <patch.diff> <prop> [<prop> ...]
# Run the checks of the given properties against a MUTATED copy of /repo without touching /repo or
# /verif: a scratch git worktree of /repo gets the patch, a scratch copy of /verif (tracked files +
# build output) gets its harness pointed at that worktree.  Prints one line per property
# (CAUGHT / MISSED) and removes everything afterwards.  TIER=quick|thorough (default quick).
# This is a development tool; the registered checks never use it.
set -u
name="$1"; patch="$(readlink -f "$2")"; shift 2
tier="${TIER:-quick}"
V="$(cd "$(dirname "$0")/.." && pwd)"
MR="/tmp/mt/$name/repo"; MV="/tmp/mt/$name/verif"
rm -rf "/tmp/mt/$name"; mkdir -p "/tmp/mt/$name"
git -C /repo worktree prune
git -C /repo worktree add -q --detach "$MR" HEAD || exit 2
if ! git -C "$MR" apply "$patch"; then echo "PATCH DOES NOT APPLY"; git -C /repo worktree remove --force "$MR"; exit 2; fi
mkdir -p "$MV"
( cd "$V" && git ls-files -z | xargs -0 cp --parents -t "$MV" )
cp -a "$V/coq/theories/." "$MV/coq/theories/"
cp -a "$V/coq/Makefile" "$V/coq/Makefile.conf" "$V/coq/.Makefile.d" "$MV/coq/" 2>/dev/null
cp -a "$V/target" "$MV/target" 2>/dev/null
sed -i "s|/repo/rust|$MR/rust|g" "$MV/harness/Cargo.toml"
cp "$MR/rust/Cargo.lock" "$MV/harness/Cargo.lock"
rc_all=0
for p in "$@"; do
  out="/tmp/mt/$name/$p.log"
  ( cd "$MV" && VERIF_REPO="$MR" timeout 3000 ./check "$p" --tier "$tier" >"$out" 2>&1 )
  rc=$?
  if grep -q "^VIOLATION property=$p" "$out"; then
    echo "CAUGHT $name $p rc=$rc :: $(grep -m1 -A1 "^VIOLATION property=$p" "$out" | tr '\n' ' ' | cut -c1-300)"
  else
    echo "MISSED $name $p rc=$rc :: $(tail -1 "$out" | cut -c1-200)"
    rc_all=1
  fi
  mkdir -p "$V/work/mutants"; cp "$out" "$V/work/mutants/$name-$p.log"
done
git -C /repo worktree remove --force "$MR"
rm -rf "/tmp/mt/$name"
exit $rc_all
