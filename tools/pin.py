#!/usr/bin/env python3
"""(re)pin the statement files: coq/pins.json <- sha256 of each coq/theories/Props/*.v"""
import glob, hashlib, json, os
root = os.path.join(os.path.dirname(os.path.abspath(__file__)), "..", "coq")
pins = {os.path.basename(f)[:-2]: hashlib.sha256(open(f, "rb").read()).hexdigest()
        for f in glob.glob(os.path.join(root, "theories", "Props", "*.v"))}
json.dump(pins, open(os.path.join(root, "pins.json"), "w"), indent=1, sort_keys=True)
print(len(pins), "pinned")
