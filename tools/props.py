"""Per-property configuration of ./check (which harness families run, label, non-triviality rule)."""

# families: which properties treat a model/implementation disagreement in that family as a violation
FAMILY_SHARDS = {
    "bloom": {"oracle_for": ["C23", "C15", "C17"]},
}

HIST_RULE = ("histories: 2-4 replicas (actor ids chosen so that later actors often sort first, varying lengths) edit maps, "
             "lists, texts, counters, nested objects through the public API, commit, merge, switch actor, make empty changes; "
             "the union of their changes is delivered to fresh documents along 4 (thorough: 6) schedules (in order, reversed, "
             "one shuffled batch, shuffled small batches with duplicates) plus merge / save+load / shuffled load_incremental; "
             "historical reads at recorded head sets. Non-trivial: >=2 replicas and >=5 ops; distinct by the list of change hashes.")

PROPS = {
    "C23": dict(
        families=["bloom"],
        label="full",
        level_text="Full: theorems over a line-by-line model of sync/bloom.rs (no false negatives for any hash list, wire "
                   "round trip, every query on every decodable filter returns a boolean, parse never panics), tied to the code "
                   "by bit-exact correspondence of filter bytes, decoded fields and query answers.",
        rule="filters built from 0..400 (thorough: 5000) hashes incl. adversarial hashes (equal probes), queried with "
             "members and non-members; decoded filters from random and field-structured bytes (degenerate entries / "
             "bits-per-entry / probe counts, short and long bit arrays). Non-trivial: a filter with >=1 entry (build) "
             "or a decoded filter that carries bits (parse); distinct by wire bytes.",
        assumptions=["bits_capacity's f64 arithmetic equals the exact ceiling for products below 2^53"],
    ),
    "C01": dict(
        families=["hist"],
        label="full for order-independence of the interpretation, heads and the causal queue; spec-level for the columnar op-set merge",
        level_text="Theorems: the observation is a function of the set of operations (any permutation of a duplicate-free op list "
                   "gives the same registers, conflict sets, sequence order, counters), heads are a function of the set of applied "
                   "changes, and (QueueProofs) any two error-free delivery runs of the same set of changes apply the same set. "
                   "The implementation's columnar merge is not modelled: it is tied to the model by comparing, for every generated "
                   "history and several delivery schedules, heads / missing deps / every register of every object with the model, "
                   "and by comparing replicas that took different paths (apply_changes in any order and batching, merge, save+load, "
                   "load_incremental) with each other.",
        rule=HIST_RULE,
    ),
    "C05": dict(
        families=["hist", "conf"],
        label="full",
        level_text="Theorems over a model that mirrors apply_changes_batch / ChangeBatch::push / ChangeQueue (dedup by hash, "
                   "duplicate (actor,seq) checks in the order the code performs them, release to a fixpoint): applied changes are "
                   "always dependency-closed, nothing applicable stays queued, after any error-free run applied = delivered changes "
                   "reachable from the empty document and queue = the rest (so arrival order is irrelevant), and get_missing_deps "
                   "is exactly the specified set. Tied to the code by comparing status, heads and get_missing_deps after EVERY "
                   "delivery of every schedule (reversed, shuffled, batched, duplicated; conflicting actor/seq universes).",
        rule=HIST_RULE + " conf: universes where two diverged replicas share one actor id (conflicting sequence numbers), "
             "delivered in shuffled small batches and then re-delivered; non-trivial when at least one call was rejected.",
    ),
    "C07": dict(
        families=["hist"],
        label="full",
        level_text="Theorem obs_at_eq_restrict: for every well-formed history (decidable predicate, checked on each generated history) "
                   "and every head set, the observation computed through the per-actor clock equals the observation of the document "
                   "restricted to the ancestors of those heads; the clock covers an op iff its change is an ancestor. Tied to the code by "
                   "comparing get_all/keys/length at heads with the model for recorded head sets (concurrent branches, merged states), and "
                   "by comparing the same reads on fork_at(heads), whose heads must equal the given heads.",
        rule=HIST_RULE,
    ),
    "C38": dict(
        families=["conf", "hist"],
        label="full (under seq_chain: every change has its actor's previous change among its ancestors)",
        level_text="Invariant theorem: no document reached by accepted deliveries holds, applied or queued, two different changes with "
                   "one (actor, seq); applied sequence numbers of an actor lie in 1..n. The model mirrors the three duplicate checks of "
                   "the code. Tied to the code on universes in which two diverged replicas share an actor id: status of every call "
                   "(accepted / DuplicateSeqNumber), heads, missing deps and state compared with the model; direct search for a "
                   "document with a repeated (actor, seq) and for a document that cannot be saved and reloaded.",
        rule="conf universes (see C05) + hist universes. Non-trivial: at least one rejected call (conf).",
    ),
    "C06": dict(
        families=["conf"],
        label="full for applied state / heads / two of three error exits; REFUTED for the queue on the third (known finding)",
        level_text="Theorems: a failed apply_changes never changes the applied changes (hence heads and every read), never adds to the "
                   "queue, and changes nothing when the collision is with a queued change or inside the batch. The full statement is "
                   "refuted (C06_queue_unchanged_refuted): a collision with an applied (actor,seq) prunes held changes before returning "
                   "the error — reported as KNOWN-FINDING. Tied to the code by snapshotting heads, full state and get_missing_deps "
                   "around every rejected call, by comparing the post-error state with the model (which mirrors the pruning), and by "
                   "save+load after every call. Transaction-level errors are covered under C03.",
        rule="conf universes (see C05). Non-trivial: at least one rejected call.",
    ),
    "C02": dict(
        families=["hist"],
        label="spec-level: the model is the oracle",
        level_text="The model's `observe` is the independent op-based reading (multi-value registers, visibility by successors, "
                   "counters, RGA order by ascending-id insertion). Theorems characterise it exactly as the property words it "
                   "(visible iff not named by a non-increment / non-counter successor; counter = initial + increments; winner = "
                   "greatest id). The implementation's state after every delivery schedule is compared register by register "
                   "(get_all of every key / index of every object, conflict sets with op ids) against the model applied to the ops "
                   "decoded from the changes; a disagreement is a violation with the history as replay.",
        rule=HIST_RULE,
    ),
}

STORE_RULE = ("files: a writer (4 text encodings, compressed and uncompressed saves) edits maps / lists / text / counters, "
              "merges concurrent edits from a second replica, saves once and appends 1-4 save_incremental pieces. "
              "Non-trivial: a file of >= 2 chunks; distinct by file bytes.")

PROPS["C13"] = dict(
    families=["store"],
    label="full for the framing and the chunk loops of load / load_changes; the chunk body parsers, SHA-256, inflate and the "
          "CRDT-level apply are parameters of the theorems",
    level_text="Theorem C13_truncated_load over a byte-level model of storage/chunk.rs Header::parse / Chunk::parse and of the chunk "
               "loops of load_with_options and load_changes: for every hash function, body parser and apply function, a file of "
               "written chunks cut at ANY byte loads (partial loads allowed) to exactly what the file cut at the last chunk "
               "boundary loads to, the empty document for the empty cut, an error inside the first chunk; a strict load fails unless "
               "the cut is a chunk boundary (prefix-freeness of the framing, C13_prefix_free); the loaders never panic. Tied to the "
               "code by cutting every generated file at EVERY byte and comparing both loaders with the documents at the chunk "
               "boundaries (heads, state, change bytes, missing deps), and by comparing the model's chunk boundaries (its header "
               "parser run over the file) with the cut points at which the implementation's strict load succeeds.",
    rule=STORE_RULE + " Every byte offset 0..len of every file is one evaluation pair (partial + strict).",
    assumptions=["SHA-256 output is 32 bytes (theorem hypothesis: >= 4)",
                 "chunk bodies, inflate and apply_changes are parameters of the model (not modelled here)"],
)
PROPS["C12"] = dict(
    families=["store"],
    label="full for framing + refeed idempotence of the causal queue; the columnar chunk bodies are parameters (spec-level there)",
    level_text="Theorems: any concatenation of written chunks loads (load and load_incremental) to the changes of all chunks, in "
               "order, applied to the empty / the given document (C12_concat_loads, C12_load_incremental, over the model of "
               "Chunk::parse and the chunk loops); delivering changes a document already holds, applied or queued, returns the same "
               "document (C12_refeed_no_effect, over the model of apply_changes). That a chunk body decodes to the changes the writer "
               "had is outside the model: it is checked on the implementation by comparing, for every generated writer, the load of "
               "save + incremental pieces at every piece end with the writer's in-memory document at that point, readers fed the "
               "pieces through load_incremental in order / shuffled / duplicated, re-feeding, and save_after(heads).",
    rule=STORE_RULE,
    assumptions=["chunk bodies (columnar codec) are parameters of the model; their round trip is checked differentially"],
)

PROPS["C14"] = dict(
    families=["store"],
    label="full for the framing and checksum of uncompressed chunks, up to a collision of the 4-byte checksum (hash is a parameter); "
          "REFUTED for compressed change chunks (known finding); chunk bodies are parameters",
    level_text="Theorems over the model of Header::parse / Chunk::parse + checksum_valid: every accepted uncompressed chunk is byte for "
               "byte the writer's encoding of the (type, data) it carries (C14_accepted_is_canonical, uses the canonical-LEB128 "
               "theorem); hence bytes that stand where a written chunk stood but differ from it are accepted only as a DIFFERENT "
               "(type, data) pair with the same 4-byte checksum (C14_rejected_or_collision), and are rejected unconditionally when only "
               "the checksum field was hit (C14_checksum_field_hit). C14_compressed_refuted: a compressed change chunk is accepted for "
               "every deflate stream that inflates to the same bytes - reported as KNOWN-FINDING (DEFLATE padding bits). Tied to the "
               "code by flipping EVERY bit of generated files (save + incremental saves), bundles, raw and compressed root changes "
               "and loading each: a panic or an accepted load is a violation; the model's header parser is compared with the "
               "implementation's chunk boundaries.",
    rule=STORE_RULE + " C14: every single-bit flip of each target is one evaluation. Non-trivial: a target of >= 1 chunk; distinct by bytes.",
    assumptions=["SHA-256 is a parameter: rejection is proved up to a collision of its first 4 bytes",
                 "chunk bodies and inflate are parameters of the model"],
)

PROPS["C11"] = dict(
    families=["store", "hist", "meta"],
    label="partial: framing proved; the columnar document codec is a parameter of the model and is checked differentially",
    level_text="Theorems over the model of Chunk::parse and load_with_options: the output of save is one document chunk and loading "
               "it, strictly or not, is exactly its body's changes applied to the empty document, whatever stays held "
               "(C11_load_saved_document_partial); a written chunk parses back to its type and body and leaves the rest "
               "(C11_parse_written). NOT proved: that the columnar body save writes decodes to the document's changes and state "
               "(op_set2 / hexane columns are not modelled). That part is checked on the implementation: for every generated "
               "document (4 text encodings, concurrent merges, with and without held orphan changes) and each of deflate x "
               "retain_orphans, load(save(doc)) is compared with doc on heads, every register of every object, texts, change bytes, "
               "missing deps and reads at historical heads, and save(load(save(doc))) with save(doc) byte for byte.",
    rule=STORE_RULE + " C11: each (document, deflate, retain_orphans) triple is one evaluation.",
    assumptions=["chunk bodies (columnar codec) are parameters of the model; their round trip is checked differentially, not proved"],
)

NOT_APPLICABLE = {
    "C36": "C API memory safety and leak freedom across the FFI boundary is a property of allocator and pointer provenance "
           "at run time; no executable Gallina model can exhibit a use-after-free or a leak, and the crate is a staticlib "
           "that cannot be linked into the harness (DESIGN.md §10).",
}

# per-property configuration added later lives in tools/props_d/<ID>.py (one file per property, so that
# independent work does not collide); each file is executed with PROPS / NOT_APPLICABLE / HIST_RULE /
# STORE_RULE in scope and adds its entry: PROPS["Cxx"] = dict(...)
import glob as _glob
import os as _os
for _f in sorted(_glob.glob(_os.path.join(_os.path.dirname(_os.path.abspath(__file__)), "props_d", "*.py"))):
    exec(compile(open(_f).read(), _f, "exec"), {"PROPS": PROPS, "NOT_APPLICABLE": NOT_APPLICABLE,
                                                "HIST_RULE": HIST_RULE, "STORE_RULE": STORE_RULE,
                                                "FAMILY_SHARDS": FAMILY_SHARDS})
