"""Per-property configuration of ./check (which harness families run, label, non-triviality rule)."""

# families: which properties treat a model/implementation disagreement in that family as a violation
FAMILY_SHARDS = {
    "bloom": {"oracle_for": ["C23", "C15", "C17"]},
}

PROPS = {
    "C23": dict(
        families=["bloom"],
        label="full",
        level_text="Full: theorems over a line-by-line model of sync/bloom.rs (no false negatives for any hash list, wire "
                   "round trip, every query on every decodable filter returns a boolean, parse never panics), tied to the code "
                   "by bit-exact correspondence of filter bytes, decoded fields and query answers.",
        rule="filters built from 0..400 (thorough: 5000) hashes incl. adversarial hashes (equal probes), queried with "
             "members and non-members; decoded filters from random and field-structured bytes (degenerate entries / "
             "bits-per-entry / probe counts, short and long bit arrays). Non-trivial: a filter with >=1 entry (build) "
             "or a decoded filter that carries bits (parse); distinct by wire bytes.",
        assumptions=["bits_capacity's f64 arithmetic equals the exact ceiling for products below 2^53"],
    ),
}

NOT_APPLICABLE = {
    "C36": "C API memory safety and leak freedom across the FFI boundary is a property of allocator and pointer provenance "
           "at run time; no executable Gallina model can exhibit a use-after-free or a leak, and the crate is a staticlib "
           "that cannot be linked into the harness (DESIGN.md §10).",
}
