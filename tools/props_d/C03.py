PROPS["C03"] = dict(
    families=["edit"],
    label="full for put / put_object / insert / insert_object / delete / increment on maps, lists and text and for error "
          "paths; partial for splice (model + correspondence only) ; marks and blocks are outside the model (direct checks only)",
    level_text="Model Crdt/Local.v mirrors TransactionInner (next_id, local_map_op, local_list_op, do_insert, inner_splice, "
               "resolve_action, the list / text index seeks, three text encodings). Theorems (Crdt/LocalProofs.v) state, for any "
               "well-formed op set (decidable predicate checked on every generated history), what each call does to `observe`: the "
               "register written, every other register and object unchanged, the sequence after an insert = firstn i ++ [new] ++ "
               "skipn i, deletes, increments incl. conflicted registers, created objects, and that a failing call changes nothing. "
               "Tied to the code by the family `edit`: every transaction of every generated program is replayed in the model and "
               "compared call by call (error class, pending op count, full observation inside the open transaction) and op by op "
               "with the committed change (id, obj, key, insert, action, pred), through manual transactions and AutoCommit, in "
               "three text encodings; direct checks: failed calls change nothing, frame (other objects untouched), created ids.",
    rule="programs: 1-2 replicas (forked, concurrent edits, merges), 3-6 (thorough 3-9) transactions of 2-9 (2-14) calls over maps, "
         "lists, texts (multi-width and zero-width elements), counters, nested and deleted objects; about 20 % of the calls from a "
         "labelled invalid stream (unknown / foreign object, wrong key kind, index out of range, increment of a non-counter, put on a "
         "deleted index); every sixth program is direct-only (marks, blocks, grapheme clusters). Non-trivial: a program with >= 5 calls; "
         "distinct by its call log.",
    assumptions=["marks, blocks, isolated transactions and the GraphemeCluster encoding are outside the model"],
)
