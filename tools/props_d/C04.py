META_RULE = ("histories: 1-5 replicas (AutoCommit and manual Automerge documents, actor ids with random first byte so that "
             "later actors often sort first) driven through the public API only: transactions of 0-3 edits (maps, list, "
             "text, counter), empty changes, isolate(heads) / integrate, transaction_at(heads) (current heads, earlier "
             "head sets, arbitrary one or two applied hashes), fork, merge, set_actor to a new actor or back to an "
             "earlier own actor, save+load in the middle, apply_changes of a shuffled part of another replica's history. "
             "Non-trivial: >= 2 actors and >= 5 created changes; distinct by the list of created change hashes.")

PROPS["C04"] = dict(
    families=["meta"],
    label="full",
    level_text="Theorems over a line-by-line model of transaction_args / isolate_actor / with_concurrency / export / "
               "update_history (Crdt/Commit.v): the created change has the next seq of the actor it is written as "
               "(above every applied seq of that actor), start_op above every op of every applied change (isolated or not: "
               "the code takes the maximum over all applied changes), deps = current heads plus the actor's previous change "
               "(sorted, duplicate-free) when not isolated, deps = the isolation heads and actor = first concurrency level "
               "whose latest op is covered by the clock at those heads when isolated; and, as an invariant of EVERY sequence "
               "of deliveries and commits from the empty document (induction over steps, using the causal-queue theorems), the "
               "incrementally maintained heads (heads - deps + hash) are exactly the applied changes no applied change "
               "depends on, the applied changes are dependency-closed. Also proved: the previous change of the actor an isolated transaction writes as is ALWAYS an "
               "ancestor of the isolation heads (C04_isolated_prev_is_ancestor; the repaired isolate_actor tests the sequence "
               "clock, not op counters), every created change - plain, empty, isolated - continues its actor's chain "
               "(C04_commit_continues_chain), and each actor's applied changes form a chain in every state reached by commits and "
               "by deliveries of chain-continuing changes (C04_chain_invariant). Tied to the code by evaluating the model on the changes "
               "the replica had applied when each transaction started and comparing (actor, seq, start_op, sorted deps) of "
               "EVERY created change, and get_heads after EVERY step (with heads_of and with the incremental fold); the same "
               "statements (and the chain property of every applied set) are also checked directly on the implementation in ten times as many histories; a directed probe replays the history of the repaired defect fd4a60d8b.",
    rule=META_RULE,
    assumptions=["a created change never receives the hash of a change the document already holds (no SHA-256 collision): hypothesis run_fresh / step_fresh",
                 "delivered (remote) changes continue their actor's chain: hypothesis run_chain_ok (next seq - the code asserts it - and descent from the actor's previous change)",
                 "isolate_actor's unbounded loop is run with fuel = number of applied changes + 1 in the model"],
)
