# C06 also runs the txn family since round 4: rejected editing calls inside (scoped) transactions must leave no pending op
# (generic check in run_calls + probe_scoped_rejected_calls); only failures tagged C06 count for this property.
PROPS["C06"]["families"] = ["conf", "txn"]
PROPS["C06"]["rule"] = PROPS["C06"]["rule"] + (" txn: every rejected call of the generated transaction programs (plain and scoped to older "
    "heads) must leave pending_ops unchanged; fixed probe of nine calls whose index lies between the scoped and the current length.")
