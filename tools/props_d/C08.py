PROPS["C08"] = dict(
    families=["patch"],
    label="spec-level: proved applier and generator over the model; the implementation's diff patches are validated by the applier "
          "(REFUTED on the implementation for two input classes: known findings)",
    level_text="Model Crdt/Patch.v: the materialized view (hydrate::Value with object ids, conflict flags, counters, texts as unit "
               "sequences of the document's encoding), the nine PatchActions of patches/patch.rs, an applier mirroring hydrate.rs "
               "Value::apply / hydrate/{map,list,text}.rs (path walk, Put of an object creates an empty object, Conflict only sets the "
               "flag, Increment adds to a counter, Mark is no state) that additionally checks the object ids along the path, and a "
               "model-level generator diff. Theorems (Crdt/PatchProofs.v): for ANY two well-formed views apply_patches (diff v1 v2) v1 = "
               "Some v2 (nested objects, conflicts appearing and disappearing, counters, text, every encoding), per-object version, "
               "round trip, determinism, frame (a patch changes nothing off its path) and shell preservation. The implementation's "
               "generator (iter/{doc,map_range,list_range,spans}.rs, patch_log.rs, patch_builder.rs) is not mirrored; it is tied to the "
               "model by applying its patches for recorded head pairs with the proved Coq applier (chk_apply), with a Rust mirror of that "
               "applier (every case) and with hydrate::Value::apply_patches, to the state read at H1 and comparing with the state at H2.",
    rule="histories: fam_hist::build_universe (code points) and own edit programs in code points / UTF-8 / UTF-16 (2-3 replicas; maps, "
         "lists, texts with multi-unit characters, counters with increments, concurrent puts on few keys, object overwrites, deletes, "
         "merges); up to 5 recorded head sets (concurrent branches, merged states, sometimes the empty document), ALL ordered pairs; "
         "whole-document diff plus diff_obj (recursive and not) for 2 nested objects; 4 scripted scenarios. Non-trivial: a pair with "
         "at least one patch; distinct by (heads, universe).",
    assumptions=["marks and the contents of blocks inside a text are not part of the compared state",
                 "counter arithmetic of the applier is in Z (no i64 overflow)",
                 "the state at a head set is what map_range_at / list_range_at / text_at read (C07); disagreements with hydrate(heads) are reported separately"],
)
