PROPS["C09"] = dict(
    families=["patch"],
    label="spec-level: composition and model-level soundness proved, local map-key patches proved (partial), the emitted batches of "
          "every mutating path validated by the proved applier (REFUTED on the implementation for several input classes around "
          "counters and conflicts: known findings)",
    level_text="Over Crdt/Patch.v (see C08): apply_patches (p1 ++ p2) = apply p2 after p1; for any before / after views the model-level "
               "patch list exists and is sound; local_action mirrors what TransactionInner::finalize_op logs for put / put_object / "
               "delete / increment of a map key, and the emitted patch maps what the view shows of the register before to what it must "
               "show after (C03's register semantics) — refuted for an increment of two conflicting counters "
               "(C09_local_increment_conflict_refuted, also found on the implementation). The receive-side generator (batch.rs, "
               "patch_log.rs) is not mirrored: a view kept ONLY by applying emitted patches (proved Coq applier chk_chain, its Rust "
               "mirror, and hydrate::Value::apply_patches) is compared with the document after every step.",
    rule="chains of 6-40 steps in three text encodings: AutoCommit + diff_incremental across local edits, commit, rollback, merge, "
         "apply_changes, load_incremental, sync, isolate / integrate; Automerge + PatchLog across transaction_log_patches (commit / "
         "rollback), apply_changes_log_patches, merge_and_log_patches, load_incremental_log_patches, "
         "receive_sync_message_log_patches, then current_state() and load with a patch log from the empty view. Non-trivial: a step "
         "with at least one patch; distinct by (patches, position).",
    assumptions=["marks are not part of the compared state", "list-index / text / insert / splice local patches are validated, not proved"],
)
