PROPS["C10"] = dict(
    families=["meta"],
    label="full for get_changes over the model (specification theorem + equivalence of the code's sequence-clock computation "
          "in every reachable state); spec-level for byte identity (checked on the implementation)",
    level_text="Theorems: get_changes(have) of the model is exactly the applied changes that are not ancestors of have, none "
               "twice, each after those of its dependencies that are returned (a dependency that is not returned is an ancestor of "
               "have), for every applied list built by deliveries and commits (C10_get_changes_spec, C10_built_reachable); what "
               "the code computes instead (a per-actor sequence clock, mirror of get_build_indexes) equals the specification "
               "whenever each actor's changes form a chain under the ancestor relation (C10_get_changes_impl_eq_spec), which is an "
               "invariant of every state reached by commits (plain, empty, isolated) and deliveries of chain-continuing changes "
               "(C10_get_changes_impl_reachable; before the repair fd4a60d8b an isolated commit after an empty change broke it). Byte identity and "
               "hash = SHA-256(chunk) cannot be exhibited by a model that stores changes verbatim: they are checked on the "
               "implementation: every change returned by get_changes(&[]), get_changes(have), get_change_by_hash, "
               "get_last_local_change, get_changes_added and the fields of get_changes_meta, after every merge, fork, partial "
               "apply_changes, save+load and at the end of every history, against the bytes first retrieved when the change was "
               "created; get_changes(have) for random have (heads, old head sets, non-head hashes, unknown hashes, empty) against "
               "the model (set and order) and against a direct ancestor walk.",
    rule="same histories as C04 (tools/props_d/C04.py). Non-trivial: >= 2 actors and >= 5 created changes.",
    assumptions=["SHA-256 is computed by the sha2 crate in the harness (not in Coq)",
                 "get_changes_added is specified as a set (other's applied changes that self has not applied); its depth-first walk is not modelled"],
)
