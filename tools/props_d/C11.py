# C11 after the document chunk body was brought into the model (worker w-doc): overrides the entry of tools/props.py
PROPS["C11"].update(dict(
    families=["store", "hist", "meta", "doc"],
    label="partial: chunk framing AND the document chunk body (Document::parse / Document::new: actors, heads, both column "
          "metadata blocks, data blocks, head indexes; DEFLATE a parameter) proved to round-trip, be canonical and never panic; "
          "the change-metadata columns (ChangeGraph::encode / ChangeGraphCols::load) modelled on the proved hexane codecs and "
          "checked differentially (their round trip is an example by computation, not yet a theorem); the op columns -> ops "
          "reconstruction stays a parameter, checked differentially",
    level_text="Theorems (Props/C11.v): C11_load_saved_document_partial and C11_parse_written (framing); C11_doc_body_roundtrip "
               "(parse_doc (write_doc d) = Ok d for every well-formed body and every DEFLATE), C11_doc_body_canonical (without "
               "compressed columns an accepted body re-encodes to the very bytes read and is well-formed), "
               "C11_parse_doc_no_panic (all byte strings, all DEFLATE functions), C11_parse_doc_count_bound, "
               "C11_doc_head_index_unchecked_refuted (the head indexes are parsed and never checked: two bodies, one document), "
               "C11_decode_change_cols_panics_refuted (ChangeGraphCols::load indexes max_ops with an untrusted dependency index: "
               "a C15 known finding), C11_load_saved_document_body_partial (the framing theorem with body CHUNK_DOCUMENT = "
               "parse_doc then decode_change_cols; the reconstruction of the changes from the op columns is the parameter recon). "
               "NOT proved: decode_change_cols (encode_change_cols ms) = Ok ms in general (example by vm_compute + correspondence), "
               "and that the op columns decode to the document's ops (op_set2 is not modelled). Those parts are checked on the "
               "implementation: family doc (saved documents parsed by the model to the implementation's actor table, heads, head "
               "indexes and per-change metadata, re-encoded to the same bytes; mutants of the header and the change columns "
               "compared on accept / reject) and family store (load(save(doc)) vs doc on heads, registers, texts, change bytes, "
               "missing deps, historical reads; save(load(save(doc))) byte-equal).",
    rule=STORE_RULE + " C11: each (document, deflate, retain_orphans) triple is one evaluation. Family doc: histories of 3-5 "
         "replicas (actor ids whose byte order differs from creation order, variable length), empty changes, messages none / "
         "empty / ASCII / multi-byte, timestamps 0 / +-1 / +-2^62 / epoch-scale, changes carrying 1-40 extra bytes (hand-framed), "
         "merges (several dependencies), every fourth history > 70 changes; each saved with save_nocompress() and save() "
         "(compressed columns: their inflated bytes instantiate the model's DEFLATE parameter) = one chk_doc case each; 14 "
         "(thorough 60) single-edit mutants per short document over the header region (column metadata: +-1 / low-bit flips only) "
         "and the change-metadata column data, checksum recomputed, Automerge::load under the panic guard = one chk_doc_mut case "
         "each. Non-trivial: a saved document with >= 2 actors and >= 5 changes, distinct by body bytes.",
    assumptions=["the op columns -> ops reconstruction (OpSet::load, ChangeCollector) and DEFLATE are parameters of the model; "
                 "their effect is checked differentially, not proved",
                 "decode_change_cols inverts encode_change_cols: example by computation and correspondence, not a theorem",
                 "only the public loader is observable: a mutant the model accepts may still be rejected by later stages "
                 "(op columns, hashes against heads); implementation panics on mutants are C15's subject and recorded there"],
))
