PROPS["C18"] = dict(
    families=["chg"],
    label="full for the change chunk container (every field, any number of dependencies / actors / columns, the column "
          "metadata checks, signed LEB128 time, UTF-8 message, raw and compressed framing); partial for the op columns: they are "
          "modelled line by line (legacy RLE / delta / boolean / raw codecs, ChangeOpsColumns::encode, try_from(Columns), "
          "ChangeOpsIter, verify_ops) and every change is decoded and re-encoded through the model, the value readers and the "
          "boolean decoder are proved, the RLE decoder is proved to panic on two inputs (refuted, reproduced), the general "
          "decode-after-encode theorem for op lists is stated but proved on instances only; spec-level for bundles (the bundle "
          "body is a parameter)",
    level_text="Theorems over a line-by-line model of Change::parse_following_header / ChangeBuilder::build (storage/change.rs), "
               "the parse.rs combinators, leb128_u64 / leb128_i64, RawColumns::parse (saturating offsets, normal order, deflate "
               "bit), the column layout state machine Columns::parse2 and ChangeOpsColumns::try_from: the reader inverts the "
               "writer on every well-formed body (C18_change_roundtrip_partial); the reader accepts ONLY the writer's output, so a "
               "parsed body re-encodes to the same bytes and decode / re-encode keeps the hash for any hash function "
               "(C18_change_canonical, C18_hash_stable_under_reencode); no input makes the reader panic, in particular the "
               "overflow-checked total_column_len cannot overflow (C18_parse_no_panic); composed with the chunk framing of "
               "Store/Chunk.v for raw (type 1) and compressed (type 2, DEFLATE a parameter) chunks; signed LEB128 round trip "
               "and canonicity on every i64. The op columns: Codec/ColEnc.v mirrors columnar/encoding/{rle,delta,boolean,raw}.rs and the "
               "`leb128` crate readers behind decodable_impls.rs as state machines (no run is ever expanded), Store/ChangeOps.v "
               "mirrors ChangeOp, ChangeOpsColumns::encode + raw_columns + RawColumns::from_iter (empty columns omitted), the "
               "column layout parser with its byte ranges, ChangeOpsColumns::try_from(Columns), ObjIdIter / KeyIter / ValueIter / "
               "OpIdListIter / ChangeOpsIter, validate_action_and_value, OpId::new and verify_ops (parse_change_full). Proved: the "
               "u64 / i64 / string readers invert the writers and never panic (C18_col_*), the boolean decoders never panic, the "
               "lazily bounded loop is bounded iteration; REFUTED by witness: the RLE decoder panics on a literal-run header of "
               "i64::MIN and on a null run of 2^63 items, and reading the ops of a change whose container parses can panic "
               "(also through OpId::new above u32::MAX) -- all reproduced through Change::from_bytes (known findings). NOT proved: "
               "decode_ops (encode_ops ops) = Ok ops for all well-formed op lists (ops_roundtrip_statement; the RLE / delta / "
               "boolean encoder invariants are missing): C18_ops_roundtrip_partial / C18_ops_long_runs_roundtrip_partial prove it "
               "on a 15-op list with every value type, marks, increments, deletes, head / element inserts, predecessors of three "
               "actors, all fourteen columns, and on 330 ops with runs across 64 / 128 items. NOT modelled: the hexane-based writer "
               "op_set2/change.rs write_change_ops that commits and get_changes use (tied to the modelled legacy writer by "
               "re-encoding every decoded change through the model and on the implementation), legacy::OpType::from_parts beyond "
               "its table (checker side), and the bundle body codec; C18_bundle_load_spec only says that loading a bundle chunk is "
               "applying whatever changes its body stands for. Tied to the code by comparing, for every change of generated histories and "
               "for hand-built ExpandedChanges (unicode messages, extra bytes, 0..130 dependencies, other actors, extreme times, "
               "empty ops), the model's parse of the chunk data with the implementation's fields and its re-encoding with the "
               "bytes; by evaluating the property directly (from_bytes(raw_bytes) / from_bytes(bytes()) same change and hash, "
               "decode -> Change::from same hash and bytes, bundles of random subsets incl. missing dependencies: byte-identical "
               "changes, load == apply_changes); by mutating the header region of change chunks (checksum recomputed) and "
               "comparing accept / reject and the accepted fields with the model; for the op columns (chk_chg_ops): the model's "
               "parse_change_full of the chunk data must give exactly the operations Change::decode() reports (actor ids through "
               "the change's actor table, predecessors in stored order), they must be well-formed, and encode_ops of them must be "
               "the chunk's column list byte for byte; and by mutating bytes INSIDE the op-column region (bit flips, special bytes, "
               "crafted columns: null runs of 2^63, i64::MIN headers, counters around u32::MAX, over-long LEBs, bad UTF-8, "
               "over-large strings, zero-length runs; truncated / extended / dropped / duplicated / swapped columns, changed "
               "specifications, shifted column boundaries; column metadata rewritten to match) and comparing accept / reject / "
               "panic of Change::from_bytes and the decoded operations (or the panic of decode()) with the model (chk_chg_ops_mut).",
    rule="changes of 60 (thorough: 400) generated multi-replica histories + 90 (600) hand-built ExpandedChanges, each checked "
         "directly; those of the first 12 (60) histories and all hand-built ones also through the model; 5 (8) bundles per "
         "history (all / causal prefix / suffix with missing deps / random subset / single change), each loaded into an empty "
         "document and one holding a prefix; 420 (3000) mutants of change chunk data (bit flips, byte insert / delete, field-aware "
         "edits of every header field and of the column metadata, synthetic time encodings); 64 (400) hand-built ExpandedChanges "
         "that stress the op columns (0 / 1 / 2..25 / 65..75 / 130..170 ops, every value type incl. unknown type codes, marks, "
         "increments, deletes, head / element keys, 0..5 predecessors of up to 5 actors, unicode / empty keys, repeated ops) and "
         "260 (2500) mutants of the op-column region. Non-trivial: a change with "
         "dependencies or ops, a bundle of >= 2 changes, a mutant that is not rejected outright; distinct by bytes.",
    assumptions=["the op columns are modelled and every generated change goes through the model, but decode_ops (encode_ops ops) "
                 "= Ok ops is proved on instances only (C18_ops_roundtrip_partial), not for all op lists",
                 "the model mirrors a build WITH overflow checks (the harness profile): the two RLE decoder panics are debug-build "
                 "panics (a release build wraps); the OpId::new panic is in every build",
                 "run counts are never expanded: a column declaring 2^60 values costs the model nothing; the implementation's time "
                 "and memory on such inputs belong to C17, not to this property",
                 "the hexane-based change writer (op_set2/change.rs) is not modelled; it is compared with the modelled legacy "
                 "writer on every generated change",
                 "DEFLATE (inflate) and the bundle body codec are parameters of the theorems",
                 "SHA-256 is a parameter (theorems hold for any hash function with >= 4 output bytes)",
                 "UTF-8 validity is modelled after Unicode Table 3-7 (what String::from_utf8 accepts)",
                 "a byte slice is shorter than 2^64 bytes (hypothesis of C18_change_canonical)"],
)
