PROPS["C18"] = dict(
    families=["chg"],
    label="full for the change chunk container (every field, any number of dependencies / actors / columns, the column "
          "metadata checks, signed LEB128 time, UTF-8 message, raw and compressed framing); partial: the op columns inside "
          "the column data are opaque bytes; spec-level for bundles (the bundle body is a parameter)",
    level_text="Theorems over a line-by-line model of Change::parse_following_header / ChangeBuilder::build (storage/change.rs), "
               "the parse.rs combinators, leb128_u64 / leb128_i64, RawColumns::parse (saturating offsets, normal order, deflate "
               "bit), the column layout state machine Columns::parse2 and ChangeOpsColumns::try_from: the reader inverts the "
               "writer on every well-formed body (C18_change_roundtrip_partial); the reader accepts ONLY the writer's output, so a "
               "parsed body re-encodes to the same bytes and decode / re-encode keeps the hash for any hash function "
               "(C18_change_canonical, C18_hash_stable_under_reencode); no input makes the reader panic, in particular the "
               "overflow-checked total_column_len cannot overflow (C18_parse_no_panic); composed with the chunk framing of "
               "Store/Chunk.v for raw (type 1) and compressed (type 2, DEFLATE a parameter) chunks; signed LEB128 round trip "
               "and canonicity on every i64. NOT proved: the op columns inside the column data (verify_ops, decode, the legacy "
               "re-encoder) and the bundle body codec; C18_bundle_load_spec only says that loading a bundle chunk is applying "
               "whatever changes its body stands for. Tied to the code by comparing, for every change of generated histories and "
               "for hand-built ExpandedChanges (unicode messages, extra bytes, 0..130 dependencies, other actors, extreme times, "
               "empty ops), the model's parse of the chunk data with the implementation's fields and its re-encoding with the "
               "bytes; by evaluating the property directly (from_bytes(raw_bytes) / from_bytes(bytes()) same change and hash, "
               "decode -> Change::from same hash and bytes, bundles of random subsets incl. missing dependencies: byte-identical "
               "changes, load == apply_changes); and by mutating the header region of change chunks (checksum recomputed) and "
               "comparing accept / reject and the accepted fields with the model.",
    rule="changes of 60 (thorough: 400) generated multi-replica histories + 90 (600) hand-built ExpandedChanges, each checked "
         "directly; those of the first 12 (60) histories and all hand-built ones also through the model; 5 (8) bundles per "
         "history (all / causal prefix / suffix with missing deps / random subset / single change), each loaded into an empty "
         "document and one holding a prefix; 420 (3000) mutants of change chunk data (bit flips, byte insert / delete, field-aware "
         "edits of every header field and of the column metadata, synthetic time encodings). Non-trivial: a change with "
         "dependencies or ops, a bundle of >= 2 changes, a mutant that is not rejected outright; distinct by bytes.",
    assumptions=["the op columns inside the column data of a change are opaque bytes in the model; their codec is checked "
                 "differentially (decode -> re-encode on the implementation), not proved",
                 "DEFLATE (inflate) and the bundle body codec are parameters of the theorems",
                 "SHA-256 is a parameter (theorems hold for any hash function with >= 4 output bytes)",
                 "UTF-8 validity is modelled after Unicode Table 3-7 (what String::from_utf8 accepts)",
                 "a byte slice is shorter than 2^64 bytes (hypothesis of C18_change_canonical)"],
)
