PROPS["C19"] = dict(
    families=["ids"],
    label="full for the codecs and for id / cursor resolution against an actor table; two degenerate value classes are REFUTED "
          "(known findings); what an element index means (cursor position) is C26's model, not this one",
    level_text="Theorems over line-by-line models of exid.rs (to_bytes / TryFrom<&[u8]> / Display), Automerge::import_obj, "
               "cursor.rs (to_bytes / TryFrom<&[u8]> incl. the version-0 form / Display / from_str), the hex and decimal text "
               "forms used by ActorId and ChangeHash (hex crate, u64::from_str), sync.rs Message::encode/decode (V1, V2, flags "
               "bitfield, have + Bloom filter, heads, need, opaque changes), sync/state.rs State::encode/decode and of the id "
               "resolution exid_to_opid / op_cursor_to_opid: decode(encode x) = x for every value in the range of the Rust types "
               "(u64 counters, byte strings, 32-byte hashes, sorted hash lists, decodable Bloom filters, flag bits below the "
               "bitfield marker); a decoded sync state is the persisted shared_heads plus the constants State::parse writes; the "
               "internal id an object id resolves to is the same for EVERY actor-index hint (right, stale, out of range) on any "
               "duplicate-free (in particular sorted) actor table, and in any two replicas that know the actor - whatever other "
               "actors they hold - it denotes the same (counter, actor); an id handed out by one replica, serialised and decoded, "
               "resolves in another to the same op (C19_exid_transport). Two value classes outside the side conditions do not "
               "round trip and are refuted by witness (flag byte with bit 7; Bloom filter with zero entries and non-default "
               "parameters) - KNOWN-FINDINGs. Every decoder is proved never to panic (lemmas *_no_panic, kept for C15). Tied to "
               "the code by byte-exact comparison of every encoding and of every decode result (accept / reject / fields) on "
               "generated and malformed inputs, and by resolving ids and cursors across real replicas whose actor tables differ.",
    rule="universes: 1-3 base actors build nested maps / lists / texts through the public API (forks, merges, deletes), 1-3 extra "
         "actors (sorting before, between and after the base actors, lengths 1-20) add unrelated changes; 2-4 replicas hold the base "
         "changes plus different subsets of the extras, so their sorted actor tables number the base actors differently. Every "
         "object id is imported in a producer replica, encoded (bytes, text), decoded and used in a resolver replica (object type, "
         "all registers / elements, cursor positions through the decoded id) - largest producer to smallest resolver first, so hints "
         "are stale or out of range; synthetic hints (0, len-1, len, len+1, 2^32-1, 2^32, usize::MAX), counters above u32::MAX and "
         "unknown actors; cursors (start, end, first / last / random element, both move modes) in bytes and text. Sync sessions run "
         "through the codec (every generated Message and State encoded, decoded, compared, the decoded message delivered), synthetic "
         "messages (0-3 heads / need, 0-2 have with Bloom filters, changes of length 0 / 127 / 128 / 300, all flag values, V1 / V2), "
         "unsorted hash lists (encoder debug assertion = model Panic). Malformed stream: random bytes, truncations, byte / bit "
         "flips, spliced extreme LEB128s into valid encodings of ids, cursors, states, messages; random and mutated strings (signs, "
         "leading zeros, u64 overflow, odd / non-hex actors, multi-byte characters) into import_obj, Cursor, ActorId, ChangeHash. "
         "Non-trivial: a resolution or cursor case between replicas with different actor tables, a message with heads / have / "
         "changes, a state with shared heads; distinct by (universe, id, replica pair) resp. wire bytes.",
    assumptions=["slice::binary_search on the strictly sorted, duplicate-free actor table returns the index of the equal element "
                 "(its documented contract); the model uses that index",
                 "u64::from_str / Display and the hex crate behave as modelled in Codec/Hex.v (compared on every generated and "
                 "malformed string)",
                 "encode_hashes' debug_assert (sorted hashes) is modelled as Panic: the harness is a debug build"],
)
FAMILY_SHARDS["ids"] = {"oracle_for": ["C19", "C15"]}
