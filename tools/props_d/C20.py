SYNC_RULE = ("sync sessions: peers start from random histories made through the editing API (2-4 replicas that edit, merge, "
             "switch actors; a quarter of the sessions give some peers an orphan change held in the queue), then a random "
             "schedule of generate / deliver-the-oldest-message / local edit+commit (a third of the sessions grind commits whose "
             "hash the partner's Bloom filter reports although the partner lacks it: real false positives) and, by session kind, "
             "read-only switches (new_read_only or set_read_only(true) at a random point, set_read_only(false) later with messages "
             "in flight) or connection drops with in-flight loss and reconnects with State::new / State::decode(State::encode) "
             "(3-4 peers, random topology); then edits stop and messages flow until a whole round is silent (budget 40+20*peers rounds). "
             "Every step is compared with the model: all fields of the message (heads, need, have.last_sync, filter wire bytes, set of "
             "carried change hashes incl. whole-document messages, flags) and ALL twelve fields of sync::State, plus heads and "
             "get_missing_deps of the document. Non-trivial: peers start with different change sets and at least one message "
             "carries changes; distinct by step log and change hashes.")
PROPS["C20"] = dict(
    families=["sync"],
    label="partial: safety proved for every step and every filter behaviour; quiescence => equal heads and the round bound explored",
    level_text="Theorems over the model of generate_sync_message / receive_sync_message_inner (Sync/Proto.v): a receive never "
               "loses a change and only adds changes carried by the message; applied changes grow and stay dependency-closed; "
               "whatever a generated message carries is held by the sender. Quiescence soundness and the round bound are "
               "explored on the implementation: every two-peer session (random interleaving of generate / in-order delivery / "
               "local edits, real Bloom false positives) is run until both peers return None with nothing in flight, within a "
               "round budget, and heads and full state are compared; every step is compared field by field with the model.",
    rule=SYNC_RULE,
    assumptions=["change_graph.get_hashes(heads) is modelled as 'not an ancestor of heads' (equal for per-actor chains, "
                 "ClockProofs.covered_iff_ancestor); the wire codec of messages is not part of this property"],
)
