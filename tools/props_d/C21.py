_SR = PROPS["C20"]["rule"]
PROPS["C21"] = dict(
    families=["sync"],
    label="partial: per-link safety and the reconnect / reset steps proved; convergence of connected components explored",
    level_text="Theorems over the model (Sync/Proto.v): State::decode(State::encode s) keeps only the shared heads; a fresh and a "
               "restored state always produce a message announcing the current heads (no reconnected peer waits silently); a peer "
               "whose partner names an unknown last_sync answers with a reset message and keeps its state, and the receiver of a "
               "reset forgets last_sync; per-link safety as in C20. Convergence is explored: 3-4 peers on random topologies, "
               "connections dropped with messages in flight, reconnected with fresh or persisted states on both ends, concurrent "
               "edits; after edits stop every connected component must go quiet within the budget with equal heads and state; "
               "every step is compared field by field with the model.",
    rule=_SR,
    assumptions=PROPS["C20"]["assumptions"],
)
