_SR = PROPS["C20"]["rule"]
PROPS["C22"] = dict(
    families=["sync"],
    label="full for 'never applies' and 'still sends'; partial for catch-up (first exchange proved, termination explored)",
    level_text="Theorems over a decision-by-decision model of generate_sync_message / receive_sync_message_inner / State "
               "(Sync/Proto.v), for every Bloom filter behaviour: (1) for EVERY state with read_only set and EVERY message the "
               "document after receive equals the document before; (2) which changes a message carries is independent of the "
               "sender's read_only flag and contains every change the peer lacks by what it announced; a read-only peer with "
               "something to send that is not waiting does send it, flagged READ_ONLY and requesting nothing; (3) "
               "set_read_only(false) forgets the session, the next generate always emits SYNC_RESET (or empty heads for old "
               "peers) with a filter over all changes, either form empties the receiver's sent_hashes, and the receiver's next "
               "builder then carries every change the filter does not report (catch-up, partial: that false-positive leftovers "
               "are fetched via `need` and that the exchange terminates is explored, not proved). Tied to the code by "
               "field-by-field correspondence of every step of generated sessions and by direct evaluation: save() bytes and "
               "heads around every receive on a read-only state, the writer holds all of the read-only peer's changes at "
               "quiescence, and after switching back and syncing to quiescence both documents are equal.",
    rule=_SR,
    assumptions=PROPS["C20"]["assumptions"],
)
