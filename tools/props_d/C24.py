PROPS["C24"] = dict(
    families=["edit"],
    label="full for code points / UTF-8 / UTF-16 over the model (length = width, index resolution, insert boundary); grapheme "
          "clusters REFUTED on the implementation (known finding); spans, marks, cursors checked directly",
    level_text="Theorems over the text part of Crdt/Local.v (widths of types.rs TextEncoding::width for three encodings, element "
               "width = width of the winning value's string): widths are additive, the length of a text equals the width of its "
               "string, the element an index resolves to is the one whose span in the encoding covers the index (the seek used by "
               "get / put / delete / increment / splice), an insert lands on the element boundary at or after the index and is "
               "rejected exactly beyond the length. Tied to the code by the family `edit`: the model replays every text call in the "
               "three encodings (indexes inside multi-unit characters included) and is compared op by op and register by register; "
               "direct checks in all FOUR encodings: length == width of text(), splice_text at encoding-indexed positions == string "
               "splice at the character boundary, get(i) and cursors for every unit index, marks read back with the indexes given, "
               "concat(spans) == text. GraphemeCluster: length != width after appending a combining mark (KNOWN-FINDING).",
    rule="edit programs (see C03) in code points / UTF-8 / UTF-16 with multi-width, zero-width and non-string text elements; 24 "
         "(thorough 120) text programs of 25 (40) splice_text / mark steps over ASCII, 2-, 3- and 4-byte characters, combining marks "
         "and ZWJ sequences in all four encodings, every unit index read after every step. Non-trivial: every text program; "
         "distinct by its call log.",
    assumptions=["grapheme segmentation is outside the model", "patch indexes are not compared (C08/C09)"],
)
