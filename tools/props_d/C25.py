PROPS["C25"] = dict(
    families=["marks"],
    label="full for the marking function (Peritext rule, open-mark characterisation), reader agreement and convergence over the "
          "model of MarkStateMachine / calculate_marks / get_marks / spans; partial for expand (single mark); get_marks(i) indexes "
          "elements, not text units: REFUTED as a text-index reader under UTF-8 / UTF-16 (known finding)",
    level_text="Theorems over a model (Crdt/Marks.v) that mirrors the mark walk of the code on the op-based reading of a text "
               "(MarkBegin / MarkEnd are insert ops of the sequence, RGA order of Crdt/Interp.v): the set of open marks after any "
               "prefix is exactly the begins with no matching end since (C25_open_marks); at every visible character the value "
               "reported for a name is that of the greatest-id mark of that name covering it, absent iff none covers it "
               "(C25_mark_value_highest_id), null = unmarked (C25_null_is_unmarked); marks() - the calculate_marks_slow / "
               "MarkAccumulator mirror - expanded range by range (C25_marks_eq_pointwise), get_marks(i) by element "
               "(C25_get_marks_eq_pointwise; by text index only for unit widths, C25_get_marks_text_index_refuted otherwise) and the "
               "span mark sets (C25_spans_marks_eq_pointwise, C25_spans_concat_text) all equal that pointwise marking; every reader "
               "is a function of the SET of operations (C25_marks_converge); for one mark over plain text the insert query anchors "
               "a character inserted at the start / end boundary so that it is covered iff expand says so "
               "(C25_expand_single_mark_start_partial / _end_partial: item level, no tombstones, no second mark). Tied to the code by the family "
               "`marks`: every transaction of mark / unmark / splice_text calls is replayed by the model (InsertQuery anchor rule, "
               "begin / end placement, empty and inverted ranges, failed calls) and compared op for op with the committed change; "
               "marks() / marks_at, get_marks(i) for every i and spans() / spans_at of every replica (current state and recorded "
               "heads) are compared with the model's readers over the ops decoded from the changes; direct checks: the readers agree "
               "pointwise, reads survive save+load, marks_at(heads) == fork_at(heads).marks(), replicas with equal changes read "
               "equal, boundary inserts are covered iff the expand mode says so.",
    rule="histories: 2-3 replicas edit one text in code point / UTF-8 / UTF-16 encodings (1-4 unit characters): splice_text (60 % of "
         "the inserts exactly at a mark boundary), deletions (half of them exactly a marked range), mark / unmark over names "
         "{bold, it, ém} with bool / int / string / null values and the four expand modes, empty / inverted / out-of-range "
         "ranges, merges; views = every replica and the union, now and at up to 3 recorded head sets. Non-trivial: a transaction "
         "that marks or edits marked text, a view that reports marks in a history where two replicas marked; expand probes: one mark, "
         "tombstones around the boundary, insert at the start / end boundary. Distinct by the command log.",
    assumptions=["mark ops are never the target of another op (the API cannot address them)",
                 "block markers (split_block) and the GraphemeCluster encoding are outside the model",
                 "text elements are the single characters splice_text creates"],
)
