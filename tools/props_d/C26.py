PROPS["C26"] = dict(
    families=["cursor"],
    label="full over the model of get_cursor / get_cursor_position / seek_list_opid (lists; texts with per-element widths as a "
          "parameter); grapheme-cluster widths are not modelled",
    level_text="Theorems over a model that mirrors get_cursor_for, get_cursor_position_for and seek_list_opid on the op-based reading "
               "of the document (Crdt/Interp.v): a fresh cursor resolves to the index it was taken at in both move modes "
               "(C26_fresh_cursor); in ANY later op set MoveCursor::After resolves to the total width of the visible elements before "
               "the cursor's element (C26_after_position) - in a list the element's own index while it is visible, otherwise the "
               "index of the next surviving element, or the length (C26_list_after); MoveCursor::Before resolves to the same index "
               "while the element is visible (C26_before_visible) and otherwise to the nearest visible element along the insertion "
               "chain, or 0 (C26_before_deleted); a cursor whose op the document lacks is rejected. Tied to the code by resolving "
               "every generated cursor (both modes; taken in one replica, resolved in every replica, now and at historical heads; "
               "list and text under code-point / UTF-8 / UTF-16 encodings; elements overwritten, concurrently overwritten, deleted, "
               "re-inserted around) in the implementation and in the model over the operations decoded from the replica's changes, "
               "and by comparing the op get_cursor(i) names with the model's winner at i. Four defects found this way were repaired "
               "(fix: 677034608, 5a09f161b, 1452bf05a).",
    rule="histories: 2-3 replicas edit one list and one text (insert / delete / overwrite / splice, concurrent overwrites of one element, "
         "merges); cursors of both move modes are taken at random element starts and resolved at the end in every replica at the current "
         "state and at up to 2 recorded head sets. Non-trivial: a history in which at least one cursor resolves to an index other than "
         "the one it was taken at; distinct by the command log.",
    assumptions=["text element widths are 1 code point / its UTF-8 / UTF-16 length; grapheme clusters are outside the model"],
)
