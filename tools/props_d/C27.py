PROPS["C27"] = dict(
    families=["recon"],
    label="full for the update_text hook arithmetic (any edit script, three encodings) and for one level of update_list / "
          "update_map; spec-level for the Myers search; update_spans, batch_create_object, init_*_from_hydrate and nested "
          "splice are checked directly against the target value and against call-by-call construction "
          "(update_spans REFUTED on two input classes: known findings)",
    level_text="Model Crdt/Update.v mirrors text_diff.rs's TxHook (one running index in encoding units, equal / delete / insert / "
               "replace -> splice_text) over an arbitrary hook script, and update_list / update_map of transaction/inner.rs "
               "(after fix d4866c089) with the per-entry update as a parameter. Theorems (Crdt/UpdateProofs.v): "
               "C27_script_sound and C27_script_final_index (every script that tiles old and new drives the hook to exactly the "
               "new text, never leaving the slices), C27_update_list_reaches (growing / shrinking / equal lengths), "
               "C27_update_map_reaches (every key reads what the target reads), C27_update_list_head_deletion_refuted (the "
               "pre-fix loop). Tied to the code by the family `recon`: for every update_text call the edit script is recovered "
               "from the ops of the committed change (replayed on the element sequence), checked to tile old and new and run "
               "through the model's hook arithmetic, whose result must be the text the implementation shows (chk_script); "
               "direct checks: text() == new in four encodings and after save / load; update_object(root / list) on generated "
               "nested values == target (conflict flags ignored) and after reload; update_spans == target spans after merging "
               "adjacent equal-mark spans; init_from_hydrate, init_root_from_hydrate, batch_create_object (map key, list insert "
               "/ overwrite) and splice with nested values == the value and == the same value built call by call, also after "
               "save / load.",
    rule="update_text: 240 (thorough 1600) old / new pairs over ASCII, 2-, 3-, 4-byte characters, combining sequences and a ZWJ "
         "emoji, new derived from old by deleting / inserting / replacing / duplicating grapheme runs (or empty / unrelated / "
         "equal), half of the texts with earlier history (tombstones); update_object: nested maps / lists / texts / scalars of all "
         "kinds, depth <= 3 (4), targets derived by dropping / adding / changing keys, growing / shrinking / shuffling lists, "
         "editing texts, changing types; a third of the documents with conflicted root registers; update_spans: two rounds of "
         "0-5 spans (text with 0-2 marks, blocks with nested attributes); bulk construction through five entry points. "
         "Non-trivial: old != new / a != b; distinct by the pair.",
    assumptions=["the Myers search itself is not modelled: the script recovered from the implementation's ops is checked instead",
                 "update_list / update_map are proved for one level of the recursion (the per-entry update is assumed to reach "
                 "its target: the induction hypothesis); nested values are covered by the direct check",
                 "batch_create_eq_stepwise is not proved (direct comparison only)",
                 "update_object is compared up to the sign of a float zero: put(k, -0.0) over a register showing 0.0 is a no-op "
                 "by design (resolve_action compares with f64 ==), bulk construction is compared bit for bit"],
)
