TXN_RULE = ("programs on replicas of generated histories (2-3 replicas built through the public API: maps, lists, texts, counters, "
            "nested objects, merges, actor switches, empty changes; a third of them conflict-focused). C28: a transaction of 1-8 "
            "(thorough 1-12) calls (put, put_object, insert, insert_object, delete, increment preferring conflicted registers, splice, "
            "splice_text, mark / unmark, ~8 % invalid calls) through a manual transaction, transaction_at(heads), AutoCommit or an "
            "isolated AutoCommit, half of the time as an actor the document has never used (sorting first / last / anywhere), often "
            "right after a merge; rolled back; every prefix of it rolled back on a clone; then 1-6 further calls on the rolled-back "
            "document and on a clone taken before. C29: isolate(heads) / transaction_at(heads) at recorded head sets (older states, "
            "concurrent branches, rarely the current heads), 1-7 calls, a second isolated transaction, merges arriving while isolated, "
            "integrate. C30: every object id the replicas return (walk) or returned at creation (new actors sorting first / last) x every "
            "replica, pairwise merges, the merge of all, load(save), fork, fork_at(4 head sets) x 6 hint variants (as returned, 0, 1, past "
            "the table, usize::MAX, rebuilt from bytes with another hint). Non-trivial: C28 >= 1 undone op on a history of >= 3 changes; "
            "C29 a committed isolated change at non-current heads; C30 >= 2 ids and >= 5 documents; distinct by the program log.")

PROPS["C28"] = dict(
    families=["txn"],
    label="spec-level for the document state (model: pending ops leave the op set; actor table, heads, queue mirrored); "
          "full for the undo-log mechanism of the successor / visible / top columns (add_succ_with_undo, undo_succ, reset_top)",
    level_text="Model Crdt/Txn.v mirrors transaction_args (actor put into the sorted actor table - every concurrency level tried when "
               "isolated -, queue pruned, actor / seq / start_op / deps / scope), TransactionInner::rollback / commit (pending ops leave "
               "the op set, remove_actor when seq = 1, remove_unused_actors) over Crdt/Local.v (editing calls) and Crdt/Commit.v. Theorems "
               "(Crdt/TxnProofs.v): after ANY editing calls rollback restores applied changes, heads, actor, the actor table "
               "(it grew when the transaction opened; proved from the sorted-table invariant) and the op set; when no queued change claims "
               "the transaction's sequence number the rolled-back document is EQUAL to the original, hence the next transaction opens "
               "identically and the same calls yield the same change; the faithful model refutes the unconditional statement "
               "(C28_rollback_queue_refuted: transaction_args prunes the queue and rollback does not restore it - confirmed on the "
               "implementation, known finding). Mechanism layer: a line-by-line model of add_succ_with_undo / undo_succ / reset_top over "
               "the succ_count / successor / visible / text / top columns with theorems that undo restores exactly the columns "
               "(see the C28_undo_* statements). Tied to the code by the family txn: before vs after rollback (save() bytes, heads, "
               "actor, actor-index hints of every id, missing deps, full observation, wide read rendering) for whole transactions and every "
               "prefix, byte-identical next change and saved document vs an untouched clone, and model cases replaying the calls and the rollback.",
    rule=TXN_RULE,
    assumptions=["the columnar op set itself (B-tree columns, remove_ops) is not modelled: its undo is covered by the before/after byte comparison",
                 "marks / unmark run in direct-only programs (outside Crdt/Local.v)"],
)
