TXN_RULE = PROPS["C28"]["rule"]
PROPS["C29"] = dict(
    families=["txn"],
    label="full over the model (scope = clock at the heads with the writing actor admitted; editing calls of Crdt/Local.v on the scoped op set)",
    level_text="Theorems (Crdt/TxnProofs.v over ClockProofs / CommitProofs / QueueProofs): the actor an isolated transaction writes as has "
               "ALL its changes among the ancestors of the heads (from the repaired isolate_actor + the actor-chain invariant), so raising "
               "its clock entry (Clock::isolate) admits exactly the ops of the ancestors of the heads plus the transaction's own ops "
               "(C29_isolated_scope_eq); reads inside = observe(ops at the heads ++ own ops), equal to the historical read obs_at (C07, = fork_at) "
               "when the transaction opens, and equal to the op set the editing calls work on (C29_isolated_reads); the created change depends on "
               "exactly the (known) isolation heads, AutoCommit then isolates at that change and the next change depends on it alone; integrate "
               "leaves the applied changes untouched and the document then equals any replica that holds the other changes and receives the "
               "isolated ones one by one (C29_integrate_eq_merge, via order-independence of the interpretation). Tied to the code by the family "
               "txn: reads after every call vs fork_at(heads) + the same calls, deps / actor / seq of first and second isolated change, "
               "document after integrate vs clone + apply_changes, and model cases comparing actor, seq, start_op, deps, every read inside, "
               "the committed ops op for op and the isolated / integrated views afterwards.",
    rule=TXN_RULE,
    assumptions=["WFhist (op ids follow start_op, per-actor chains) is checked by wf_hist_b on every history sent to the model",
                 "marks / unmark run in direct-only programs"],
)
