TXN_RULE = PROPS["C28"]["rule"]
PROPS["C30"] = dict(
    families=["txn"],
    label="full",
    level_text="Model Crdt/Resolve.v mirrors Automerge::exid_to_obj (exid_to_opid of Codec/ExId.v: hint trusted only when actors[hint] == actor, "
               "else binary search; ObjId::is_root = counter 0; object index keyed by the make op's id) over the object table of the "
               "interpretation. Theorems (Crdt/ResolveProofs.v): an id resolves to the make op with exactly its (counter, actor) whenever the "
               "replica holds it - for every hint (right, stale, out of range) and every actor numbering -, inserting actors into the table "
               "changes nothing, any two replicas holding the make op resolve the id to the same object, the id one replica hands out resolves "
               "in another; a replica without that make op answers Err, and an Ok answer is never another object (C30_resolve_ok_sound); "
               "no panic for tables up to 2^32 actors. Side condition 0 < counter: an id with counter 0 names the root whatever its actor "
               "(C30_resolve_counter_zero_is_root; no API call returns such an id). Tied to the code by the family txn: every id x every "
               "replica / merged / loaded / forked / fork_at document x 6 hint variants: same reads under every hint and through the replica's own "
               "id, edits through the stalest hint land in that object, absent objects read nothing and reject edits; model cases for "
               "Ok(type) / Err.",
    rule=TXN_RULE,
    assumptions=["op ids are unique within a replica (NoDup hypothesis; C38)"],
)
