PROPS["C31"] = dict(
    families=["anon"],
    label="full over the model (shape equivariance of the interpretation under order-preserving renamings, at every heads; graph "
          "isomorphism); REFUTED on the implementation for GraphemeCluster text widths (known finding); the DEL-rank key collision "
          "and the one-at-a-time delivery panic it found are repaired",
    level_text="Crdt/Anon.v models anonymize.rs as a renaming of the history (actor map on change actors, op ids, object ids, element "
               "ids, predecessors; key and mark-name substitution; a fresh value of the same kind per occurrence; hash map on "
               "dependencies) and defines the shape of an observed state (types, nesting, per key / element the register's value "
               "kinds in op-id order, UTF-8 length of every string character, map entries as a sorted multiset because renamed keys "
               "list in another order). Theorems (Crdt/AnonProofs.v): shape(observe(rename ops)) = shape(observe ops) for every "
               "renaming that, ON THE IDS / KEYS / VALUES THAT OCCUR, preserves op-id order, is injective on keys, keeps key character "
               "lengths and value kind + encoded shape; the same at every head set through the hash map (obs_at); heads, dependencies, "
               "ancestors, seq, start_op, op counts map through the renaming; op-id order follows from actor order (counters >= 1); "
               "equal shapes give equal object types, key counts, list lengths and text widths in code points / UTF-8 / UTF-16; "
               "order preservation is necessary (witness); the code's actor map (rank in the sorted actor set, big-endian after a "
               "common prefix) is order preserving; the structural character substitution keeps UTF-8 lengths and character classes and is "
               "injective for every permutation of the ranks (the model follows the repaired structural_character_from_rank); the "
               "whitespace class of content strings is not kept (refuted, finer than the property). Tied to "
               "the code by the family `anon`: Automerge::anonymize on multi-replica histories; the bijection by (actor rank, seq); "
               "op-by-op canonical comparison (is an order-preserving renaming); state shape read through the public API at every "
               "recorded head set; private data replaced; save/load/re-save; anonymize twice; and the model evaluates the ORIGINAL and "
               "the ANONYMIZED changes itself and compares the two shapes (chk_same_shape) and its measures with length_at.",
    rule="40 (thorough 240) histories of the family hist plus 120 (720) own programs of 15-60 (20-110) steps over 2-4 replicas in the "
         "four text encodings with text-heavy / mark-heavy / conflict-heavy / mixed profiles (multi-byte, combining, ZWJ, whitespace, "
         "control characters; counters, increments, conflicting objects; commit messages and times; actor changes; TIE steps: two synchronized replicas each make one op, so that the two ops have one counter and only the actor order decides the conflict / sibling order - those head sets are compared and sent to the model first), 12 (60) targeted "
         "control-character key programs and 8 (24) one-at-a-time delivery probes (both repaired defects, expected clean); every recorded head set (up to 5 / 8 per history) compared. Non-trivial: >= 3 changes and "
         ">= 8 ops; distinct by the change hashes.",
    assumptions=["anonymize draws its own entropy (no public seed): the anonymized side of a case is not reproducible bit for bit, "
                 "the checks are on canonical forms", "grapheme segmentation is outside the model",
                 "mark spans are compared as coverage per mark name: equal-valued adjacent marks receive different fresh values, so "
                 "marks() can split a span (counted, not a failure: the property does not promise mark values)"],
)
