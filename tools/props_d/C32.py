PROPS["C32"] = dict(
    families=["recon"],
    label="full over the model (winners only, text as strings, every container at any depth announces its true length); the "
          "implementation is checked with a length-enforcing serializer and with serde_json",
    level_text="Model Crdt/Render.v mirrors the traversal of autoserde.rs (after fix 5bd3832f2) over an observation: maps announce "
               "doc.length(obj) and emit one entry per key with the register's winner, sequences announce nothing and emit one "
               "item per visible element, text is one string, scalars by kind (counter / timestamp as i64, bytes as an announced "
               "u8 sequence). Theorems (Crdt/RenderProofs.v): C32_render_faithful, C32_announced_len_true (induction over the "
               "nesting depth). Tied to the code by the family `recon`, stream serde: AutoSerde::from(&doc) is serialized into a "
               "test Serializer that records the tree and checks every serialize_map / serialize_seq / struct / bytes length "
               "against the entries it receives, and into serde_json; both are compared with the winners read through keys / "
               "length / get_all / text (over Automerge and AutoCommit), and the recorded tree (with its announced lengths) "
               "with the model's rendering of the CRDT reading of the document's ops (chk_render).",
    rule="multi-replica documents (1-3 replicas, concurrent writes to a small key alphabet and low list indexes: conflicted "
         "registers string / int / counter / object, deletes, nested maps and lists, text objects, empty strings) plus a map "
         "holding every scalar kind (bytes, counter, timestamp, u64::MAX, i64::MIN, f64, null, bool) and nested empty bytes. "
         "Non-trivial: a tree with >= 3 map nodes; distinct by the tree.",
    assumptions=["ObjType::Table is not generated (the implementation never registers a table as an object)"],
)
