PROPS["C33"] = dict(
    families=["recon"],
    label="partial over the model (value tree, not ops; serde_json's text parser outside); REFUTED on the implementation for "
          "floats with long representations (known finding: serde_json without float_roundtrip); integers by kind and value, "
          "strings, keys, arrays, nesting round trip",
    level_text="Model Crdt/Render.v: import_val (import.rs: members put / items inserted in order, numbers by as_i64, else as_u64, "
               "else as_f64) and export_val (export.rs = serde_json::to_value(AutoSerde)) over an abstract document value; theorem "
               "C33_export_import_id_partial by induction on JSON values (PosInt / NegInt / Float kinds, unique keys). Tied to the "
               "code by the family `recon`, stream cli: the built `automerge` binary (cargo build -p automerge-cli from the "
               "current /repo tree into the framework's own target dir) is driven as `import` | `export` on generated JSON "
               "objects and the values are compared by kind and value (floats by bit pattern, parsed with float_roundtrip on "
               "the harness side); the library's own AutoSerde export of the imported document must agree with `export`.",
    rule="JSON objects of depth <= 4: null, booleans, integers over the whole i64 and u64 ranges (edges and random), floats by "
         "random bit pattern (finite) and edge values (-0.0, 5e-324, f64::MAX, 1e23, 2^53+1), strings over ASCII, escapes, "
         "control characters, 2-, 3-, 4-byte characters, combining and ZWJ sequences, empty strings and empty keys, empty and "
         "nested arrays and objects. Non-trivial: nesting depth >= 2; distinct by the JSON text.",
    assumptions=["numbers outside the u64 / i64 ranges are floats already in serde_json's value model",
                 "the op-level effect of the import calls is C03's subject; here the document is a value tree"],
)
