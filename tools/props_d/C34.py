PROPS["C34"] = dict(
    families=["hexcol", "hexenc"],
    label="spec-level: the theorems are about the executable Vec specification of the column API (Hexane/ColSpec.v); the slab / "
          "run-length / B-tree implementation is NOT modelled line by line and is tied to the specification differentially",
    level_text="Spec-level. Hexane/ColSpec.v is the Vec specification of hexane's column API (Column<T>, PrefixColumn<T>, "
               "DeltaColumn<T>, RawColumn, the Edit / DeltaEdit cursor): a column is a list, every edit is the list surgery the Rust "
               "body performs (splice with assert!(index + del <= len) as Panic, remove / truncate / remove_n(_, 0) past the end as "
               "no-ops, the cursor's clamped seek / delete, DeltaEdit::seek saturating) and every query is a function of the list "
               "(clamped range iteration, maximal runs, find / scope by value, prefix sums, get_index_for_prefix / _total with their "
               "boundary conventions, advance_prefix, delta runs with running prefix, find_by_range). Theorems (unbounded, closed): "
               "splice_spec / panic / length / get, every named edit as a list operation, splice = remove_n then insert, disjoint "
               "splices commute, the cursor session of splice_inner is splice and a cursor never disturbs the suffix ahead of it; "
               "iter_range pointwise; runs: expansion gives the contents, positive counts, adjacent runs differ, and that run list is "
               "unique (canonical); find_all = exactly the indexes holding v in ascending order, scan_to_value the first; prefix "
               "sums: app / step / clamp / monotone on unsigned columns, sum_range; index_for_prefix is the first (on unsigned "
               "columns the least) index whose prefix reaches t, len+1 beyond the total; index_for_total names the owner of unit t "
               "and is the inverse of the running total on strictly positive columns; advance_prefix lands on the item containing "
               "unit n+1; bool accumulator = number of trues; delta presentation = running sum of stored deltas (both directions), "
               "DeltaRun prefixes are the running values, find_by_range / find_by_value / find_first exact. The slab / B-tree code is "
               "tied to this by the family hexcol: every edit of every generated program on 21 column types + RawColumn is compared "
               "with a Rust Vec mirror (len, to_vec, sampled queries of every kind) and, for the small programs, the same program "
               "with the IMPLEMENTATION's answers is evaluated in the Coq specification (chk_col_prog).",
    rule="edit programs (60-200 edits, thorough up to 600) per column type: Column<u64|Option<u64>|i64|Option<i64>|u32|String|"
         "Option<String>|Vec<u8>|Option<Vec<u8>>|bool>, PrefixColumn<u64|Option<u64>|u32|bool|i64>, DeltaColumn<u64|Option<u64>|i64|"
         "Option<i64>|u32|Option<i32>>, RawColumn; with_max_segments in {2,3,4,5,8,16,64}; values from small pools with repeats (long "
         "runs, run merges / splits at slab boundaries), arithmetic progressions, nulls, type extremes; edits = splice / insert / "
         "remove / remove_n / push / truncate / clear / extend / splice_runs / pop / cursor sessions (seek, advance, delete, "
         "insert_run, replace); streams: main, sorted (scope_to_value), out-of-range (panic must match the specification's Panic; "
         "huge indexes direct-only). After every edit: len + to_vec + 3-4 sampled queries. Non-trivial: >= 5 edits and the column "
         "reached >= 2 slabs (or, on the out-of-range stream, >= 1 expected panic); distinct by (type, budget, program).",
    assumptions=["the slab / RLE / B-tree implementation is not modelled: agreement with the specification is checked "
                 "differentially on generated programs, not proved",
                 "DeltaColumn values respect the documented domain contract (all values within one 2^63-wide range)"],
)
