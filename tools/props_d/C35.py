FAMILY_SHARDS["hexenc"] = {"oracle_for": ["C35"]}

PROPS["C35"] = dict(
    families=["hexenc"],
    label="full for RLE columns (u64, i64, String, Vec<u8>, nullable or not) and bool columns; partial for delta columns "
          "(delta save-then-load proved for every list inside a window that contains 0, is < 2^63 wide and lies in the type's domain: all u64 / Option<u64> lists; for signed lists outside such a window only 'if it loads it holds the same values')",
    level_text="Theorems over a model that mirrors hexane's loader (rle/decoder.rs try_next_segment + validate_after, rle/load.rs "
               "slab item counters, bool.rs BoolLoadIter::finalize, delta/indexed.rs accumulate_run + DeltaColumn::load_with) and "
               "hexane's own varint codec (the leb128 crate readers, which accept over-long encodings, and hexane's writers): for ALL "
               "value lists load(save l) = Ok l per column type; for ALL byte strings a column that loads re-saves to bytes that load "
               "to the same column; bytes that load parse, segment by segment, into exactly the canonical run list of the loaded "
               "values (so adjacent runs never merge, no count-0/1 repeat runs, nulls only in nullable columns); loading never "
               "panics, for every column type incl. bool and delta (after fixes a623e02f7 and 1187ab90a). "
               "Tied to the code by byte-exact comparison of save() with the model writer (columns built from value lists and "
               "from random splice edits), by comparing accept / reject / panic and the decoded runs of load on random, mutated "
               "and hand-structured byte strings (over-long varints, count-0/1 runs, mergeable runs, truncation, i64::MIN headers, "
               "huge counts) with the model loader, by direct checks load(save(c)) == c, load(save(load b)) == load b, and save(load b) == b whenever b is the canonical spelling.",
    rule="per column type (u64, i64, String, Vec<u8>, each plain and Option; bool; delta i64/u64 plain and Option): value lists of "
         "0..300 (model) and 300..2000 (direct) values with long runs, alternation, literal stretches, nulls, extremes (i64::MIN/MAX, "
         "u64::MAX, empty and multi-byte UTF-8 strings, invalid UTF-8 blobs), half of them edited by up to 8 random splices; malformed "
         "stream: fixed probes, random bytes, mutated valid encodings, structured segment streams. Non-trivial: a saved column with "
         ">= 2 values, or bytes that load to a non-empty column; distinct by bytes and column type.",
    assumptions=["inputs shorter than 4 GiB (the u32 byte counters of RleTail are not modelled)",
                 "the slab cut target is DEFAULT_MAX_SEG/2 = 32 (no longer observable: every failure on the load path is an error)"],
)
