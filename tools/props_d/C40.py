PROPS["C40"] = dict(
    families=["recon"],
    label="full over the model: no visible string left in any map key / list element, each register that showed strings holds "
          "one text with the highest-id string (conflict siblings of any kind are superseded with it), every other register, "
          "object type and element order untouched, no change without a visible string; totality of the migration step",
    level_text="Model Crdt/Migrate.v mirrors Automerge::convert_scalar_strings_to_text (every visible Put(Str) of every map / list "
               "object in op-set order -> (object, key | list index, string); one transaction; put_object(.., Text) + "
               "splice_text(text, 0, 0, s) through the editing calls of Crdt/Local.v). Theorems (Crdt/MigrateProofs.v, by an "
               "invariant over the list of conversions, unbounded): C40_migrate_no_visible_string, "
               "C40_migrate_text_is_highest_string, C40_migrate_others_untouched, C40_migrate_noop_no_change, "
               "C40_migrate_change_iff, C40_migrate_total, for any well-formed op set (decidable predicate, checked on every "
               "generated document). Tied to the code by the family `recon`, stream mig: saved multi-replica documents are "
               "loaded plainly and with ConvertToText; the ops of the appended change are compared op for op "
               "(id, obj, key, insert, action, pred) and the full observation after it register by register with the model "
               "(chk_migrate) in three encodings; the property itself is evaluated directly on the implementation in four.",
    rule="documents: 1-3 replicas (forked, concurrent edits, merges) writing strings (60 % of the values), integers, counters, "
         "objects into a small key alphabet and low list indexes, so that registers hold string / string, string / integer, "
         "string / counter and string / object conflicts; deletes, overwritten and deleted parents, nested maps and lists, text "
         "objects, empty strings; one document in ten has no string scalar at all. Non-trivial: a document with at least one "
         "register showing a string; distinct by its saved bytes.",
    assumptions=["the GraphemeCluster encoding is checked directly only (the model has code point / UTF-8 / UTF-16 widths)",
                 "the actor of the appended change is read from the implementation (a loaded document gets a random actor)"],
)
