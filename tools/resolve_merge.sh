#!/bin/bash
# resolve the routine conflicts of merging a worker branch: keep both sides of main.rs / known_findings.txt,
# regenerate pins.json and MANIFEST.json
cd "$(dirname "$0")/.."
python3 - <<'PY'
import re
for p in ['harness/src/main.rs','known_findings.txt','tools/gen_consts.py']:
    s=open(p).read()
    if '<<<<<<<' in s:
        s=re.sub(r'<<<<<<< [^\n]*\n(.*?)=======\n(.*?)>>>>>>> [^\n]*\n', lambda m: m.group(1)+m.group(2), s, flags=re.S)
        open(p,'w').write(s)
PY
git checkout --ours MANIFEST.json coq/pins.json 2>/dev/null
# evidence files are rewritten by the checks: take the incoming side of a conflict
for f in $(git diff --name-only --diff-filter=U -- evidence harness/Cargo.lock 2>/dev/null); do git checkout --theirs -- "$f" 2>/dev/null; done
python3 tools/pin.py; python3 tools/gen_manifest.py
( cd coq && coq_makefile -f _CoqProject $(find theories -name '*.v' | sort) -o Makefile >/dev/null 2>&1 )
grep -n "<<<<<<<\|>>>>>>>" -r harness/src tools known_findings.txt | head
