#!/bin/bash
# run every registered quick check once; one summary line per property
cd "$(dirname "$0")/.."
for p in $(python3 -c "import json;print(' '.join(c['property_id'] for c in json.load(open('MANIFEST.json'))['checks']))"); do
  s=$(date +%s); out=$(./check $p --tier ${TIER:-quick} 2>&1); rc=$?; e=$(date +%s)
  echo "$p rc=$rc $((e-s))s :: $(echo "$out" | grep -E "^\[$p\]" | tail -1) $(echo "$out" | grep -c '^VIOLATION') violations $(echo "$out" | grep -c '^KNOWN-FINDING') known"
done
