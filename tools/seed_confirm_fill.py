#!/usr/bin/env python3
"""fill the `confirmed` field of seeded/*/meta.json from work/confirm_seeds.log (written by tools/confirm_seeds.sh)
and the CAUGHT/MISSED lines of work/mt_*.txt (written by tools/mutant_test.sh)"""
import glob, json, os, re
root = os.path.join(os.path.dirname(os.path.abspath(__file__)), "..")
conf = {}
p = os.path.join(root, "work", "confirm_seeds.log")
if os.path.exists(p):
    for l in open(p):
        try:
            j = json.loads(l)
        except ValueError:
            continue
        conf[j["seed"]] = j
for d in sorted(glob.glob(os.path.join(root, "seeded", "*"))):
    mp = os.path.join(d, "meta.json")
    if not os.path.exists(mp):
        continue
    m = json.load(open(mp))
    name = os.path.basename(d)
    c = conf.get(name)
    if c and m.get("confirmed", "PENDING").startswith("PENDING") and "error" not in c:
        ok = c["demo_without_patch_rc"] == 0 and c["demo_with_patch_rc"] != 0 and c["suite_with_patch_rc"] == 0
        m["confirmed"] = ("confirmed by the lead in a scratch worktree (tools/confirm_seeds.sh): demo passes without the patch (rc 0), "
                          "fails with it (rc %d), the repository's suite with the patch: %s" % (c["demo_with_patch_rc"], c["suite"].strip())) if ok else \
                         "NOT CONFIRMED: %s" % json.dumps(c)
        json.dump(m, open(mp, "w"), indent=1)
        print(name, "->", "ok" if ok else "NOT CONFIRMED")
