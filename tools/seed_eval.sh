#!/bin/bash
# tools/seed_eval.sh <seed-name> <prop>...  — confirm a seed (demo both ways + suite) and run the given checks against it.
# Results: work/confirm_seeds.log (JSON line) and work/mt_results.txt (CAUGHT/MISSED lines).  Development tool.
V="$(cd "$(dirname "$0")/.." && pwd)"; n="$1"; shift
mkdir -p "$V/work"
bash "$V/tools/confirm_seeds.sh" "$n" >/dev/null 2>&1
bash "$V/tools/mutant_test.sh" "$n" "$V/seeded/$n/patch.diff" "$@" 2>&1 | grep -E "^(CAUGHT|MISSED|PATCH)" >> "$V/work/mt_results.txt"
