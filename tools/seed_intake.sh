#!/bin/bash
# tools/seed_intake.sh <ID> <name> — copy a seed delivered by a seed-writing agent (/tmp/seedwt/<ID>/seed) into seeded/<ID>-<name>/
set -e
V="$(cd "$(dirname "$0")/.." && pwd)"; id="$1"; name="$1-$2"; src="/tmp/seedwt/$1/seed"
mkdir -p "$V/seeded/$name"
cp "$src/patch.diff" "$src/demo.rs" "$V/seeded/$name/"; [ -f "$src/notes.md" ] && cp "$src/notes.md" "$V/seeded/$name/"
git -C /repo apply --check "$V/seeded/$name/patch.diff" && echo "patch applies to /repo HEAD"
git -C /repo worktree remove --force "/tmp/seedwt/$1" && echo "worktree removed"
echo "$name"
