#!/usr/bin/env python3
"""print the markdown table of seeded changes from seeded/*/meta.json (for DESIGN.md §13.4)"""
import glob, json, os
root = os.path.join(os.path.dirname(os.path.abspath(__file__)), "..", "seeded")
import sys
out = []
out.append("| seed | property | what it needs to manifest | caught by |")
out.append("|------|----------|---------------------------|-----------|")
for d in sorted(glob.glob(os.path.join(root, "*"))):
    mp = os.path.join(d, "meta.json")
    if not os.path.exists(mp):
        continue
    m = json.load(open(mp))
    cb = m.get("caught_by", [])
    out.append("| `%s` | %s | %s | %s |" % (os.path.basename(d), m.get("property", ""), m.get("needs", "").replace("|", "/"),
                                      "; ".join(cb).replace("|", "/")))

table = "\n".join(out)
if "--write" in sys.argv:
    dp = os.path.join(root, "..", "DESIGN.md")
    d = open(dp).read()
    a = d.index("<!-- seeds-table-begin -->") + len("<!-- seeds-table-begin -->\n")
    b = d.index("<!-- seeds-table-end -->")
    open(dp, "w").write(d[:a] + table + "\n" + d[b:])
    print("DESIGN.md seeds table updated (%d seeds)" % (len(out) - 2))
else:
    print(table)
