#!/usr/bin/env python3
"""print the markdown table of seeded changes from seeded/*/meta.json (for DESIGN.md §13.4)"""
import glob, json, os
root = os.path.join(os.path.dirname(os.path.abspath(__file__)), "..", "seeded")
print("| seed | property | what it needs to manifest | caught by |")
print("|------|----------|---------------------------|-----------|")
for d in sorted(glob.glob(os.path.join(root, "*"))):
    mp = os.path.join(d, "meta.json")
    if not os.path.exists(mp):
        continue
    m = json.load(open(mp))
    cb = m.get("caught_by", [])
    print("| `%s` | %s | %s | %s |" % (os.path.basename(d), m.get("property", ""), m.get("needs", "").replace("|", "/"),
                                      "; ".join(cb).replace("|", "/")))
