#!/bin/bash
# MANIFEST.setup_cmd — build the framework offline from files on disk.
set -e
cd "$(dirname "$0")/.."
export CARGO_NET_OFFLINE=true
export CARGO_TARGET_DIR="$(pwd)/target"
mkdir -p work evidence
python3 tools/gen_consts.py || true
( cd coq && coq_makefile -f _CoqProject $(find theories -name '*.v' | sort) -o Makefile >/dev/null 2>&1 )
# keep going past a broken file so that every property whose proofs still check can be decided
( cd coq && timeout 3000 make -k -j16 >../work/coq_build.log 2>&1 ) || { mkdir -p work; echo "coq build had errors (see work/coq_build.log)"; }
cp -f /repo/rust/Cargo.lock harness/Cargo.lock
( cd harness && RUSTFLAGS="--cfg automerge_verif" cargo build --offline 2>&1 | tail -3 )
echo setup done
